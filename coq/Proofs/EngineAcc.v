(* A second generic proof rule for the state-machine engine (Model/Fsm.v), more
   general than Proofs/Engine.v: the invariant on machines and the predicate on
   effects are indexed by an ACCUMULATOR folded over the effects emitted so far
   (Engine.v is the special case "accumulator = last durable record").  This
   lets an invariant speak about what has already happened in the world (e.g.
   "the wallet has broadcast transaction o", "a spend was broadcast").
   Proved once, for ANY table. *)
From Coq Require Import String ZArith Bool List Lia.
From RecordUpdate Require Import RecordSet.
From PS Require Import Base.Wrap Model.Data Model.Actions Model.Fsm Model.History Proofs.Monad Proofs.Engine.
Import ListNotations RecordSetNotations.
Open Scope Z_scope.

Strategy opaque [event_loop exec loop_fuel action_fuel pay_loop].

Section AccTrace.
Variable A : Type.
Variable upd : A -> effect -> A.
Variable P : A -> effect -> Prop.

Fixpoint tr_ok (a : A) (es : list effect) : Prop :=
  match es with
  | [] => True
  | e :: r => P a e /\ tr_ok (upd a e) r
  end.

Definition acc_end (a : A) (es : list effect) : A := fold_left upd es a.

Lemma acc_end_app a es1 es2 : acc_end a (es1 ++ es2) = acc_end (acc_end a es1) es2.
Proof. unfold acc_end. apply fold_left_app. Qed.

Lemma tr_ok_app a es1 es2 : tr_ok a (es1 ++ es2) <-> tr_ok a es1 /\ tr_ok (acc_end a es1) es2.
Proof.
  revert a. induction es1 as [|e r IH]; intros a; simpl.
  - tauto.
  - rewrite IH. unfold acc_end. simpl. tauto.
Qed.

Lemma tr_ok_firstn a es k : tr_ok a es -> tr_ok a (firstn k es).
Proof.
  revert a k. induction es as [|e r IH]; intros a [|k]; simpl; auto. intros [H1 H2]. auto.
Qed.
End AccTrace.

Arguments tr_ok {A} upd P a es.
Arguments acc_end {A} upd a es.

Section RuleAcc.
Variable tc : tl_consts.
Variable decode : string -> option (string * Z * Z).
Variable t : table.
Variable terminal : list string.

Variable A : Type.
Variable upd : A -> effect -> A.
Variable I : A -> machine -> Prop.        (* holds at every loop head and at rest *)
Variable P : A -> effect -> Prop.         (* holds of every effect, given what happened before it *)
Variable E : A -> machine -> string -> Prop.   (* which event may be processed in which machine state, given what happened *)

Notation trok := (tr_ok upd P).
Notation aend := (acc_end upd).

Hypothesis I_retries : forall a m r, I a m -> I a (m <| m_retries := r |>).
Hypothesis E_retries : forall a m r ev, E a m ev -> E a (m <| m_retries := r |>) ev.
Hypothesis E_persist : forall a m ev s d ok, E a m ev -> E (upd a (EPersist s d ok)) m ev.
Hypothesis persist_rule : forall a m ok, I a m ->
  P a (EPersist (m_cur m) (m_data m) ok) /\ I (upd a (EPersist (m_cur m) (m_data m) ok)) m.

Hypothesis act_rule :
  forall a m ev nxt sd act, I a m -> E a m ev ->
    next_state t (m_cur m) ev = Some nxt -> lookup_state t nxt = Some sd -> st_action sd = Some act ->
    forall w ev' d' w' es,
      exec tc decode action_fuel act (m_data (enter m nxt)) w = ((ev', d'), w', es) ->
      trok a es /\ I (aend a es) ((enter m nxt) <| m_data := d' |>) /\ E (aend a es) ((enter m nxt) <| m_data := d' |>) ev'.

Lemma persist_acc a m w ok w' es :
  I a m -> persist m w = (ok, w', es) ->
  es = [EPersist (m_cur m) (m_data m) ok] /\ trok a es /\ I (aend a es) m.
Proof.
  intros HI H. apply persist_inv in H. subst es.
  destruct (persist_rule a m ok HI) as [HP HI']. cbn. auto.
Qed.

Lemma event_loop_acc fuel : forall a m ev w m' res w' es,
  I a m -> E a m ev ->
  event_loop tc decode t fuel m ev w = ((m', res), w', es) ->
  trok a es /\ I (aend a es) m'.
Proof.
  induction fuel as [|fuel IH]; intros a m ev w m' res w' es HI HE H.
  - rewrite event_loop_O in H. apply ret_inv in H. destruct H as (H & _ & ->). inversion H; subst. cbn. auto.
  - rewrite event_loop_S in H.
    destruct (next_state t (m_cur m) ev) as [nxt|] eqn:Hn.
    2:{ apply ret_inv in H. destruct H as (H & _ & ->). inversion H; subst. cbn. auto. }
    destruct (lookup_state t nxt) as [sd|] eqn:Hl.
    2:{ apply ret_inv in H. destruct H as (H & _ & ->). inversion H; subst. cbn. auto. }
    destruct (st_action sd) as [act|] eqn:Ha.
    2:{ apply ret_inv in H. destruct H as (H & _ & ->). inversion H; subst. cbn. auto. }
    cbv zeta in H.
    apply bind_inv in H. destruct H as ([ev' d'] & w1 & e1 & e2 & Hex & H & ->).
    destruct (act_rule a m ev nxt sd act HI HE Hn Hl Ha _ _ _ _ _ Hex) as (T1 & HI2 & HE2).
    fold (enter m nxt) in H.
    set (m2 := (enter m nxt) <| m_data := d' |>) in *.
    destruct (String.eqb ev' Ev_Panic).
    { apply ret_inv in H. destruct H as (H & _ & ->). inversion H; subst.
      rewrite app_nil_r. auto. }
    apply bind_inv in H. destruct H as (ok & w2 & e3 & e4 & Hp & H & ->).
    destruct (persist_acc _ _ _ _ _ _ HI2 Hp) as (-> & T3 & HI3).
    set (a3 := aend (aend a e1) [EPersist (m_cur m2) (m_data m2) ok]) in *.
    assert (HE3 : E a3 m2 ev') by (apply (E_persist _ _ _ (m_cur m2) (m_data m2) ok) in HE2; exact HE2).
    assert (Hfin : forall mm, I a3 mm ->
              trok a (e1 ++ [EPersist (m_cur m2) (m_data m2) ok] ++ []) /\
              I (aend a (e1 ++ [EPersist (m_cur m2) (m_data m2) ok] ++ [])) mm).
    { intros mm Hmm. rewrite app_nil_r. split.
      - apply tr_ok_app. auto.
      - rewrite acc_end_app. exact Hmm. }
    destruct ok; cbn [negb] in H.
    2:{ apply ret_inv in H. destruct H as (H & _ & ->). inversion H; subst. apply Hfin. exact HI3. }
    assert (Hrec : forall mm evx wx mx rx wy ey, I a3 mm -> E a3 mm evx ->
              event_loop tc decode t fuel mm evx wx = ((mx, rx), wy, ey) ->
              trok a (e1 ++ [EPersist (m_cur m2) (m_data m2) true] ++ ey) /\
              I (aend a (e1 ++ [EPersist (m_cur m2) (m_data m2) true] ++ ey)) mx).
    { intros mm evx wx mx rx wy ey Hmm HEm Hl'. apply IH with (a := a3) in Hl'; auto. destruct Hl' as [T4 HIx].
      split.
      - apply tr_ok_app. split; auto. apply tr_ok_app. split; auto.
      - rewrite !acc_end_app. exact HIx. }
    destruct (String.eqb ev' Ev_Done).
    { apply ret_inv in H. destruct H as (H & _ & ->). inversion H; subst. apply Hfin; auto. }
    destruct (String.eqb ev' Ev_NoOp).
    { apply ret_inv in H. destruct H as (H & _ & ->). inversion H; subst. apply Hfin; auto. }
    destruct (String.eqb ev' Ev_Retry).
    + cbv zeta in H.
      match type of H with (if ?c then _ else _) _ = _ => destruct c end.
      * apply ret_inv in H. destruct H as (H & _ & ->). inversion H; subst.
        apply Hfin. apply I_retries. apply I_retries. auto.
      * apply (Hrec (m2 <| m_retries := m_retries m2 + 1 |>) ev' w2 m' res w' e4); auto.
    + apply (Hrec m2 ev' w2 m' res w' e4); auto.
Qed.

Definition ctx_ok_acc (a : A) (m : machine) (ev : string) (ctx : option wire_msg) : Prop :=
  match ctx with
  | None => E a m ev
  | Some c =>
      E a m Ev_Invalid /\
      (forall d', validate_ctx (m_data m) c = true -> apply_ctx (m_data m) c = Some d' ->
                  I a (m <| m_data := d' |>) /\ E a (m <| m_data := d' |>) ev)
  end.

Lemma persist_then_loop_acc a mm evx wx m' res w' es :
  I a mm -> E a mm evx ->
  persist_then_loop tc decode t mm evx wx = ((m', res), w', es) ->
  trok a es /\ I (aend a es) m'.
Proof.
  intros Hmm HEm Hk. unfold persist_then_loop in Hk.
  apply bind_inv in Hk. destruct Hk as (ok & w1 & e1 & e2 & Hp & Hk & ->).
  destruct (persist_acc _ _ _ _ _ _ Hmm Hp) as (-> & T1 & HI1).
  destruct ok; cbn [negb] in Hk.
  - apply event_loop_acc with (a := aend a [EPersist (m_cur mm) (m_data mm) true]) in Hk; auto.
    2:{ apply (E_persist _ _ _ (m_cur mm) (m_data mm) true) in HEm. exact HEm. }
    destruct Hk as [T2 HI']. split.
    + apply tr_ok_app. auto.
    + rewrite acc_end_app. exact HI'.
  - apply ret_inv in Hk. destruct Hk as (Hk & _ & ->). inversion Hk; subst.
    rewrite app_nil_r. auto.
Qed.

Arguments persist_then_loop : simpl never.

Lemma send_event_acc a m ev ctx w m' res w' es :
  I a m -> ctx_ok_acc a m ev ctx ->
  send_event tc decode t m ev ctx w = ((m', res), w', es) ->
  trok a es /\ I (aend a es) m'.
Proof.
  intros HI HC H. unfold send_event in H.
  destruct (String.eqb ev Ev_Done).
  { apply ret_inv in H. destruct H as (H & _ & ->). inversion H; subst. cbn. auto. }
  destruct (next_state t (m_cur m) ev).
  2:{ apply ret_inv in H. destruct H as (H & _ & ->). inversion H; subst. cbn. auto. }
  destruct ctx as [c|]; cbn [ctx_ok_acc] in HC.
  - destruct HC as [HEinv HC].
    destruct (validate_ctx (m_data m) c) eqn:Hv; cbn [negb] in H.
    + destruct (apply_ctx (m_data m) c) as [d'|] eqn:Hap.
      * destruct (HC d' eq_refl eq_refl) as [HI1 HE1].
        exact (persist_then_loop_acc _ _ _ _ _ _ _ _ HI1 HE1 H).
      * apply ret_inv in H. destruct H as (H & _ & ->). inversion H; subst. cbn. auto.
    + unfold accepted_then_loop in H. destruct (next_state t (m_cur m) Ev_Invalid).
      * exact (persist_then_loop_acc _ _ _ _ _ _ _ _ HI HEinv H).
      * apply ret_inv in H. destruct H as (H & _ & ->). inversion H; subst. cbn. auto.
  - exact (persist_then_loop_acc _ _ _ _ _ _ _ _ HI HC H).
Qed.

(* Recover(): the action of the CURRENT state runs on the machine as restored *)
Hypothesis recover_rule :
  forall a m sd act, I a m -> lookup_state t (m_cur m) = Some sd -> st_action sd = Some act ->
    (st_fail_on_recover sd = true -> E a m Ev_Failed) /\
    (st_fail_on_recover sd = false ->
     forall w ev' d' w' es,
       exec tc decode action_fuel act (m_data m) w = ((ev', d'), w', es) ->
       trok a es /\ I (aend a es) (m <| m_data := d' |>) /\ E (aend a es) (m <| m_data := d' |>) ev').

Lemma recover_acc a m w m' res w' es :
  I a m -> recover tc decode t m w = ((m', res), w', es) -> trok a es /\ I (aend a es) m'.
Proof.
  intros HI H. unfold recover in H.
  destruct (lookup_state t (m_cur m)) as [sd|] eqn:Hl.
  2:{ apply ret_inv in H. destruct H as (H & _ & ->). inversion H; subst. cbn. auto. }
  destruct (st_action sd) as [act|] eqn:Ha.
  2:{ apply ret_inv in H. destruct H as (H & _ & ->). inversion H; subst. cbn. auto. }
  destruct (recover_rule a m sd act HI Hl Ha) as [Rf Rn].
  destruct (st_fail_on_recover sd) eqn:Hf.
  - assert (Hc : ctx_ok_acc a m Ev_Failed None) by (cbn; auto).
    apply (send_event_acc a m Ev_Failed None) in H; auto.
  - apply bind_inv in H. destruct H as ([ev' d'] & w1 & e1 & e2 & Hex & H & ->).
    destruct (Rn eq_refl _ _ _ _ _ Hex) as (T1 & HI1 & HE1).
    destruct (String.eqb ev' Ev_Panic).
    { apply ret_inv in H. destruct H as (H & _ & ->). inversion H; subst.
      rewrite app_nil_r. auto. }
    apply bind_inv in H. destruct H as (ok & w2 & e3 & e4 & Hp & H & ->).
    destruct (persist_acc _ _ _ _ _ _ HI1 Hp) as (-> & T3 & HI3).
    destruct ok; cbn [negb] in H.
    2:{ apply ret_inv in H. destruct H as (H & _ & ->). inversion H; subst.
        rewrite app_nil_r. split; [apply tr_ok_app; auto | rewrite acc_end_app; auto]. }
    destruct (String.eqb ev' Ev_NoOp).
    { apply ret_inv in H. destruct H as (H & _ & ->). inversion H; subst.
      rewrite app_nil_r. split; [apply tr_ok_app; auto | rewrite acc_end_app; auto]. }
    match type of HI3 with I ?a3 _ =>
      assert (Hc : ctx_ok_acc a3 (m <| m_data := d' |>) ev' None)
        by (cbn; apply (E_persist _ _ _ (m_cur (m <| m_data := d' |>)) (m_data (m <| m_data := d' |>)) true) in HE1; exact HE1);
      apply (send_event_acc a3 _ ev' None) in H; auto end.
    destruct H as [T4 HI']. split.
    + apply tr_ok_app. split; auto. apply tr_ok_app. split; auto.
    + rewrite !acc_end_app. exact HI'.
Qed.

(* admissible inputs of a step, as seen by the invariant *)
Definition input_ok_acc (a : A) (m : machine) (i : input) : Prop :=
  match i with
  | InEvent ev ctx => ctx_ok_acc a m ev ctx
  | InRequestIn rq => ctx_ok_acc a m "Event_SwapInReceiver_OnRequestReceived" (Some (MInReq rq))
  | InTxConfirmed hex err => False      (* not needed by the users of this rule so far: see Engine.step_rule *)
  | InCsvPassed => E a m "Event_OnCsvPassed"
  | InTimeout => E a m Ev_Timeout
  | InRecover => True
  end.

Theorem step_acc a m i w o w' es :
  I a m -> input_ok_acc a m i ->
  step tc decode t terminal m i w = (o, w', es) ->
  trok a es /\ I (aend a es) (o_machine o).
Proof.
  intros HI HIn H. destruct i as [ev ctx|rq|hex err| | |]; unfold step in H; cbn [input_ok_acc] in HIn.
  - apply bind_inv in H. destruct H as ([m1 res] & w1 & e1 & e2 & Hs & H & ->).
    apply ret_inv in H. destruct H as (-> & _ & ->). rewrite app_nil_r.
    apply (send_event_acc a m ev ctx) in Hs; auto.
  - apply bind_inv in H. destruct H as ([m1 res] & w1 & e1 & e2 & Hs & H & ->).
    apply ret_inv in H. destruct H as (-> & _ & ->). rewrite app_nil_r.
    apply (send_event_acc a m _ _) in Hs; auto.
  - contradiction.
  - apply bind_inv in H. destruct H as ([m1 res] & w1 & e1 & e2 & Hs & H & ->).
    apply ret_inv in H. destruct H as (-> & _ & ->). rewrite app_nil_r.
    assert (Hc : ctx_ok_acc a m "Event_OnCsvPassed" None) by (cbn; auto).
    apply (send_event_acc a m _ None) in Hs; auto.
  - apply bind_inv in H. destruct H as ([m1 res] & w1 & e1 & e2 & Hs & H & ->).
    apply ret_inv in H. destruct H as (-> & _ & ->). rewrite app_nil_r.
    assert (Hc : ctx_ok_acc a m Ev_Timeout None) by (cbn; auto).
    apply (send_event_acc a m _ None) in Hs; auto.
  - destruct (is_finished terminal (m_cur m)).
    { apply ret_inv in H. destruct H as (-> & _ & ->). cbn. auto. }
    apply bind_inv in H. destruct H as ([m1 res] & w1 & e1 & e2 & Hs & H & ->).
    apply ret_inv in H. destruct H as (-> & _ & ->). rewrite app_nil_r.
    apply (recover_acc a) in Hs; auto.
Qed.

End RuleAcc.
