(* World-aware symbolic execution of the step monad: like Proofs/MTac.v, but the
   queue pops keep the relation between the world before and after (needed by
   progress arguments, where the environment's answers are constrained). *)
From Coq Require Import String ZArith Bool List Lia.
From RecordUpdate Require Import RecordSet.
From PS Require Import Base.Wrap Model.Data Model.Actions Proofs.Monad Proofs.ExecRule Proofs.MTac.
Import ListNotations RecordSetNotations.

(* what a pop does to the world *)
Definition Popped {A} (get : world -> list A) (put : list A -> world -> world) (dflt : A)
    (w : world) (a : A) (w' : world) : Prop :=
  (exists r, get w = a :: r /\ w' = put r w) \/ (get w = [] /\ a = dflt /\ w' = overrun w).

Lemma pop_inv_w {A} get put (dflt : A) w a w' es :
  pop get put dflt w = (a, w', es) -> es = [] /\ Popped get put dflt w a w'.
Proof.
  unfold pop, Popped. destruct (get w) as [|x r] eqn:E; intros H; inversion H; subst; split; auto.
  left. exists r. auto.
Qed.

(* the part of the world the progress arguments constrain *)
Definition wcore (w : world) := (q_store w, q_spend w, q_script w, q_height w).

Lemma wcore_overrun w : wcore (overrun w) = wcore w.
Proof. destruct w; reflexivity. Qed.

Lemma popped_other {A} get put (dflt : A) w a w' :
  Popped get put dflt w a w' -> (forall r w0, wcore (put r w0) = wcore w0) -> wcore w' = wcore w.
Proof.
  intros [(r & _ & ->)|(_ & _ & ->)] Hput; [apply Hput|apply wcore_overrun].
Qed.

Ltac wunfold_in H :=
  unfold fail, succeed, panic, log_rejected, pop_premium in H.

(* decompose every hypothesis "m w = (r, w', es)"; pops become [Popped] facts *)
Ltac wsym :=
  repeat match goal with
  | H : ret _ _ = (_, _, _) |- _ =>
      apply ret_inv in H; let h1 := fresh "Hr" in destruct H as (h1 & ? & ?); try (inversion h1; clear h1); subst
  | H : emit _ _ = (_, _, _) |- _ => apply emit_inv in H; destruct H as (? & ?); subst
  | H : ask _ _ = (_, _, _) |- _ => apply ask_inv in H; destruct H as (? & ? & ?); subst
  | H : pop _ _ _ _ = (_, _, _) |- _ =>
      apply pop_inv_w in H; let h1 := fresh "Hp" in destruct H as (? & h1); subst
  | H : bind _ _ _ = (_, _, _) |- _ =>
      let h1 := fresh "Hb" in
      apply bind_inv in H; destruct H as (? & ? & ? & ? & h1 & H & ?); subst
  | H : (if ?c then _ else _) _ = (_, _, _) |- _ => let E := fresh "Eif" in destruct c eqn:E
  | H : (match ?x with _ => _ end) _ = (_, _, _) |- _ => let E := fresh "Ematch" in destruct x eqn:E
  | H : (let '(_, _) := ?x in _) _ = (_, _, _) |- _ => destruct x
  | H : ?f _ = (_, _, _) |- _ => progress munfold_in H
  end.
