(* C07 — A maker's locked funds are never abandoned.  Property theorems only.

   Vocabulary (Model/Data.v, Model/History.v, Model/C07Corr.v, Model/C07Table.v, Proofs/C07.v):
   * a history is a list of service entry points (HStep) and of entry points during which the process
     dies after its k-th effect (HCrash), each with the environment's answers (world); a restart
     (InRecover) works on the last DURABLE store write; hist_ok: only inputs the environment can produce.
   * bc_of e = Some o: e is the wallet call that broadcast opening transaction o (EBroadcastOpening .. (Some o)).
   * otb_matches d o: the swap data d names o (OpeningTxBroadcasted.txid/vout = o's, OpeningTxHex = o's hex).
   * paid_of its: the claim-invoice-paid notification is among the inputs; spent_in tr: some
     EBroadcastSpend .. (Some txid) (coop, CSV) is in the trace.
   * no_orphan: at no item boundary (end of an entry point or crash point) is there a broadcast that
     has not been followed by a durable write — the negation of the KNOWN finding D7. *)
From Coq Require Import String ZArith Bool List.
From PS Require Import Model.Data Model.Actions Model.Fsm Model.History Model.FsmCorr Model.C07Corr Model.C07Table
  Gen.ConstsSwap Gen.Tables Proofs.Engine Proofs.EngineAcc Proofs.C07Exec Proofs.C07 Proofs.C07Csv.
Import ListNotations.
Open Scope Z_scope.

(* the generated maker tables pass the reflective checks (closure of the post-broadcast states, finished
   states entered only by the paid notification or a successful spend, CSV event leads to the CSV spend, ...) *)
Theorem c07_tables_checked :
  forallb (fun t => maker_table_ok t terminal_states && csv_table_ok t terminal_states)
          [table_swap_in_sender; table_swap_out_receiver] = true.
Proof. exact maker_tables_checked. Qed.
Print Assumptions c07_tables_checked.

(* THE FULL STATEMENT (a)+(b): for both maker tables of the code, every history with crashes and restarts,
   every environment: once the wallet has broadcast opening transaction o, the last durable record names o,
   every later store write names o, and that record is in a finished state only if the paid notification was
   delivered or a spending transaction was broadcast. *)
Definition C07_statement (excluding_known : bool) : Prop :=
  forall t, In t [table_swap_in_sender; table_swap_out_receiver] ->
  forall dec id ty role peer initiator privkey its,
  let h0 := init_hstate (fresh_machine id ty role peer initiator privkey) in
  let h := run_hist tl_consts_gen dec t terminal_states h0 its in
  hist_ok tl_consts_gen dec t terminal_states h0 its = true ->
  (if excluding_known then no_orphan tl_consts_gen dec t terminal_states h0 its = true else True) ->
  forall pre e o post, hs_trace h = (pre ++ e :: post)%list -> bc_of e = Some o ->
  record_kept terminal_states its (hs_trace h) o post.

Definition C07_full : Prop := C07_statement false.
(* C07_full is FALSE of the code: Findings/F_C07_2.v (crash between the wallet broadcast and the next store write). *)

Theorem C07_except_known : C07_statement true.
Proof. exact c07_gen. Qed.
Print Assumptions C07_except_known.

(* the same for ANY state table that passes the check, any timelock constants *)
Theorem c07_any_checked_table : forall tc dec t terminal,
  maker_table_ok t terminal = true ->
  forall id ty role peer initiator privkey its,
  let h0 := init_hstate (fresh_machine id ty role peer initiator privkey) in
  let h := run_hist tc dec t terminal h0 its in
  hist_ok tc dec t terminal h0 its = true -> no_orphan tc dec t terminal h0 its = true ->
  forall pre e o post, hs_trace h = (pre ++ e :: post)%list -> bc_of e = Some o ->
    (exists s d, last_persist (hs_trace h) = Some (s, d) /\ otb_matches d o = true /\
                 (is_finished terminal s = true -> paid_of its = true \/ spent_in (hs_trace h) = true)) /\
    (forall s d ok, In (EPersist s d ok) post -> otb_matches d o = true).
Proof. exact c07_record. Qed.
Print Assumptions c07_any_checked_table.

(* (c1) Whenever the CSV watch fires (OnCsvPassed) while the maker waits in a state reached after the
   broadcast and no spending transaction is recorded yet, the node asks the wallet to broadcast the CSV
   refund, with the wallet's first answer - for every environment in which the first store write of the
   entry point succeeds (otherwise the error goes back to the watcher, which keeps the watch and calls again). *)
Theorem c07_csv_refund : forall t, In t [table_swap_in_sender; table_swap_out_receiver] ->
  forall dec m w o w' es,
  mem (m_cur m) (post_states t) = true -> waiting_state t (m_cur m) = true ->
  chain_known (m_data m) = true -> str_nonempty (d_claim_txid (m_data m)) = false ->
  hd true (q_store w) = true ->
  step tl_consts_gen dec t terminal_states m InCsvPassed w = (o, w', es) ->
  In (EBroadcastSpend SKCsv (hd None (q_spend w))) es.
Proof. exact csv_refund_gen. Qed.
Print Assumptions c07_csv_refund.

(* (c2) The action of every waiting state - it runs when the state is entered AND when the swap is recovered
   after a restart - registers the CSV watch on the outpoint (txid, announced vout) of the record, with the
   swap's starting height and the policy's CSV depth, provided the output script can be computed. *)
Theorem c07_waiting_state_watches : forall t, In t [table_swap_in_sender; table_swap_out_receiver] ->
  forall dec s sd act d w r w' es x pol,
  mem s (post_states t) = true -> waiting_state t s = true ->
  lookup_state t s = Some sd -> st_action sd = Some act ->
  d_otb d = Some x -> chain_known d = true -> timelock_policy tl_consts_gen d = Some pol -> hd false (q_script w) = true ->
  exec tl_consts_gen dec action_fuel act d w = (r, w', es) ->
  fst r = Ev_NoOp /\ In (EWatchCsv (ob_txid x) (ob_vout x) (d_start_height d) (p_csv pol)) es.
Proof. exact waiting_state_watches_gen. Qed.
Print Assumptions c07_waiting_state_watches.

(* (c2, restart) RecoverSwaps on a swap stored in a waiting state registers the CSV watch again *)
Theorem c07_recover_watches : forall t, In t [table_swap_in_sender; table_swap_out_receiver] ->
  forall dec m w r w' es x pol,
  mem (m_cur m) (post_states t) = true -> waiting_state t (m_cur m) = true -> is_fin terminal_states (m_cur m) = false ->
  d_otb (m_data m) = Some x -> chain_known (m_data m) = true -> timelock_policy tl_consts_gen (m_data m) = Some pol ->
  hd false (q_script w) = true ->
  recover tl_consts_gen dec t m w = (r, w', es) ->
  In (EWatchCsv (ob_txid x) (ob_vout x) (d_start_height (m_data m)) (p_csv pol)) es.
Proof. exact recover_watches_gen. Qed.
Print Assumptions c07_recover_watches.

(* (c3, partial: the temporal composition of c1-c3 over a history is not a theorem here) Every state reachable
   after the broadcast is a waiting state that watches, a finished state, a state attempting a spend, or the
   (re)transmission of the announcement that continues into a waiting state whatever its outcome. *)
Theorem c07_post_states_classified_partial : forall t, In t [table_swap_in_sender; table_swap_out_receiver] ->
  forall s, mem s (post_states t) = true ->
  (waiting_state t s = true /\ watch_state t s = true) \/
  is_fin terminal_states s = true \/ spend_state t s = true \/
  (exists a b, next_state t s Ev_Succeeded = Some a /\ next_state t s Ev_Failed = Some b /\
               waiting_state t a = true /\ waiting_state t b = true).
Proof. exact post_states_classified_gen. Qed.
Print Assumptions c07_post_states_classified_partial.

Theorem c07_csv_depths :
  option_map p_csv policy_btc_v7 = Some 1008 /\ option_map p_csv policy_lbtc_v7 = Some 10080 /\
  option_map p_csv policy_lbtc_v6 = Some 60.
Proof. exact csv_constants. Qed.
Print Assumptions c07_csv_depths.
