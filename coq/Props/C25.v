(* C25 — Policy changes apply immediately and survive a reload.
   Property theorems only; each is closed by [exact lemma].

   Model: Model/Ini.v (go-flags INI reader), Model/Policy.v (policy.go: parser,
   addLineToFile, removeLineFromFile, the operations, [step]/[run]).
   Abstract policy machine of the property: Model/C25Corr.v [spec_step].
   [run_trace s ops] = (error flag, policy in memory) after every operation;
   [synced s] = the file of [s] parses (reload / restart) to the policy in memory. *)
From Coq Require Import String ZArith Bool List.
From PS Require Import Base.Strs Model.Ini Model.Policy Gen.ConstsPolicy Model.C25Corr Proofs.C25.
Import ListNotations.

(* THE FULL STATEMENT: for every pre-existing file content that loads, and every
   sequence of operations (add/remove allowlisted and suspicious peers with any
   string as pubkey, disable/enable, reload, restart), the errors returned and
   the policy in memory after every operation are those of the abstract machine
   (valid new key added, present key removed, flag switched; invalid pubkeys,
   duplicate additions and absent removals rejected), and after every operation
   the file reloads to exactly the policy in memory.
   It is FALSE of the code: Findings/F_C25_1.v and F_C25_3.v refute it with two file
   shapes (each replayed on the real code every run, see findings/C25.json). A third
   shape (F_C25_2.v, unterminated last line) was repaired in the repo (fix: commit cbf4d81);
   the model follows the repaired addLineToFile and that refutation no longer compiles. *)
Definition C25_full : Prop :=
  forall f0 p0 ops,
    parse_file f0 = POk p0 -> no_ext ops = true ->
    run_trace (mkSt f0 p0) ops = spec_trace p0 ops /\
    (forall pre post, ops = (pre ++ post)%list -> synced (run (mkSt f0 p0) pre)).

(* What holds: the same statement for every file outside the two remaining refuted
   shapes. [canonical f0] = the file has no [section] header and every line that
   sets allowlisted_peers / suspicious_peers is written as the code writes it
   (key=value, optionally followed by CR); anything else is allowed: comments,
   blank lines, other keys in any spelling, repeated keys, CRLF, a missing final newline. *)
Theorem c25_except_known : forall f0 p0 ops,
  canonical f0 = true ->
  parse_file f0 = POk p0 -> no_ext ops = true ->
  run_trace (mkSt f0 p0) ops = spec_trace p0 ops /\
  (forall pre post, ops = (pre ++ post)%list -> synced (run (mkSt f0 p0) pre)).
Proof. exact sequences_refine. Qed.
Print Assumptions c25_except_known.

(* one operation, from any state whose canonical file parses to the memory:
   abstract effect, canonical and synced afterwards, rejection = no change at all *)
Theorem c25_step : forall s o, Inv s -> is_ext o = false ->
  (fst (step s o), s_mem (snd (step s o))) = spec_step (s_mem s) o /\
  Inv (snd (step s o)) /\
  (fst (step s o) = true -> snd (step s o) = s).
Proof. exact step_refines. Qed.
Print Assumptions c25_step.

(* invalid pubkeys, duplicate additions, removals of absent peers: rejected with
   memory and file untouched — for EVERY state and file content *)
Theorem c25_rejected_unchanged : forall s o,
  fst (spec_step (s_mem s) o) = true -> step s o = (true, s).
Proof. exact rejected_unchanged. Qed.
Print Assumptions c25_rejected_unchanged.

(* a reload or restart adopts the file as it is now (also after the operator
   edited it) or fails and changes nothing — for EVERY state and file content *)
Theorem c25_reload_adopts : forall s o, o = OReload \/ o = ORestart ->
  (fst (step s o) = false -> synced (snd (step s o)) /\ s_file (snd (step s o)) = s_file s) /\
  (fst (step s o) = true -> snd (step s o) = s).
Proof. exact reload_adopts. Qed.
Print Assumptions c25_reload_adopts.

(* the change is seen by the next request (IsPeerAllowed / IsPeerSuspicious / NewSwapsAllowed) *)
Theorem c25_next_request : forall s o, Inv s -> fst (step s o) = false ->
  let m' := s_mem (snd (step s o)) in
  match o with
  | OAddAllow pk => is_peer_allowed m' pk = true
  | ORemAllow pk => str_in pk (p_allow m') = false /\ is_peer_allowed m' pk = p_accept_all (s_mem s)
  | OAddSusp pk => is_peer_suspicious m' pk = true
  | ORemSusp pk => is_peer_suspicious m' pk = false
  | ODisable => new_swaps_allowed m' = false
  | OEnable => new_swaps_allowed m' = true
  | _ => True
  end.
Proof. exact next_request. Qed.
Print Assumptions c25_next_request.

(* the names and numbers of the property text are the ones in the running code *)
Theorem c25_constants :
  line_allow_prefix = "allowlisted_peers="%string /\ line_susp_prefix = "suspicious_peers="%string /\
  file_after_disable = add_line "" line_swaps_false /\
  file_after_disable_enable = add_line "" line_swaps_true /\
  pubkey_lengths = [66%nat] /\ pubkey_alphabet = "0123456789abcdef"%string /\
  lookup_key "allowlisted_peers" = KField FAllow /\ lookup_key "suspicious_peers" = KField FSusp /\
  lookup_key "allow_new_swaps" = KField FAllowNew /\
  default_policy_allow = [] /\ default_policy_susp = [] /\ default_policy_allow_new = true.
Proof. exact gen_policy_constants. Qed.
Print Assumptions c25_constants.
