(* C21 — Wire messages follow the protocol numbering and encoding.
   Property theorems only; each is closed by [exact lemma].
   message_types, message_type_hex, max_payload_len and wire_schemas are regenerated from the running code
   (constants, MessageTypeToHexString, a probe of OnMessageReceived, reflection over the seven message structs). *)
From Coq Require Import String Ascii ZArith Bool List.
From PS Require Import Base.Strs Base.Json Model.Wire Gen.WireC21 Model.C21Corr Proofs.C21.
Import ListNotations.
Open Scope Z_scope.

(* The nine message types are 42069, 42071, ..., 42085 in protocol order, all odd. *)
Theorem c21_type_numbers :
  map snd message_types = map (fun k => 42069 + 2 * Z.of_nat k) (seq 0 9) /\
  forall n t, In (n, t) message_types -> 42069 <= t <= 42085 /\ Z.odd t = true.
Proof. exact type_numbers_spec. Qed.
Print Assumptions c21_type_numbers.

(* A received type string is accepted only if it is the hexadecimal spelling of one of those numbers,
   for arbitrary strings. *)
Theorem c21_type_accepts_only_protocol_numbers : forall s t,
  custom_type message_types s = TOk t ->
  In t (map snd message_types) /\ parse_int16 s = Some t /\ is_peerswap_type t = true.
Proof. exact custom_type_in_table. Qed.
Print Assumptions c21_type_accepts_only_protocol_numbers.

(* The hex string a type is sent with reads back as the same type. *)
Theorem c21_type_hex_roundtrip : forall n t,
  In (n, t) message_types -> custom_type message_types (hex_of_Z t) = TOk t.
Proof. exact type_hex_roundtrip_in. Qed.
Print Assumptions c21_type_hex_roundtrip.

(* Every swap message struct is sent with its protocol type number, and its schema is one the codec model covers. *)
Theorem c21_sent_with_protocol_number : forall name t sch,
  In (name, (t, sch)) wire_schemas ->
  protocol_type_of name = Some t /\ is_peerswap_type t = true /\ schema_ok sch = true.
Proof. exact wire_schema_facts. Qed.
Print Assumptions c21_sent_with_protocol_number.

(* Encoding then decoding returns the same content, for every message value of every swap message struct
   (all integers of the field's width incl. 0 and the extremes, all strings incl. empty, absent or any id). *)
Theorem c21_roundtrip : forall name t sch m,
  In (name, (t, sch)) wire_schemas -> well_typed sch m = true ->
  decode sch (encode sch m) = DMsg m.
Proof. exact roundtrip_generated. Qed.
Print Assumptions c21_roundtrip.

(* ... and for any struct schema of the supported shape, not only today's seven *)
Theorem c21_roundtrip_any_schema : forall sch m,
  schema_ok sch = true -> well_typed sch m = true -> decode sch (encode sch m) = DMsg m.
Proof. exact roundtrip. Qed.
Print Assumptions c21_roundtrip_any_schema.

(* A message reaches a swap handler only if it is at most 100 KiB, its type string is one of the seven
   swap message types, and its payload is JSON that decodes to a message of that type carrying a swap id. *)
Theorem c21_only_wellformed_dispatched : forall ty len payload t m,
  code_on_message ty len payload = ODispatch t m ->
  len <= 100 * 1024 /\ custom_type message_types ty = TOk t /\ 42069 <= t <= 42081 /\ Z.odd t = true /\
  well_formed_for t payload m.
Proof. exact dispatch_only_wellformed. Qed.
Print Assumptions c21_only_wellformed_dispatched.

(* Everything else (arbitrary type strings, arbitrary payload bytes) is ignored: whatever the handlers
   are, the node state is unchanged, and the receive path does not crash. *)
Theorem c21_junk_ignored : forall (S : Type) (handle : S -> Z -> msg -> S) st ty len payload,
  ~ (len <= 100 * 1024 /\ exists t m, custom_type message_types ty = TOk t /\ 42069 <= t <= 42081 /\
       well_formed_for t payload m) ->
  step handle st (code_on_message ty len payload) = st /\ code_on_message ty len payload <> OPanic.
Proof. exact junk_changes_nothing. Qed.
Print Assumptions c21_junk_ignored.

Theorem c21_never_panics : forall ty len payload, code_on_message ty len payload <> OPanic.
Proof. exact never_panics. Qed.
Print Assumptions c21_never_panics.

(* the three classes the property names *)
Theorem c21_oversize_ignored : forall (S : Type) (handle : S -> Z -> msg -> S) st ty len payload,
  100 * 1024 < len -> step handle st (code_on_message ty len payload) = st.
Proof. exact oversize_ignored. Qed.
Print Assumptions c21_oversize_ignored.

Theorem c21_foreign_type_ignored : forall (S : Type) (handle : S -> Z -> msg -> S) st ty len payload,
  (forall t, custom_type message_types ty = TOk t -> ~ (42069 <= t <= 42081)) ->
  step handle st (code_on_message ty len payload) = st.
Proof. exact foreign_type_ignored. Qed.
Print Assumptions c21_foreign_type_ignored.

Theorem c21_malformed_payload_ignored : forall (S : Type) (handle : S -> Z -> msg -> S) st ty len payload,
  (payload = None \/ payload = Some JNull \/ (exists s, payload = Some (JStr s)) \/ (exists s, payload = Some (JNum s)) \/
   (exists b, payload = Some (JBool b)) \/ (exists l, payload = Some (JArr l))) ->
  step handle st (code_on_message ty len payload) = st.
Proof. exact malformed_payload_ignored. Qed.
Print Assumptions c21_malformed_payload_ignored.
