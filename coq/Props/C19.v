(* C19 — No data races between concurrent events, RPC calls and watchers.
   Property theorems only; each is closed by [exact lemma].

   PARTIAL BY DESIGN (DESIGN.md sections 6 and 8).  What is proved is the lockset discipline on the lock/access
   SKELETON regenerated from the source on every run (Gen/Skel.v; see Props/C18.v for what a skeleton is): field
   CLASSES of the long-lived shared objects (SwapService, SwapStateMachine, SwapData, SwapServices, Policy, the
   watchers, the block-header subscriber, the peer-sync poller, package variables), reads and writes in program order,
   including "read everything" where such an object is handed to code outside the analysed packages (json.Marshal
   in the store).  The Go memory model and the race detector are run-time matters: they are covered by the stress
   search (a -race build of the harness hammering every concurrent entry point), not by the theorem. *)
From Coq Require Import NArith Bool List.
From PS Require Import Gen.Skel Model.Skel Model.C19Corr Proofs.C19.
Import ListNotations.

(* lockset_sound, for ARBITRARY skeletons and any exclusion predicate [exc]: if every function releases only what it
   acquired, [E g] is a set of locks held at EVERY call of g (entry points and goroutine bodies: none), and every two
   access sites of the same field class of which one writes - the same site twice included - have a lock in common
   (locks acquired in the function so far, plus E) or are excused by [exc], then in every configuration reachable by
   any number of threads started at entry points, two DIFFERENT threads that are both about to access the same field
   class, one of them writing, are at an excused pair of sites. *)
Theorem lockset_sound :
  forall (sk : skeleton) (E : fname -> list lock) (exc : excuse),
    lockset_check (prog_of sk) E (sk_roots sk) exc = true ->
    forall (ts : list fname) (c : config),
      incl ts (sk_roots sk) -> reach (prog_of sk) (init (prog_of sk) ts) c ->
      forall i j g1 g2 f w1 w2, i <> j ->
        accessing c i = Some (g1, f, w1) -> accessing c j = Some (g2, f, w2) -> w1 || w2 = true ->
        exc f g1 g2 = true \/ exc f g2 g1 = true.
Proof. exact lockset_sound_skel. Qed.
Print Assumptions lockset_sound.

(* without exclusions: conflicting accesses are never simultaneously enabled *)
Theorem lockset_sound_no_exclusion :
  forall (sk : skeleton) (E : fname -> list lock),
    lockset_check (prog_of sk) E (sk_roots sk) (fun _ _ _ => false) = true ->
    forall ts c, incl ts (sk_roots sk) -> reach (prog_of sk) (init (prog_of sk) ts) c ->
    forall i j g1 g2 f w1 w2, i <> j ->
      accessing c i = Some (g1, f, w1) -> accessing c j = Some (g2, f, w2) -> w1 || w2 = false.
Proof. exact lockset_sound_strict. Qed.
Print Assumptions lockset_sound_no_exclusion.

(* FULL statement for today's skeleton: the only exclusions are the start-up functions and the functions that work on
   objects no other goroutine can reach (both listed, with reasons, in Model/C19Corr.v).  It does NOT hold of the code:
   finding C19/1 (SwapService.lockSwap reads other swaps' data under the service lock only), confirmed by the race
   detector and restated in Findings/F_C19_1.v. *)
Definition C19_full : Prop :=
  forall ts c, incl ts skel_roots -> reach c19_prog_full (init c19_prog_full ts) c ->
  forall i j g1 g2 f w1 w2, i <> j ->
    accessing c i = Some (g1, f, w1) -> accessing c j = Some (g2, f, w2) -> w1 || w2 = true ->
    c19_excuse_full f g1 g2 = true \/ c19_excuse_full f g2 g1 = true.

(* c19_current: the skeleton generated from the code as it is NOW decodes completely, the extractor met no construct
   it cannot flatten soundly, and the lockset check holds with the computed must-hold sets MINUS exactly the two site
   pairs of the known finding (c19_known) and the start-up / private functions.  A new unsynchronised site is outside
   the exclusion and makes this theorem fail. *)
Theorem c19_current : c19_skeleton_ok = true.
Proof. exact c19_skeleton_ok_now. Qed.
Print Assumptions c19_current.

(* proved: every conflicting pair that any schedule over today's skeleton can enable simultaneously is a known-finding
   pair or involves a start-up / private function *)
Theorem c19_no_race_except_known :
  forall ts c, incl ts skel_roots -> reach c19_prog (init c19_prog ts) c ->
  forall i j g1 g2 f w1 w2, i <> j ->
    accessing c i = Some (g1, f, w1) -> accessing c j = Some (g2, f, w2) -> w1 || w2 = true ->
    c19_excuse f g1 g2 = true \/ c19_excuse f g2 g1 = true.
Proof. exact c19_current_races_excused. Qed.
Print Assumptions c19_no_race_except_known.
