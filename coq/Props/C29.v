(* C29 — The database version changes only when no swap is active.
   Property theorems only; each is closed by [exact lemma].

   [code_safe_upgrade] = model of VersionService.SafeUpgrade + SwapService.HasActiveSwaps +
   bboltStore.ListAll + IsFinished, instantiated with the terminal set and the version constant
   regenerated from the code (Gen/SwapStatesC29.v).  A database [db] is the stored version
   (None = never written) and the list of persisted swap records (a state, or undecodable bytes).
   [all_terminal tbl swaps]: every record decodes and IsFinished holds of its state. *)
From Coq Require Import String Bool List.
From PS Require Import Model.VersionDb Gen.SwapStatesC29 Model.C29Corr Proofs.C29.
Import ListNotations.

(* the terminal states of the code *)
Theorem c29_terminal_states : forall s,
  code_is_finished s = true <->
  In s ["State_ClaimedCoop"; "State_ClaimedCsv"; "State_ClaimedPreimage"; "State_SwapCanceled"]%string.
Proof. exact finished_iff_named. Qed.
Print Assumptions c29_terminal_states.

(* ... are, in each of the four state tables, exactly the states that accept no further event *)
Theorem c29_terminal_iff_no_outgoing_event : forall t s n,
  In (t, s, n) swap_state_tables -> (code_is_finished s = true <-> n = 0%nat).
Proof. exact table_state_finished_iff_no_events. Qed.
Print Assumptions c29_terminal_iff_no_outgoing_event.

(* the stored version is replaced only if every persisted swap is terminal — and then by the
   current version, with startup succeeding (all stores, all stored versions) *)
Theorem c29_version_replaced_only_if_all_terminal : forall d,
  db_version (fst (code_safe_upgrade d)) <> db_version d ->
  all_terminal swap_is_finished_table (db_swaps d) /\
  db_version (fst (code_safe_upgrade d)) = Some db_version_current /\
  snd (code_safe_upgrade d) = UOk /\ db_version d <> Some db_version_current.
Proof. exact (upgrade_change_only_if_terminal swap_is_finished_table db_version_current). Qed.
Print Assumptions c29_version_replaced_only_if_all_terminal.

(* otherwise (a replacement is due, some swap is active or unreadable) startup fails and the
   stored version and the swaps are left unchanged *)
Theorem c29_blocked_start_fails_and_changes_nothing : forall d,
  db_version d <> Some db_version_current -> ~ all_terminal swap_is_finished_table (db_swaps d) ->
  snd (code_safe_upgrade d) <> UOk /\ fst (code_safe_upgrade d) = d.
Proof. exact (upgrade_blocked swap_is_finished_table db_version_current). Qed.
Print Assumptions c29_blocked_start_fails_and_changes_nothing.

Theorem c29_failed_start_changes_nothing : forall d,
  snd (code_safe_upgrade d) <> UOk -> fst (code_safe_upgrade d) = d.
Proof. exact (upgrade_failure_changes_nothing swap_is_finished_table db_version_current). Qed.
Print Assumptions c29_failed_start_changes_nothing.

Theorem c29_swaps_never_touched : forall d,
  db_swaps (fst (code_safe_upgrade d)) = db_swaps d.
Proof. exact (upgrade_swaps_untouched swap_is_finished_table db_version_current). Qed.
Print Assumptions c29_swaps_never_touched.

(* exact characterisation of the outcome *)
Theorem c29_at_current_version_iff : forall d,
  db_version (fst (code_safe_upgrade d)) = Some db_version_current <->
  db_version d = Some db_version_current \/ all_terminal swap_is_finished_table (db_swaps d).
Proof. exact (upgrade_result_iff swap_is_finished_table db_version_current). Qed.
Print Assumptions c29_at_current_version_iff.

Theorem c29_start_succeeds_iff : forall d,
  snd (code_safe_upgrade d) = UOk <->
  db_version d = Some db_version_current \/ all_terminal swap_is_finished_table (db_swaps d).
Proof. exact (upgrade_success_iff swap_is_finished_table db_version_current). Qed.
Print Assumptions c29_start_succeeds_iff.

(* the ActiveSwapsError is reported exactly for a readable store with a non-terminal swap *)
Theorem c29_active_swaps_error_iff : forall d,
  snd (code_safe_upgrade d) = UActive <->
  db_version d <> Some db_version_current /\ code_has_active_swaps (db_swaps d) = Some true.
Proof. exact (upgrade_active_error swap_is_finished_table db_version_current). Qed.
Print Assumptions c29_active_swaps_error_iff.

(* reading of "otherwise": with the stored version already current nothing is replaced and the
   start succeeds whatever the swaps are *)
Theorem c29_same_version_is_noop : forall swaps,
  code_safe_upgrade (mkDb (Some db_version_current) swaps) = (mkDb (Some db_version_current) swaps, UOk).
Proof. exact (upgrade_same_version_noop swap_is_finished_table db_version_current). Qed.
Print Assumptions c29_same_version_is_noop.

Theorem c29_second_start_is_noop : forall d,
  snd (code_safe_upgrade d) = UOk ->
  code_safe_upgrade (fst (code_safe_upgrade d)) = (fst (code_safe_upgrade d), UOk).
Proof. exact (upgrade_idempotent swap_is_finished_table db_version_current). Qed.
Print Assumptions c29_second_start_is_noop.

(* all histories: starts of binaries of ANY version interleaved with arbitrary swap activity, from
   any database — the stored version changes only at a start at which every swap was terminal *)
Theorem c29_all_histories : forall es d,
  Forall (transition_ok swap_is_finished_table) (transitions swap_is_finished_table d es).
Proof. exact (histories_ok swap_is_finished_table). Qed.
Print Assumptions c29_all_histories.
