(* C16 — Every swap eventually terminates when restarts happen from time to time.
   Property theorems only.

   Reading guide.  [settles tc dec t terminal n m] (Model/C16Corr.v) says: from the stored swap
   record m, n "good late rounds" are enough.  One round = RecoverSwaps for the swap in ANY
   environment w1 in which every store write succeeds, every on-chain spend is broadcast, every
   output script is built ([good_world]) and every height the chain service reports is beyond
   every payment window of the swap ([late_world]); all other answers (sends to the silent peer,
   invoices, payments, fee estimates, ...) are arbitrary, and the peer sends nothing; if that
   registered a CSV watch and the swap is still active, the CSV callback follows (the chain is
   beyond the CSV), again in any good environment.  After the round the swap either is in a
   terminal state AND was removed from the active set (its channel is free), or the next round
   starts from the record the store holds then. *)
From Coq Require Import String ZArith Bool List.
From PS Require Import Model.Data Model.Actions Model.Fsm Model.History Model.FsmCorr Model.C16Corr
  Gen.ConstsSwap Gen.Tables Proofs.C16.
Import ListNotations.
Open Scope Z_scope.

(* The full statement: every stored record of every role whose data has the shape its state
   implies ([c16_need]: e.g. the opening-tx message is present once the state says it was sent)
   settles within two rounds. *)
Definition C16_full : Prop :=
  forall dec t m sd,
    In t swap_tables_c16 -> lookup_state t (m_cur m) = Some sd ->
    holds tl_consts_gen (c16_need (m_cur m)) (m_data m) = true ->
    settles tl_consts_gen dec t terminal_states c16_rounds m.

(* It is FALSE of the code: coq/Findings/F_C16_2.v (a record written by the very first store
   write of a swap, state "", is never finished).  What holds: every state except that one. *)
Theorem c16_terminates_except_known : forall dec t m sd,
  In t swap_tables_c16 -> lookup_state t (m_cur m) = Some sd -> m_cur m <> ""%string ->
  holds tl_consts_gen (c16_need (m_cur m)) (m_data m) = true ->
  settles tl_consts_gen dec t terminal_states c16_rounds m.
Proof. exact c16_except_known. Qed.
Print Assumptions c16_terminates_except_known.

(* The reflective check behind it is sound for EVERY state table, every timelock constants,
   every invoice decoder, every fact assignment [need] and every number of rounds: if the
   abstract good-late-round semantics finds that all states outside [except] settle within S n
   rounds, the concrete engine does. *)
Theorem c16_check_sound : forall tc dec t terminal need n except,
  c16_table_ok t terminal need (S n) except = true ->
  forall m sd, lookup_state t (m_cur m) = Some sd -> ~ In (m_cur m) except ->
  holds tc (need (m_cur m)) (m_data m) = true ->
  settles tc dec t terminal (S n) m.
Proof. exact c16_table_sound. Qed.
Print Assumptions c16_check_sound.

(* the generated tables pass the check with two rounds, the initial state excepted *)
Theorem c16_generated_tables_checked :
  c16_table_ok table_swap_out_sender terminal_states c16_need c16_rounds [""%string] = true /\
  c16_table_ok table_swap_out_receiver terminal_states c16_need c16_rounds [""%string] = true /\
  c16_table_ok table_swap_in_sender terminal_states c16_need c16_rounds [""%string] = true /\
  c16_table_ok table_swap_in_receiver terminal_states c16_need c16_rounds [""%string] = true.
Proof. exact gen_tables_ok. Qed.
Print Assumptions c16_generated_tables_checked.

(* shape of a counterexample: a good late round that neither removes the swap nor changes its
   record can be repeated for ever (used by coq/Findings/F_C16_*.v) *)
Theorem c16_unchanged_round_never_settles : forall tc dec t terminal m,
  (exists w1, good_world c16_budget w1 = true /\ late_world tc (m_data m) w1 = true /\
     let '(o1, _, es1) := run_step tc dec t terminal m InRecover w1 in
     o_removed o1 = false /\ existsb is_watch_csv es1 = false /\ next_record m (o_machine o1) es1 = m) ->
  forall n, ~ settles tc dec t terminal n m.
Proof. exact settles_stuck. Qed.
Print Assumptions c16_unchanged_round_never_settles.

(* non-vacuity: a maker whose peer went silent after the announcement is refunded by CSV in one round *)
Theorem c16_example_round :
  good_world c16_budget (ex_world 30000) = true /\ late_world tl_consts_gen ex_data (ex_world 30000) = true /\
  holds tl_consts_gen (c16_need (m_cur ex_machine)) (m_data ex_machine) = true.
Proof. exact ex_world_good. Qed.
Print Assumptions c16_example_round.
