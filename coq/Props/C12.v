(* C12 — Neither side pays more than it agreed to.  Property theorems only. *)
From Coq Require Import String ZArith Bool List.
From PS Require Import Base.Wrap Model.Data Model.Actions Model.Fsm Model.History Model.FsmCorr Model.TableChecks
  Model.C01Corr Model.C12Corr Gen.ConstsSwap Gen.Tables Proofs.C12.
Import ListNotations.
Open Scope Z_scope.

(* inside the range CheckPremiumAmount accepts (after the fix for D13) no amount wraps: the claim
   amount, its msat value and amount*1000 are the integer values *)
Theorem c12_in_range_exact : forall amount premium,
  0 <= amount < 18446744073709551616 -> -9223372036854775808 <= premium < 9223372036854775808 ->
  premium_in_range amount premium = true ->
  0 <= amount + premium <= 18446744073709551 /\
  u64 (amount + premium) = amount + premium /\
  u64_mul (u64 (amount + premium)) 1000 = (amount + premium) * 1000 /\
  u64_mul amount 1000 = amount * 1000.
Proof. exact in_range_exact. Qed.
Print Assumptions c12_in_range_exact.

(* CheckPremiumAmount lets the wrapped action (PayFeeInvoiceAction of the swap-out initiator,
   CreateAndBroadcastOpeningTransaction of the swap-in initiator) run - or anything at all
   happen - only when the premium is within the limit and amount+premium in range *)
Theorem c12_check_premium_guards : forall tc dec fuel ch d w r w' es,
  exec tc dec (S fuel) (ANode "CheckPremiumAmount" ch) d w = (r, w', es) ->
  check_premium d = Some true \/ (es = [] /\ snd r = d /\ (fst r = Ev_Failed \/ fst r = Ev_Panic)).
Proof. exact check_premium_guards. Qed.
Print Assumptions c12_check_premium_guards.

Theorem c12_check_premium_out : forall d r a,
  d_in_agr d = None -> d_out_agr d = Some a -> d_out_req d = Some r -> check_premium d = Some true ->
  oa_premium a <= rq_limit r /\ premium_in_range (rq_amount r) (oa_premium a) = true.
Proof. exact check_premium_out. Qed.
Print Assumptions c12_check_premium_out.

Theorem c12_check_premium_in : forall d r a,
  d_in_agr d = Some a -> d_in_req d = Some r -> check_premium d = Some true ->
  ia_premium a <= rq_limit r /\ premium_in_range (rq_amount r) (ia_premium a) = true.
Proof. exact check_premium_in. Qed.
Print Assumptions c12_check_premium_in.

(* (ii) ALL histories (C01's quantifiers): the claim invoice a swap-out initiator pays asks for
   exactly (amount + premium)*1000 msat as integers, premium <= limit, hence at most
   (amount+limit)*1000.  PARTIAL: that the durable record passed CheckPremiumAmount is a premise
   (see Proofs/C12.v) *)
Theorem c12_claim_invoice_exact_partial : forall dec t terminal m0 its,
  (forall p h m c, dec p = Some (h, m, c) -> h <> EmptyString) ->
  c01_table_ok t = true -> m_cur m0 = EmptyString ->
  hist_ok tl_consts_gen dec t terminal (init_hstate m0) its = true ->
  forall pre post payreq scid mx tip res,
    hs_trace (run_hist tl_consts_gen dec t terminal (init_hstate m0) its) = (pre ++ EPayClaim payreq scid mx tip res :: post)%list ->
    let lp := lp_end (m_data m0) pre in
    forall r a,
    d_in_req lp = None -> d_in_agr lp = None -> d_out_req lp = Some r -> d_out_agr lp = Some a ->
    0 <= rq_amount r < 18446744073709551616 -> -9223372036854775808 <= oa_premium a < 9223372036854775808 ->
    check_premium lp = Some true ->
    exists h ms cl, dec payreq = Some (h, ms, cl) /\
      ms = (rq_amount r + oa_premium a) * 1000 /\ 0 <= rq_amount r + oa_premium a /\
      oa_premium a <= rq_limit r /\ ms <= (rq_amount r + rq_limit r) * 1000.
Proof. exact claim_invoice_exact_partial. Qed.
Print Assumptions c12_claim_invoice_exact_partial.

(* the swap-in responder pays an invoice of exactly the requested amount (all histories) *)
Theorem c12_responder_claim_exact : forall dec t terminal m0 its,
  (forall p h m c, dec p = Some (h, m, c) -> h <> EmptyString) ->
  c01_table_ok t = true -> m_cur m0 = EmptyString ->
  hist_ok tl_consts_gen dec t terminal (init_hstate m0) its = true ->
  forall pre post payreq scid mx tip res,
    hs_trace (run_hist tl_consts_gen dec t terminal (init_hstate m0) its) = (pre ++ EPayClaim payreq scid mx tip res :: post)%list ->
    let lp := lp_end (m_data m0) pre in
    forall r, d_in_req lp = Some r -> 0 <= rq_amount r <= 18446744073709551 ->
    exists h ms cl, dec payreq = Some (h, ms, cl) /\ ms = rq_amount r * 1000.
Proof. exact responder_claim_exact. Qed.
Print Assumptions c12_responder_claim_exact.

(* (iv) the swap-in responder's agreement carries exactly the premium its configured rate yields
   (w_premium = premium.Setting.Compute for this peer / asset / direction / amount; C27) *)
Theorem c12_responder_premium : forall tc d w ev d' w' es,
  act_swap_in_receiver_init tc d w = ((ev, d'), w', es) -> ev = Ev_Succeeded ->
  exists a, d_in_agr d' = Some a /\ w_premium w = Some (ia_premium a) /\ d_next_msg d' = Some (MInAgr a).
Proof. exact receiver_init_premium. Qed.
Print Assumptions c12_responder_premium.
