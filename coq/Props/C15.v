(* C15 — Restarts never duplicate an opening transaction, payment or refund.
   Property theorems only.  Vocabulary (Model/C15Corr.v); all guards are relative to the LAST DURABLE record
   (what RecoverSwaps would load) at the moment of the effect:
     c15_broadcast_guard   CreateOpeningTransaction only while the record has no OpeningTxBroadcasted;
                           a claim / refund broadcast only while the record has no ClaimTxId
     c15_resend_guard      every message sent (except cancel) is the record's NextMessage, sent to the record's peer
     c15_invoice_guard     every RebalancePayment / RecoverClaimPayment is for the payreq of the record's OpeningTxBroadcasted
     c15_cancel_guard Zc   no PayInvoiceViaChannel / RebalancePayment while the record's state is in Zc
                           (and every store write stores the state name the machine is in)
     opening_recorded tr   every successful opening broadcast in tr is immediately followed by a durable store write
                           with OpeningTxBroadcasted set (or by nothing) *)
From Coq Require Import String ZArith Bool List.
From PS Require Import Model.Data Model.Actions Model.Fsm Model.History Model.FsmCorr Model.CrashCorr Model.C15Corr
  Gen.ConstsSwap Gen.Tables Proofs.Engine Proofs.C15 Proofs.C15Witness.
Import ListNotations.
Open Scope Z_scope.

(* For EVERY state table, timelock constants, invoice decoder, initial swap and history (any inputs in any order,
   any environment answers, the process dying after any effect followed by restarts from the last durable record):
   the idempotence guards hold of every effect.  In particular what a restart sends again is the stored message. *)
Theorem c15_guards_all_histories : forall tc dec t terminal m0 its,
  let tr := hs_trace (run_hist tc dec t terminal (init_hstate m0) its) in
  trace_okb c15_broadcast_guard (m_data m0) tr = true /\
  trace_okb c15_resend_guard (m_data m0) tr = true /\
  trace_okb c15_invoice_guard (m_data m0) tr = true.
Proof. exact hist_guards_bool. Qed.
Print Assumptions c15_guards_all_histories.

(* once a durable record has OpeningTxBroadcasted, every record written later has it too (it is never lost, whatever
   crashes and failing store writes happen) *)
Theorem c15_opening_record_never_lost : forall tc dec t terminal m0 its,
  dur_mono (has_otb (m_data m0)) (hs_trace (run_hist tc dec t terminal (init_hstate m0) its)) = true.
Proof. exact hist_otb. Qed.
Print Assumptions c15_opening_record_never_lost.

(* PARTIAL: at most one opening transaction per swap in every history in which no successful wallet broadcast is
   separated from the store write that records it (process death / error between the two).  Missing part: that such
   an unrecorded broadcast is never followed by a second one - on the real code the restart then cancels
   (swap-out receiver, FailOnrecover) or waits (swap-in sender); this is observed by the monitor on the
   crash-at-every-effect scenarios (see Proofs/C15Witness.v) but not proved. *)
Theorem c15_single_opening_partial : forall tc dec t terminal m0 its,
  let tr := hs_trace (run_hist tc dec t terminal (init_hstate m0) its) in
  opening_recorded tr = true -> (count opening_ok tr <= 1)%nat.
Proof. exact hist_single_opening. Qed.
Print Assumptions c15_single_opening_partial.

(* soundness of the cancel-zone check for ARBITRARY tables: if Zc is closed under every event and its states run only
   SendCancelAction / CancelAction, then in every history of a machine whose data names its state, no invoice is paid
   while the durable record is in Zc *)
Theorem c15_no_pay_after_cancel_any_table : forall tc dec t terminal Zc,
  cancel_zone_ok t Zc = true -> forall m0 its, d_fsm_state (m_data m0) = m_cur m0 ->
  trace_ok (fun lp e => c15_cancel_guard Zc lp e = true) (m_data m0)
    (hs_trace (run_hist tc dec t terminal (init_hstate m0) its)).
Proof. exact hist_cancel. Qed.
Print Assumptions c15_no_pay_after_cancel_any_table.

(* ... decided for the four tables generated from the code on this run, Zc = {SendCancel, SwapCanceled} *)
Theorem c15_no_pay_after_cancel : forall t, In t all_tables -> forall tc dec terminal id ty role peer ini key its,
  trace_okb (c15_cancel_guard cancel_states) (m_data (fresh_machine id ty role peer ini key))
    (hs_trace (run_hist tc dec t terminal (init_hstate (fresh_machine id ty role peer ini key)) its)) = true.
Proof. exact no_pay_after_cancel_generated. Qed.
Print Assumptions c15_no_pay_after_cancel.
