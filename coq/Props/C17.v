(* C17 — Negotiation waits are bounded by timeouts, also after restarts.
   Property theorems only.

   [cancelled terminal m m' res es] (Model/C17Corr.v): the entry point returned "done" without error, m' is
   in a finished state, the effects es contain a cancel message to the swap's peer, the last
   durable record is m', and es consists of store writes and that cancel message only. *)
From Coq Require Import String ZArith Bool List.
From PS Require Import Model.Data Model.Actions Model.Fsm Model.History Model.FsmCorr Model.C17Corr
  Gen.ConstsSwap Gen.Tables Proofs.C17.
Import ListNotations.
Open Scope Z_scope.

(* the three negotiation waits of the property, in the tables of the code: Model/C17Corr.v
   c17_wait_tables = [(table_swap_out_sender, "State_SwapOutSender_AwaitAgreement");
                      (table_swap_in_sender, "State_SwapInSender_AwaitAgreement");
                      (table_swap_out_receiver, "State_SwapOutReceiver_AwaitFeeInvoicePayment")] *)

(* The full statement.  For each of the three waits (requester without agreement, swap-out or
   swap-in; swap-out responder whose fee invoice is not paid), any swap data and any environment
   in which store writes succeed:
   (a) when the 10-minute timer fires the swap is cancelled, leaves the active set, and the peer
       is sent a cancel message;
   (b) the same happens when the node is restarted in that wait (the timer itself is lost);
   (c) the actions that begin the waits arm the timer, and the fee invoice expires after 600 s. *)
Definition C17_full : Prop :=
  (forall t s, In (t, s) c17_wait_tables ->
     forall dec m w o w' es, m_cur m = s -> stores_ok w = true ->
       (step tl_consts_gen dec t terminal_states m InTimeout w = (o, w', es) \/
        step tl_consts_gen dec t terminal_states m InRecover w = (o, w', es)) ->
       o_removed o = true /\ cancelled terminal_states m (o_machine o) (o_result o) es) /\
  (forall d w d' w' es, act_create_swap_request tl_consts_gen d w = ((Ev_Succeeded, d'), w', es) -> In EArmTimer es) /\
  (forall d w d' w' es, act_create_swap_out_from_request tl_consts_gen d w = ((Ev_Succeeded, d'), w', es) ->
     In EArmTimer es /\ exists msat pre, In (EMkInvoice PKFee msat pre c17_timeout_s 0) es) /\
  c17_timeout_s = 10 * 60.

Theorem c17_negotiation_waits_bounded : C17_full.
Proof. exact c17_full_holds. Qed.
Print Assumptions c17_negotiation_waits_bounded.

(* the reflective check behind (a) and (b) is sound for EVERY table, timelock constants and decoder *)
Theorem c17_timeout_cancels_any_table : forall tc dec t terminal m w o w' es,
  c17_wait_ok t terminal (m_cur m) = true -> stores_ok w = true ->
  step tc dec t terminal m InTimeout w = (o, w', es) ->
  o_removed o = true /\ cancelled terminal m (o_machine o) (o_result o) es.
Proof. exact timeout_cancels. Qed.
Print Assumptions c17_timeout_cancels_any_table.

Theorem c17_restart_cancels_any_table : forall tc dec t terminal m w o w' es,
  c17_wait_ok t terminal (m_cur m) = true -> is_finished terminal (m_cur m) = false -> stores_ok w = true ->
  step tc dec t terminal m InRecover w = (o, w', es) ->
  o_removed o = true /\ cancelled terminal m (o_machine o) (o_result o) es.
Proof. exact restart_cancels. Qed.
Print Assumptions c17_restart_cancels_any_table.

(* over whole histories, with crashes and restarts at any point: whenever the stored swap is in
   one of the three waits, the next timer callback (if the timer is armed in this process) or the
   next restart cancels it and tells the peer *)
Theorem c17_all_histories : forall t s, In (t, s) c17_wait_tables ->
  forall dec m0 its i w,
    let h := run_hist tl_consts_gen dec t terminal_states (init_hstate m0) its in
    (i = InTimeout \/ i = InRecover) -> stores_ok w = true ->
    forall m, (if is_recover i then match hs_machine h with Some mh => restore mh (hs_trace h) | None => None end
               else hs_machine h) = Some m -> m_cur m = s ->
    let h' := hist_step tl_consts_gen dec t terminal_states h (HStep i w) in
    exists m' es, hs_machine h' = Some m' /\ hs_trace h' = (hs_trace h ++ es)%list /\
                  is_finished terminal_states (m_cur m') = true /\
                  existsb (is_cancel_to (d_peer (m_data m))) es = true.
Proof. exact c17_hist. Qed.
Print Assumptions c17_all_histories.
