(* C24 — Swap payments are a single HTLC over the swap channel to the swap peer.
   Property theorems only; each is closed by [exact lemma].
   cln_pay / lnd_pay model ClightningClient / lnd Client payInvoiceViaChannel (fee invoices: limit 0,
   claim invoices: limit = the swap's maximum total CLTV delta) up to the one sendpay / SendPaymentV2 call. *)
From Coq Require Import String Ascii ZArith Bool List.
From PS Require Import Base.Strs Model.PayRoute Model.C24Corr Gen.ConstsC24 Proofs.C24.
Import ListNotations.
Open Scope Z_scope.

(* CLN: whenever a sendpay is issued it carries exactly one hop: to the invoice's payee, over the swap
   channel (written with 'x'), for the invoice's exact amount; sendpay's amount is the invoice amount,
   for every decode answer, payreq, channel id string and limit. *)
Theorem c24_cln_single_hop_exact_amount : forall dec payreq scid limit sp,
  cln_pay dec payreq scid limit = Some sp ->
  exists inv delay, dec = Some inv /\ 0 <= delay < 2^32 /\
    sp_route sp = [mk_cln_hop (ci_payee inv) (cln_style scid) (ci_msat inv) delay 0] /\
    sp_msat sp = ci_msat inv /\ sp_hash sp = ci_hash inv /\ sp_bolt11 sp = payreq.
Proof. exact cln_pay_spec. Qed.
Print Assumptions c24_cln_single_hop_exact_amount.

(* CLN: the payment does not depend on the spelling of the channel id, and the hop never names a ':' id *)
Theorem c24_cln_both_spellings : forall dec payreq s limit,
  cln_pay dec payreq (lnd_style s) limit = cln_pay dec payreq s limit /\
  cln_pay dec payreq (cln_style s) limit = cln_pay dec payreq s limit.
Proof. exact cln_pay_spelling. Qed.
Print Assumptions c24_cln_both_spellings.

Theorem c24_cln_channel_written_with_x : forall s, has_byte ":"%char (cln_style s) = false.
Proof. exact cln_style_no_colon. Qed.
Print Assumptions c24_cln_channel_written_with_x.

(* CLN, claim payments (limit <> 0): no integer wrap; delay = invoice final delta + 1 <= limit *)
Theorem c24_cln_cltv_limited : forall inv scid limit r,
  limit <> 0 -> -2^63 <= ci_min_final inv < 2^63 ->
  cln_route inv scid limit = Some r ->
  0 <= ci_min_final inv /\ ci_min_final inv + 1 <= limit /\
  r = [mk_cln_hop (ci_payee inv) (cln_style scid) (ci_msat inv) (ci_min_final inv + 1) 0].
Proof. exact cln_route_cltv_limited. Qed.
Print Assumptions c24_cln_cltv_limited.

(* CLN, fee payments (no limit) *)
Theorem c24_cln_cltv_legacy : forall inv scid r,
  0 <= ci_min_final inv + 1 < 2^32 ->
  cln_route inv scid 0 = Some r ->
  r = [mk_cln_hop (ci_payee inv) (cln_style scid) (ci_msat inv) (ci_min_final inv + 1) 0].
Proof. exact cln_route_cltv_legacy. Qed.
Print Assumptions c24_cln_cltv_legacy.

(* LND: whenever SendPaymentV2 is called, the request pays the given invoice (no amount override, no
   destination override => the invoice's exact amount), in one part, restricted to exactly one outgoing
   channel: the first listed channel whose id is written [scid] in either spelling, and the invoice's
   destination is that channel's peer. *)
Theorem c24_lnd_single_htlc_to_channel_peer : forall pad dec chans payreq scid limit q,
  lnd_pay pad dec chans payreq scid limit = Some q ->
  exists inv cs c, dec = Some inv /\ chans = Some cs /\
    find_chan scid cs = Some c /\ In c cs /\
    (scid = scid_lnd (lc_id c) \/ scid = scid_cln (lc_id c)) /\
    li_dest inv = lc_remote c /\ rq_payreq q = payreq /\ rq_chans q = [lc_id c] /\
    rq_max_parts q = 1 /\ rq_amt q = 0 /\ rq_amt_msat q = 0 /\ rq_dest_len q = 0.
Proof. exact lnd_pay_spec. Qed.
Print Assumptions c24_lnd_single_htlc_to_channel_peer.

(* find_chan is "the first listed channel whose id spells scid" *)
Theorem c24_lnd_channel_choice : forall scid cs c,
  find_chan scid cs = Some c ->
  exists pre post, cs = pre ++ c :: post /\ chan_matches scid c = true /\
    forall c', In c' pre -> chan_matches scid c' = false.
Proof. exact find_chan_spec. Qed.
Print Assumptions c24_lnd_channel_choice.

(* LND: refusal when the invoice's destination is not the swap channel's peer, or no channel has that id *)
Theorem c24_lnd_refuses_other_destination : forall pad inv cs c payreq scid limit,
  find_chan scid cs = Some c -> li_dest inv <> lc_remote c ->
  lnd_pay pad (Some inv) (Some cs) payreq scid limit = None.
Proof. exact lnd_pay_refuses. Qed.
Print Assumptions c24_lnd_refuses_other_destination.

Theorem c24_lnd_refuses_unknown_channel : forall pad dec cs payreq scid limit,
  find_chan scid cs = None -> lnd_pay pad dec (Some cs) payreq scid limit = None.
Proof. exact lnd_pay_no_channel. Qed.
Print Assumptions c24_lnd_refuses_unknown_channel.

(* LND: both spellings of a channel id select the same channel and give the same request *)
Theorem c24_lnd_both_spellings : forall pad dec chans payreq id limit,
  lnd_pay pad dec chans payreq (scid_lnd id) limit = lnd_pay pad dec chans payreq (scid_cln id) limit.
Proof. exact lnd_pay_spelling. Qed.
Print Assumptions c24_lnd_both_spellings.

(* the two spellings are the lightning.Scid conversions of each other *)
Theorem c24_scid_styles : forall id,
  cln_style (scid_lnd id) = scid_cln id /\ lnd_style (scid_cln id) = scid_lnd id.
Proof. exact (fun id => conj (cln_style_scid_lnd id) (lnd_style_scid_cln id)). Qed.
Print Assumptions c24_scid_styles.

(* LND, claim payments (limit <> 0): no wrap; invoice delta + BlockPadding <= limit; cltv_limit = limit + 1 *)
Theorem c24_lnd_cltv_limited : forall payreq inv c limit q,
  limit <> 0 -> 0 <= limit < 2^32 -> -2^63 <= li_cltv inv < 2^63 ->
  lnd_build lnd_block_padding payreq inv c limit = Some q ->
  0 <= li_cltv inv /\ li_cltv inv + 3 <= limit /\ limit < 2^31 - 1 /\ rq_cltv_limit q = limit + 1.
Proof. exact lnd_build_cltv_limited_gen. Qed.
Print Assumptions c24_lnd_cltv_limited.

(* LND, fee payments (no limit) *)
Theorem c24_lnd_cltv_legacy : forall payreq inv c q,
  -2^31 <= li_cltv inv + 3 + 1 < 2^31 ->
  lnd_build lnd_block_padding payreq inv c 0 = Some q ->
  rq_cltv_limit q = li_cltv inv + 3 + 1.
Proof. exact lnd_build_cltv_legacy_gen. Qed.
Print Assumptions c24_lnd_cltv_legacy.

(* what the monitor checks on observed requests / routes is implied by the model's results *)
Theorem c24_monitor_complete_lnd : forall pad inv cs payreq scid limit q,
  lnd_pay pad (Some inv) (Some cs) payreq scid limit = Some q ->
  mon_lnd_req (li_dest inv) payreq scid cs q = true.
Proof. exact lnd_pay_monitor. Qed.
Print Assumptions c24_monitor_complete_lnd.

Theorem c24_monitor_complete_cln : forall inv scid limit r,
  cln_route inv scid limit = Some r -> mon_cln_route (ci_payee inv) (ci_msat inv) scid r = true.
Proof. exact cln_route_monitor. Qed.
Print Assumptions c24_monitor_complete_cln.
