(* C10 — At most one active swap per channel. *)
From Coq Require Import String ZArith Bool List.
From PS Require Import Model.Data Model.Actions Model.Fsm Model.History Model.Service Model.C10ScidRes Proofs.C09 Proofs.C10 Proofs.C10ScidRes.
Import ListNotations.
Open Scope Z_scope.

(* Sequential semantics (every service entry point runs to completion before the next one starts):
   for every sequence of peer messages (incl. requests, from anyone, with any ids) and RPC
   initiations, every environment and every set of state tables, two different active swaps that
   have a channel attached are never on the same channel - whichever separator ('x' or ':') the
   channel ids are written with. *)
Theorem c10_one_swap_per_channel_all_histories :
  forall tc decode t_os t_or t_is t_ir terminal st its,
  chan_inv (fold_left (svc_apply tc decode t_os t_or t_is t_ir terminal) its (mkNode [] st)).
Proof. exact chan_inv_all_histories. Qed.
Print Assumptions c10_one_swap_per_channel_all_histories.

(* lockSwap refuses exactly when an active swap is on that channel in either spelling *)
Theorem c10_lock_refuses_iff_busy : forall n id scid m,
  lock_swap n id scid m = None <-> exists p, In p (n_active n) /\ chan_of (snd p) = norm_scid scid.
Proof. exact lock_refuses_busy_channel. Qed.
Print Assumptions c10_lock_refuses_iff_busy.

Theorem c10_spellings_name_one_channel : norm_scid "539268:845:1" = norm_scid "539268x845x1".
Proof. exact norm_scid_spellings. Qed.
Print Assumptions c10_spellings_name_one_channel.

(* Adapter side (the look-up of the lnd / clightning adapters, Model/C10ScidRes.v, tied to the real adapters by
   `psh scidres`): whatever spelling of the channel of an active swap the adapters resolve to that channel, lockSwap
   refuses it - so a request cannot pass the channel look-up and slip past the one-swap-per-channel guard. *)
Theorem c10_resolved_spelling_of_busy_channel_refused : forall n id scid m p,
  In p (n_active n) -> adapter_resolves scid (chan_of (snd p)) = true -> lock_swap n id scid m = None.
Proof. exact resolved_busy_channel_refused. Qed.
Print Assumptions c10_resolved_spelling_of_busy_channel_refused.

Theorem c10_resolved_spellings_collide : forall id1 id2 ch,
  adapter_resolves id1 ch = true -> adapter_resolves id2 ch = true -> norm_scid id1 = norm_scid id2.
Proof. exact resolved_same_channel. Qed.
Print Assumptions c10_resolved_spellings_collide.

(* a request for a busy channel creates nothing and is answered with cancel *)
Theorem c10_busy_channel_request_cancelled :
  forall tc decode t_os t_or t_is t_ir terminal n sender m sw n' es res r,
  (m = MInReq r \/ m = MOutReq r) ->
  (exists p, In p (n_active n) /\ chan_of (snd p) = norm_scid (rq_scid r)) ->
  on_message tc decode t_os t_or t_is t_ir terminal n sender m sw = (n', es, res) ->
  n' = n /\ (es = [cancel_to sender (rq_id r)] \/ (es = [] /\ sw_premium sw = None)).
Proof. exact busy_channel_request_cancelled. Qed.
Print Assumptions c10_busy_channel_request_cancelled.

(* FULL statement over ALL interleavings: between lockSwap and the SendEvent that attaches the
   request the new swap has no channel yet, so a concurrent lockSwap for the same channel passes.
   This is FALSE of the code (Findings/F_C10_1.v; known finding c10:concurrent-lock-before-request-attached). *)
Definition C10_interleaved_full : Prop :=
  forall n id1 id2 scid m1 m2 n1 n2,
    chan_inv n -> id1 <> id2 ->
    lock_swap n id1 scid m1 = Some n1 ->          (* first caller locks, its request is not attached yet *)
    lock_swap n1 id2 scid m2 = Some n2 -> False.  (* a second caller must be refused *)
