(* C30 — Fee rates respect the node's floor and version gates are ordered.
   Property theorems only; each is closed by [exact lemma]. *)
From Coq Require Import String ZArith Bool List.
From PS Require Import Base.Strs Model.FeeFloor Model.VersionCmp Gen.ConstsOnchainFee
  Model.C30Corr Proofs.C30.
Open Scope Z_scope.

(* The floor the code derives from a Bitcoin Core version string is 25 sat/kW
   exactly for versions >= 29.2 and 253 otherwise (constants regenerated from the code). *)
Theorem c30_floor_gate : forall s,
  fst (code_fee_floor s) = 25 <->
  exists major minor patch, normalize_version s = Some (major, minor, patch) /\
     (29 < major \/ (major = 29 /\ 2 <= minor)).
Proof. exact floor_modern_iff. Qed.
Print Assumptions c30_floor_gate.

Theorem c30_floor_values : forall s,
  fst (code_fee_floor s) = 25 \/ fst (code_fee_floor s) = 253.
Proof. exact floor_two_values. Qed.
Print Assumptions c30_floor_values.

(* The rate used is never below the floor, for every estimator answer/error. *)
Theorem c30_rate_never_below_floor : forall est_err est fallback floor,
  floor <= effective_rate est_err est fallback floor.
Proof. exact effective_rate_ge_floor. Qed.
Print Assumptions c30_rate_never_below_floor.

(* Estimation failure or a zero estimate falls back to the configured rate. *)
Theorem c30_rate_fallback : forall est fallback floor,
  effective_rate true est fallback floor = Z.max floor fallback /\
  effective_rate false 0 fallback floor = Z.max floor fallback.
Proof. exact effective_rate_fallback. Qed.
Print Assumptions c30_rate_fallback.

Theorem c30_rate_estimate : forall est fallback floor,
  est <> 0 -> effective_rate false est fallback floor = Z.max floor est.
Proof. exact effective_rate_estimate. Qed.
Print Assumptions c30_rate_estimate.

(* the fee is computed from that rate (float arithmetic as in the code) *)
Theorem c30_fee_from_rate : forall e est fb fl sz,
  get_fee e est fb fl sz = fee_of_rate (spec_rate e est fb fl) sz.
Proof. exact get_fee_uses_effective_rate. Qed.
Print Assumptions c30_fee_from_rate.

(* CompareVersionStrings = >= on numeric components, missing components zero *)
Theorem c30_version_compare_spec : forall a b,
  compare_versions a b =
  match components a, components b with
  | Some xs, Some ys => Some (spec_ge xs ys)
  | _, _ => None
  end.
Proof. exact compare_versions_spec. Qed.
Print Assumptions c30_version_compare_spec.

Theorem c30_version_refl : forall a xs,
  components a = Some xs -> compare_versions a a = Some true.
Proof. exact version_ge_refl. Qed.
Print Assumptions c30_version_refl.

Theorem c30_version_total : forall a b xs ys,
  components a = Some xs -> components b = Some ys ->
  compare_versions a b = Some true \/ compare_versions b a = Some true.
Proof. exact version_ge_total. Qed.
Print Assumptions c30_version_total.

Theorem c30_version_trans : forall a b c,
  compare_versions a b = Some true -> compare_versions b c = Some true ->
  compare_versions a c = Some true.
Proof. exact version_ge_trans. Qed.
Print Assumptions c30_version_trans.

Theorem c30_version_antisym : forall a b xs ys,
  components a = Some xs -> components b = Some ys ->
  (compare_versions a b = Some true /\ compare_versions b a = Some true <->
   let n := Nat.max (length xs) (length ys) in padz n xs = padz n ys).
Proof. exact version_ge_antisym. Qed.
Print Assumptions c30_version_antisym.
