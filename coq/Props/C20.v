(* C20 — Chain watchers report confirmation and CSV maturity only when true.
   Property theorems only; each is closed by [exact lemma].

   RPC watcher (txwatcher/rpctxwatcher.go, blockchainRpc.go): [observation_step] is one
   iteration of observationLoop on one block notification, [view] the answers the node gives
   during that iteration (ANY answers: stale, inconsistent, errors), all heights uint32 with
   explicit wrap-around; [run_loop] is the loop over ANY sequence of notifications.
   Electrum watcher (electrum/tx_observer.go, block_subscriber.go, lwk/electrumtxwatcher.go):
   [ew_header] is the handling of one header of the subscription, [ew_step]/[ew_run] any
   sequence of headers and registrations. *)
From Coq Require Import ZArith Bool List.
From PS Require Import Model.RpcWatcher Model.ElectrumWatcher Gen.ConstsWatcher Proofs.C20.
Import ListNotations.
Open Scope Z_scope.

(* the depths and CSV values the watchers are started with (regenerated from the code) *)
Theorem c20_constants :
  bitcoin_min_confs = 3 /\ liquid_confs = 2 /\ bitcoin_csv = 1008 /\ liquid_csv = 60.
Proof. exact gen_c20_constants. Qed.
Print Assumptions c20_constants.

(* ---------------- RPC watcher, opening transaction ---------------- *)

(* "confirmed" is reported only for a notification above every earlier one, strictly before
   startingHeight+paymentWindow, for a transaction the node located in a block [first] that is
   not above the notified height and has the required depth below it. *)
Theorem c20_rpc_confirmed_only_when_deep_and_window_open :
  forall req start limit last height v last' raw,
  observation_step req start limit last height v = (last', SCbOk raw) ->
  last < height /\ last' = height /\ height < add32 start limit /\
  exists first, is_tx_in_mempool_or_range v start = LFound raw first /\
                first <= add32 start limit /\ first <= height /\ req <= height - first + 1.
Proof. exact observation_step_ok. Qed.
Print Assumptions c20_rpc_confirmed_only_when_deep_and_window_open.

(* the same window bound without modular arithmetic *)
Theorem c20_rpc_confirmed_window_open :
  forall req start limit last height v last' raw,
  0 <= start -> 0 <= limit ->
  observation_step req start limit last height v = (last', SCbOk raw) ->
  last < height /\ height < start + limit.
Proof. exact observation_step_ok_window. Qed.
Print Assumptions c20_rpc_confirmed_window_open.

(* FULL statement about depth: whenever "confirmed" is reported and gettxout answered with
   [conf] confirmations, conf >= requiredConfs.  It is FALSE of the code when the notified
   height is above the height the node reports during the lookup (Findings/F_C20_2.v); before
   the fix f8d906e it was also false when the notification lagged by >= 2 (Findings/F_C20_1.v). *)
Definition C20_rpc_depth_full : Prop :=
  forall req start limit last height v last' raw ct best conf,
  observation_step req start limit last height v = (last', SCbOk raw) ->
  v_height v = Some ct -> v_txout v = TxoSome best conf -> 0 <= conf < two32 ->
  req <= conf.

(* proved: all inputs except the known pattern "notified height above the node's height" *)
Theorem c20_rpc_confirmed_depth_except_known :
  forall req start limit last height v last' raw ct best conf,
  observation_step req start limit last height v = (last', SCbOk raw) ->
  v_height v = Some ct -> v_txout v = TxoSome best conf -> 0 <= conf < two32 ->
  height <= u32 ct ->
  req <= conf.
Proof. exact observation_step_conf_depth. Qed.
Print Assumptions c20_rpc_confirmed_depth_except_known.

(* the same for both lookup paths (gettxout and the block-range scan for spent outputs): the
   block [first] of the node's own chain view holds the transaction and is >= requiredConfs deep
   under the node's own height; on the gettxout path the snapshot was consistent. *)
Theorem c20_rpc_confirmed_in_node_view_except_known :
  forall req start limit last height v last' raw ct,
  observation_step req start limit last height v = (last', SCbOk raw) ->
  v_height v = Some ct -> height <= u32 ct ->
  exists first,
    (exists bh, hash_at v first = Some bh /\ raw_at v bh = RawStr raw) /\
    first <= u32 ct /\ req <= u32 ct - first + 1 /\
    (forall best conf, v_txout v = TxoSome best conf -> 0 <= conf < two32 ->
       hash_at v (u32 ct) = Some best /\ req <= conf).
Proof. exact observation_step_depth. Qed.
Print Assumptions c20_rpc_confirmed_in_node_view_except_known.

(* once a new height at or past the deadline is notified, the failure is reported, whatever
   the node answers *)
Theorem c20_rpc_failure_once_window_closed :
  forall req start limit last height v,
  0 <= start -> 0 <= limit -> start + limit < two32 ->
  last < height -> start + limit <= height ->
  observation_step req start limit last height v = (height, SCbErr).
Proof. exact observation_step_window_closed_nowrap. Qed.
Print Assumptions c20_rpc_failure_once_window_closed.

(* with uint32 wrap-around of startingHeight+paymentWindow the deadline only moves earlier *)
Theorem c20_rpc_failure_once_window_closed_u32 :
  forall req start limit last height v,
  last < height -> add32 start limit <= height ->
  observation_step req start limit last height v = (height, SCbErr).
Proof. exact observation_step_window_closed. Qed.
Print Assumptions c20_rpc_failure_once_window_closed_u32.

(* a registration is reported at most once: over ANY notification sequence the loop issues at
   most one callback, and it is the last thing it does *)
Theorem c20_rpc_reported_at_most_once :
  forall req start limit steps last,
  (count_cb (run_loop req start limit last steps) <= 1)%nat.
Proof. exact run_loop_once. Qed.
Print Assumptions c20_rpc_reported_at_most_once.

Theorem c20_rpc_report_ends_registration :
  forall req start limit steps last pre o post,
  run_loop req start limit last steps = pre ++ o :: post -> is_cb o = true -> post = [].
Proof. exact run_loop_cb_last. Qed.
Print Assumptions c20_rpc_report_ends_registration.

(* every report of the loop is the report of one step on that step's answers, so the step
   theorems above hold of whole runs *)
Theorem c20_rpc_loop_reports_are_step_reports :
  forall req start limit steps last o,
  In o (run_loop req start limit last steps) -> is_cb o = true ->
  exists l h v l', In (h, v) steps /\ observation_step req start limit l h v = (l', o).
Proof. exact run_loop_from_step. Qed.
Print Assumptions c20_rpc_loop_reports_are_step_reports.

(* ---------------- RPC watcher, CSV ---------------- *)

(* over ANY sequence of gettxout answers and callback results, a CSV report at registration or
   at a block is issued only when gettxout said confirmations >= csv *)
Theorem c20_rpc_csv_only_when_mature :
  forall csv a0 f0 steps,
  Forall2 (csv_just csv) (a0 :: map fst steps) (csv_run csv a0 f0 steps).
Proof. exact csv_run_sound. Qed.
Print Assumptions c20_rpc_csv_only_when_mature.

Theorem c20_rpc_csv_acknowledged_at_most_once :
  forall csv a0 f0 steps, (count_acked (csv_run csv a0 f0 steps) <= 1)%nat.
Proof. exact csv_run_once. Qed.
Print Assumptions c20_rpc_csv_acknowledged_at_most_once.

Theorem c20_rpc_csv_silent_after_acknowledged :
  forall csv a0 f0 steps pre o post,
  csv_run csv a0 f0 steps = pre ++ o :: post -> csv_acked o = true ->
  Forall (fun x => fst x = false) post.
Proof. exact csv_run_acked_last. Qed.
Print Assumptions c20_rpc_csv_silent_after_acknowledged.

(* ---------------- Electrum (LWK) watcher ---------------- *)

(* accepted header heights are positive and strictly increasing *)
Theorem c20_el_accepted_heights_increase :
  forall bh t hdr h bh',
  accept_block_height bh t hdr = Some (h, true, bh') ->
  t = false /\ hdr = Some h /\ bh' = h /\ 0 < h /\ (0 < bh -> bh < h).
Proof. exact accept_changed. Qed.
Print Assumptions c20_el_accepted_heights_increase.

(* "confirmed" for a swap is reported only by an opening observer of that swap, at an accepted
   header height h inside [start, start+window), when the history lists the transaction at a
   height txh with 0 < txh <= h and h - txh + 1 >= confs *)
Theorem c20_el_confirmed_only_when_deep_and_window_open :
  forall confs s hdr answers s' evs swap raw,
  ew_header confs s hdr answers = (s', evs) -> In (EvConfOk swap raw) evs ->
  exists h i start window,
    hdr = Some h /\ 0 < h /\ (0 < ew_height s -> ew_height s < h) /\
    In (i, RegOpen swap start window) (ew_observers s) /\
    start <= h < start + window /\
    exists l txh, ea_hist (nth i answers default_ans) = HistList l /\ get_height l = Some txh /\
                  0 < txh <= h /\ confs <= h - txh + 1 /\
                  ea_raw (nth i answers default_ans) = RawStr raw.
Proof. exact el_header_confirmed_sound. Qed.
Print Assumptions c20_el_confirmed_only_when_deep_and_window_open.

Theorem c20_el_failure_once_window_closed :
  forall confs s hdr answers h i swap start window,
  ew_running s = true ->
  accept_block_height (ew_height s) (ew_terminal s) hdr = Some (h, true, h) ->
  In (i, RegOpen swap start window) (ew_observers s) -> start + window <= h ->
  In (EvConfErr swap) (snd (ew_header confs s hdr answers)).
Proof. exact el_header_failure_when_closed. Qed.
Print Assumptions c20_el_failure_once_window_closed.

Theorem c20_el_csv_only_when_mature :
  forall confs s hdr answers s' evs swap,
  ew_header confs s hdr answers = (s', evs) -> In (EvCsv swap) evs ->
  exists h i csv,
    hdr = Some h /\ 0 < h /\ (0 < ew_height s -> ew_height s < h) /\
    In (i, RegCsv swap csv) (ew_observers s) /\
    exists l txh, ea_hist (nth i answers default_ans) = HistList l /\ get_height l = Some txh /\
                  0 < txh <= h /\ csv <= h - txh + 1.
Proof. exact el_header_csv_sound. Qed.
Print Assumptions c20_el_csv_only_when_mature.

(* per header at most one round runs; in it every registered observer (distinct registration
   indexes) is consulted exactly once *)
Theorem c20_el_each_observer_once_per_header :
  forall confs s hdr answers,
  ew_wf s ->
  let '(s', evs) := ew_header confs s hdr answers in
  ew_wf s' /\
  ((evs = [] /\ ew_observers s' = ew_observers s) \/
   (exists h, hdr = Some h /\ 0 < h /\ (0 < ew_height s -> ew_height s < h) /\ ew_height s' = h /\
              NoDup (map fst (ew_observers s)) /\
              evs = flat_map (obs_events confs h answers) (ew_observers s))).
Proof. exact ew_header_round. Qed.
Print Assumptions c20_el_each_observer_once_per_header.

(* ... and an observer whose report was acknowledged (callback returned nil or
   swap-does-not-exist) is never consulted again, whatever headers and registrations follow *)
Theorem c20_el_acknowledged_report_is_final :
  forall confs s hdr answers h o later,
  ew_wf s -> ew_running s = true ->
  accept_block_height (ew_height s) (ew_terminal s) hdr = Some (h, true, h) ->
  In o (ew_observers s) -> obs_acked confs h answers o = true ->
  ~ In o (ew_observers (ew_run confs (fst (ew_step confs s (EHeader hdr answers))) later)).
Proof. exact el_acked_never_again. Qed.
Print Assumptions c20_el_acknowledged_report_is_final.

(* the invariant holds initially (after the registrations and the first header) and is kept *)
Theorem c20_el_invariant_initial :
  forall confs regs hdr answers, ew_wf (snd (fst (ew_start confs regs hdr answers))).
Proof. exact ew_start_wf. Qed.
Print Assumptions c20_el_invariant_initial.

Theorem c20_el_invariant_kept :
  forall confs s st, ew_wf s -> ew_wf (fst (ew_step confs s st)).
Proof. exact ew_step_wf. Qed.
Print Assumptions c20_el_invariant_kept.

(* ---------------- non-vacuity ---------------- *)

Definition ex_view : view :=
  mkView (Some 102) [(100, 1000); (101, 1001); (102, 1002)] (TxoSome 1002 3) [(1000, RawStr 77)].

(* a confirmed report exists (3 confirmations, notified height = node height) *)
Example c20_ex_confirmed :
  observation_step 3 100 504 0 102 ex_view = (102, SCbOk 77).
Proof. vm_compute. reflexivity. Qed.

(* the lag pattern of the fixed defect now waits instead of reporting *)
Example c20_ex_lag_waits :
  observation_step 3 100 504 0 100
    (mkView (Some 102) [(102, 1002)] (TxoSome 1002 1) [(1002, RawStr 77)]) = (100, SContinue).
Proof. vm_compute. reflexivity. Qed.

Example c20_ex_window_closed :
  observation_step 3 100 4 0 104 ex_view = (104, SCbErr).
Proof. vm_compute. reflexivity. Qed.

Example c20_ex_csv :
  csv_run 60 (TxoSome 1 58) false [(TxoSome 1 59, false); (TxoSome 1 60, true); (TxoSome 1 61, false); (TxoSome 1 62, false)]
  = [(false, true); (false, true); (true, true); (true, false); (false, false)].
Proof. vm_compute. reflexivity. Qed.

Definition ex_ans (h : Z) : eans := mkEans (HistList [HOther 5; HMatch h]) (RawStr 9) CbNil.

Example c20_ex_electrum :
  let '(ok, s, evs) := ew_start 2 [RegOpen 1 100 10; RegCsv 2 3] (Some 101) [ex_ans 101; ex_ans 101] in
  ok = true /\ evs = [] /\
  ew_steps 2 s [EHeader (Some 102) [ex_ans 101; ex_ans 101]; EHeader (Some 103) [ex_ans 101; ex_ans 101];
                EHeader (Some 104) [ex_ans 101; ex_ans 101]]
  = [([EvConfOk 1 9], Some 102); ([EvCsv 2], Some 103); ([], Some 104)].
Proof. vm_compute. repeat split; reflexivity. Qed.
