(* C23 — secrets leave the node only as the taker's per-swap key in coop_close.
   Property theorems only. *)
From Coq Require Import String ZArith Bool List.
From PS Require Import Model.Data Model.Actions Model.Fsm Model.History Model.FsmCorr Model.C23Corr
  Gen.ConstsSwap Gen.Tables Proofs.Engine Proofs.ExecRuleNamed Proofs.C23 Proofs.C23Indep.
Import ListNotations.
Open Scope Z_scope.

(* For all four roles (the state tables generated from the code), EVERY invoice decoder, swap
   id / peer / key and EVERY admissible history (any inputs the environment can produce, any
   answers of the services, crashes after any effect followed by restarts), starting from a swap
   that does not exist yet: every message handed to the messenger goes to the swap's peer and,
   relative to the last DURABLE record lp, is either the bare cancel of this swap, or lp's pending
   message, which is one of lp's own protocol messages as stored (the request, the agreement, the
   opening message) or the coop_close (this swap's id, "", lp's swap private key).
   No other message shape exists; in particular nothing is ever built from the claim preimage,
   the fee preimage or (outside coop_close.privkey) the swap key. *)
Theorem c23_sends_are_own_messages : forall dec t terminal id ty role peer init priv its,
  gen_table t ->
  let m0 := fresh_machine id ty role peer init priv in
  hist_ok tl_consts_gen dec t terminal (init_hstate m0) its = true ->
  trace_okb c23_guard (m_data m0)
    (hs_trace (run_hist tl_consts_gen dec t terminal (init_hstate m0) its)) = true.
Proof. exact hist_c23_gen. Qed.
Print Assumptions c23_sends_are_own_messages.

(* the same for ANY timelock constants and ANY table whose default state has no action and is
   never a transition target *)
Theorem c23_any_table : forall tc dec t terminal m0 its,
  tbl_default_ok t = true -> Inv m0 -> hist_ok tc dec t terminal (init_hstate m0) its = true ->
  trace_okb c23_guard (m_data m0) (hs_trace (run_hist tc dec t terminal (init_hstate m0) its)) = true.
Proof. exact hist_c23_b. Qed.
Print Assumptions c23_any_table.

(* the maker's swap key never leaves: the generated maker tables contain no TakerSendPrivkeyAction
   (reflective check, sound for arbitrary tables), hence no coop_close is ever sent by a maker *)
Theorem c23_maker_tables_checked :
  tbl_no_privkey table_swap_in_sender = true /\ tbl_no_privkey table_swap_out_receiver = true.
Proof. exact maker_tables_no_privkey. Qed.
Print Assumptions c23_maker_tables_checked.

Theorem c23_maker_never_sends_key : forall dec t terminal id ty role peer init priv its,
  t = table_swap_in_sender \/ t = table_swap_out_receiver ->
  let m0 := fresh_machine id ty role peer init priv in
  hist_ok tl_consts_gen dec t terminal (init_hstate m0) its = true ->
  no_coop_sent (hs_trace (run_hist tl_consts_gen dec t terminal (init_hstate m0) its)) = true.
Proof. exact maker_never_sends_key. Qed.
Print Assumptions c23_maker_never_sends_key.

(* message-building sites: only five leaf actions write the pending-message slot *)
Theorem c23_only_builders_write_pending : forall tc dec name f,
  In (name, f) (leaf_actions tc dec) -> builder name = false ->
  forall d w r w' es, f d w = (r, w', es) -> d_next_msg (snd r) = d_next_msg d.
Proof. exact only_builders_write_pending. Qed.
Print Assumptions c23_only_builders_write_pending.

(* information flow at the building sites: two runs that differ only in the swap private key, the
   claim preimage, the fee preimage and the preimages the node draws write the same message *)
Theorem c23_request_independent_of_secrets : forall tc d w x y z g,
  pending_of (act_create_swap_request tc (secrets_set d x y z) (preimages_map g w)) =
  pending_of (act_create_swap_request tc d w).
Proof. exact req_indep. Qed.
Print Assumptions c23_request_independent_of_secrets.

Theorem c23_in_agreement_independent_of_secrets : forall tc d w x y z g,
  pending_of (act_swap_in_receiver_init tc (secrets_set d x y z) (preimages_map g w)) =
  pending_of (act_swap_in_receiver_init tc d w).
Proof. exact in_agr_indep. Qed.
Print Assumptions c23_in_agreement_independent_of_secrets.

Theorem c23_out_agreement_independent_of_secrets : forall tc d w x y z g,
  pending_of (act_create_swap_out_from_request tc (secrets_set d x y z) (preimages_map g w)) =
  pending_of (act_create_swap_out_from_request tc d w).
Proof. exact out_agr_indep. Qed.
Print Assumptions c23_out_agreement_independent_of_secrets.

(* coop_close is exactly (swap id, "", swap private key) *)
Theorem c23_coop_close_site : forall d w,
  pending_of (act_taker_send_privkey d w) = Some (MCoop (mkCoop (sid d) EmptyString (d_privkey d))).
Proof. exact coop_site. Qed.
Print Assumptions c23_coop_close_site.

(* opening_tx_broadcasted: the stored opening message, this swap's id, the record's blinding key
   on Liquid (intended) and "" otherwise; partial: independence of payreq / txid from the drawn
   claim preimage is the environment's (Lightning node / wallet answers are arbitrary here) *)
Theorem c23_opening_message_site_partial : forall tc d w ev d' w' es,
  act_create_and_broadcast_opening tc d w = ((ev, d'), w', es) ->
  d_next_msg d' = d_next_msg d \/
  exists o, d_next_msg d' = Some (MOtb o) /\ d_otb d' = Some o /\ ob_id o = sid d /\
            ob_blinding o = (if String.eqb (get_chain d) lbtc_chain then blinding_of d else EmptyString).
Proof. exact otb_site. Qed.
Print Assumptions c23_opening_message_site_partial.
