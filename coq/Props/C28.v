(* C28 — Peer-sync keeps an accurate, persistent view of peers. *)
From Coq Require Import String ZArith Bool List.
From PS Require Import Gen.ConstsPeerSync Model.PeerSync Model.C28Corr Proofs.C28.
Open Scope Z_scope.

Theorem c28_constants :
  ps_poller_timeout = ps_cleanup_timeout /\ ps_poller_request_interval = ps_request_poll_interval /\
  ps_local_version = ps_protocol_version /\ ps_protocol_version <> 0.
Proof. exact gen_peersync_constants. Qed.
Print Assumptions c28_constants.
