(* C28 — Peer-sync keeps an accurate, persistent view of peers.
   Property theorems only; each is closed by [exact lemma].
   Model: Model/PeerSync.v (store, handler, poller, compatibility; every operation takes the clock
   reading as a parameter, so the theorems hold for all clock readings and all operation sequences). *)
From Coq Require Import String ZArith Bool List.
From PS Require Import Gen.ConstsPeerSync Model.PeerSync Model.C28Corr Proofs.C28.
Import ListNotations.
Open Scope Z_scope.

(* the poller is wired with the service's constants; this node's version is the protocol version *)
Theorem c28_constants :
  ps_poller_timeout = ps_cleanup_timeout /\ ps_poller_request_interval = ps_request_poll_interval /\
  ps_local_version = ps_protocol_version /\ ps_protocol_version <> 0 /\
  0 < ps_cleanup_timeout <= max_i64 /\ 0 < ps_request_poll_interval <= max_i64.
Proof. exact gen_peersync_constants. Qed.
Print Assumptions c28_constants.

(* ---- clause 1: stored capability = most recent poll unless that poll advertises a lower version ---- *)

(* An accepted poll / request poll (payload converts, sender not suspicious, stored record readable):
   the record stored for the sender carries the polled capability, or the previous one when the poll's
   version is lower; it is marked active and observed now; no other record changes. *)
Theorem c28_poll_sets_capability : forall now s from ty sn polled prev,
  is_capability_message ty -> to_capability sn = Some polled ->
  mem from (s_susp s) = false -> find_peer s from = Some prev ->
  let st' := s_store (fst (handle_message now s from ty (Some sn))) in
  st_get from st' =
    Some (peer_to_record (Peer (p_address prev) (Some (spec_capability (p_cap prev) polled))
                               ps_status_active (p_last_poll prev) (Some now))) /\
  (forall k, k <> from -> st_get k st' = st_get k (s_store s)).
Proof. exact handle_message_accepts. Qed.
Print Assumptions c28_poll_sets_capability.

(* every other inbound message leaves the store as it is *)
Theorem c28_rejected_message_changes_nothing : forall now s from ty payload,
  ~ is_capability_message ty \/ payload = None \/
  (exists sn, payload = Some sn /\ to_capability sn = None) \/
  mem from (s_susp s) = true \/ find_peer s from = None ->
  s_store (fst (handle_message now s from ty payload)) = s_store s.
Proof. exact handle_message_rejects. Qed.
Print Assumptions c28_rejected_message_changes_nothing.

(* no other operation changes the capability stored for a peer: after any operation that is not a message
   from k (nor a raw write of k's record) the record of k is the same, or rewritten with the same
   capability / observation time / address, or gone (clause 3 says when). *)
Theorem c28_capability_changes_only_by_poll : forall now s o k r,
  NoDup (keys (s_store s)) -> st_get k (s_store s) = Some r ->
  (forall ty pl, o <> OMsg k ty pl) -> (forall r0, o <> OPutRaw k r0) ->
  let st' := s_store (state_after (step now s o)) in
  st_get k st' = Some r \/ (exists r', st_get k st' = Some r' /\ same_capability r r') \/ st_get k st' = None.
Proof. exact step_capability_frame. Qed.
Print Assumptions c28_capability_changes_only_by_poll.

(* bucket keys are unique in every reachable state (hypothesis of the previous theorem) *)
Theorem c28_reachable_store_keys_unique : forall ops, NoDup (keys (s_store (run init_state ops))).
Proof. exact reachable_nodup. Qed.
Print Assumptions c28_reachable_store_keys_unique.

(* any sequence of accepted polls from one peer: the stored capability is the fold of the rule ... *)
Theorem c28_poll_history : forall k l, all_valid_polls l -> l <> [] ->
  forall s prev, mem k (s_susp s) = false -> find_peer s k = Some prev -> peer_wf prev ->
  exists res last, fold_polls (p_cap prev) (polled_caps l) = Some res /\
    st_get k (s_store (run s (poll_ops k l))) =
      Some (peer_to_record (Peer (p_address prev) (Some res) ps_status_active (p_last_poll prev) (Some last))) /\
    cap_wf res.
Proof. exact poll_history. Qed.
Print Assumptions c28_poll_history.

(* ... and that fold is "the most recent poll among those of the highest version seen": nothing seen has a
   higher version, and every poll after the stored one advertised a strictly lower version. *)
Theorem c28_stored_is_latest_not_lower : forall c cs res,
  fold_polls (Some c) cs = Some res ->
  c_version c <= c_version res /\
  (forall x, In x cs -> c_version x <= c_version res) /\
  ((res = c /\ forall x, In x cs -> c_version x < c_version c) \/
   (exists pre post, cs = pre ++ res :: post /\ forall x, In x post -> c_version x < c_version res)).
Proof. exact fold_polls_from_some. Qed.
Print Assumptions c28_stored_is_latest_not_lower.

(* ---- clause 2: stored peer records reload unchanged ---- *)
(* every record that loads, once saved, loads to the very same peer (and a restart does not touch the bucket) *)
Theorem c28_reload_unchanged : forall r p, to_peer r = Some p -> to_peer (peer_to_record p) = Some p.
Proof. exact reload_fixpoint. Qed.
Print Assumptions c28_reload_unchanged.

(* saving any well-formed in-memory peer and loading it back returns it, except that an all-zero capability
   comes back as "no capability", which no reader distinguishes *)
Theorem c28_save_then_reload : forall p, peer_wf p -> to_peer (peer_to_record p) = Some (norm_peer p).
Proof. exact save_reload. Qed.
Print Assumptions c28_save_then_reload.

Theorem c28_zero_capability_invisible : forall p now timeout,
  is_expired now timeout (norm_peer p) = is_expired now timeout p /\
  should_poll now (norm_peer p) = should_poll now p /\
  capability_is_stale now timeout (norm_peer p) = capability_is_stale now timeout p /\
  is_compatible_with ps_local_version (norm_peer p) = is_compatible_with ps_local_version p.
Proof. exact norm_peer_observers. Qed.
Print Assumptions c28_zero_capability_invisible.

Theorem c28_restart_keeps_store : forall now s, s_store (state_after (step now s OReload)) = s_store s.
Proof. exact step_reload_store. Qed.
Print Assumptions c28_restart_keeps_store.

(* ---- clause 3: expired peers are removed only while disconnected ---- *)
(* in any state, if an operation makes a stored peer disappear, it is the cleanup sweep having found the peer
   not connected and last observed more than the cleanup timeout ago (or the two store API calls
   CleanupExpiredExcept with its own keep set / RemovePeerState) *)
Theorem c28_removed_only_when_expired_and_disconnected : forall now s o k,
  has_key k (s_store s) -> ~ has_key k (s_store (state_after (step now s o))) ->
  (o = OCleanup /\ s_listfail s = false /\ ~ In k (s_conn s) /\
   exists r p t, In (k, r) (s_store s) /\ to_peer r = Some p /\ p_last_seen p = Some t /\
                 ps_cleanup_timeout < now - t) \/
  (exists timeout keep, o = OCleanupDirect timeout keep /\ 0 < timeout /\ ~ In k keep /\
   exists r p t, In (k, r) (s_store s) /\ to_peer r = Some p /\ p_last_seen p = Some t /\ timeout < now - t) \/
  o = ORemove k.
Proof. exact step_removal. Qed.
Print Assumptions c28_removed_only_when_expired_and_disconnected.

(* along every history: a peer present at the start and absent at the end was removed by such a step *)
Theorem c28_removal_in_history : forall ops s k,
  has_key k (s_store s) -> ~ has_key k (s_store (run s ops)) ->
  exists pre now o post, ops = pre ++ (now, o) :: post /\
    has_key k (s_store (run s pre)) /\ removal_cause now (run s pre) o k.
Proof. exact run_removal. Qed.
Print Assumptions c28_removal_in_history.

(* ---- clause 4: request polls to unknown connected peers at most once per request interval unless forced ---- *)
(* a request poll goes to an unknown peer only if it is connected, not suspicious, and the round is forced
   or no request is remembered within the interval; the request time is remembered *)
Theorem c28_unknown_request_conditions : forall now force s k ok,
  In (k, ps_msgtype_request_poll, ok) (snd (poll_peers now force s)) -> ~ has_key k (s_store s) ->
  In k (s_conn s) /\ mem k (s_susp s) = false /\
  (force = true \/ request_allowed ps_poller_request_interval now k (s_req s)) /\
  req_get k (s_req (fst (poll_peers now force s))) = Some now.
Proof. exact poll_peers_unknown. Qed.
Print Assumptions c28_unknown_request_conditions.

(* two consecutive request polls to the same unknown peer, the second in a non-forced round, with no restart
   in between and the peer connected at every poll round in between: at least the request interval apart.
   All states, all intermediate operation sequences, all clock readings (no monotonicity needed). *)
Theorem c28_request_interval : forall s1 now1 o1 mid now2 k,
  unknown_request now1 s1 o1 k ->
  quiet_run k (state_after (step now1 s1 o1)) mid ->
  unknown_request now2 (run (state_after (step now1 s1 o1)) mid) (OPoll false) k ->
  ps_request_poll_interval <= now2 - now1.
Proof. exact request_interval_respected. Qed.
Print Assumptions c28_request_interval.

(* ---- clause 5: compatible only if the stored capability has this node's protocol version ---- *)
Theorem c28_compatible_iff : forall s id,
  has_compatible_peer s id = true <->
  valid_peer_id id = true /\
  exists r p c, st_get id (s_store s) = Some r /\ to_peer r = Some p /\ p_cap p = Some c /\
                c_version c = ps_protocol_version.
Proof. exact has_compatible_peer_iff. Qed.
Print Assumptions c28_compatible_iff.
