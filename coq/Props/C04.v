(* C04 — Liquid claim payments happen only inside the anchored window with bounded CLTV.
   Property theorems only. *)
From Coq Require Import String ZArith Bool List.
From PS Require Import Model.Data Model.Actions Model.Fsm Model.History Model.FsmCorr Model.C04Corr
  Gen.ConstsSwap Gen.Tables Proofs.Engine Proofs.C04.
Import ListNotations.
Open Scope Z_scope.

(* the timelock constants of the code are the numbers the property names *)
Theorem c04_constants :
  policy_lbtc_v7 = Some (mkPolicy 10080 60 29 32 true) /\
  policy_lbtc_v6 = Some (mkPolicy 60 30 29 0 false) /\
  policy_btc_v6 = policy_btc_v7 /\
  protocol_version = 7 /\ legacy_protocol_version = 6 /\
  other_versions_rejected = true /\ unknown_chain_rejected = true.
Proof. exact Proofs.C04.c04_constants. Qed.
Print Assumptions c04_constants.

(* For EVERY state table, invoice decoder, initial swap and history (any inputs in any
   order, any environment answers, crashes after any effect followed by restarts from the
   last durable record): every claim-payment attempt (RebalancePayment call) of a Liquid
   swap is made for a protocol-7 swap whose DURABLE record has the anchor set, with the
   Liquid tip polled just before in [anchor, anchor+60), and with a total route CLTV
   limit of 32. *)
Theorem c04_claim_payments_inside_persisted_window : forall dec t terminal m0 its,
  trace_okb c04_spec_guard (m_data m0)
    (hs_trace (run_hist tl_consts_gen dec t terminal (init_hstate m0) its)) = true.
Proof. exact hist_spec. Qed.
Print Assumptions c04_claim_payments_inside_persisted_window.

(* the same for arbitrary timelock constants: what the code's structure guarantees *)
Theorem c04_guard_any_constants : forall tc dec t terminal m0 its,
  trace_ok (fun lp e => c04_guard tc lp e = true) (m_data m0)
    (hs_trace (run_hist tc dec t terminal (init_hstate m0) its)).
Proof. exact hist_guard. Qed.
Print Assumptions c04_guard_any_constants.

(* legacy (protocol 6) Liquid swaps never create a new claim payment *)
Theorem c04_legacy_never_pays : forall dec t terminal m0 its lp e,
  let tr := hs_trace (run_hist tl_consts_gen dec t terminal (init_hstate m0) its) in
  forall pre post, tr = (pre ++ e :: post)%list -> lp = lp_end (m_data m0) pre ->
  get_chain lp = lbtc_chain -> get_version lp = 6 ->
  forall p s m tip r, e <> EPayClaim p s m tip r.
Proof. exact legacy_never_pays. Qed.
Print Assumptions c04_legacy_never_pays.

(* window arithmetic: the payment resolves before the maker can refund *)
Theorem c04_window_resolves_before_refund :
  forall pol, policy_lbtc_v7 = Some pol ->
  forall anchor tip conf expiry,
    anchor <= tip < anchor + p_window pol ->
    anchor < conf ->
    expiry <= tip + 10021 ->
    p_max_total pol = 32 /\ expiry < conf + p_csv pol.
Proof. exact window_resolves_before_refund. Qed.
Print Assumptions c04_window_resolves_before_refund.
