(* C09 — A swap is affected only by its own counterparty; swap ids cannot be reused. *)
From Coq Require Import String ZArith Bool List.
From PS Require Import Model.Data Model.Actions Model.Fsm Model.History Model.Service Proofs.C09.
Import ListNotations.
Open Scope Z_scope.

(* (a) For every node state, state tables and environment: a non-request message whose swap id
   names no active swap, or whose sender is not that swap's counterparty, changes nothing
   (active map and durable store identical), emits no effect and is answered with an error. *)
Theorem c09_foreign_message_changes_nothing :
  forall tc decode t_os t_or t_is t_ir terminal n sender m sw,
  is_request_msg m = false ->
  (assoc_str (msg_id m) (n_active n) = None \/
   exists mach, assoc_str (msg_id m) (n_active n) = Some mach /\ d_peer (m_data mach) <> sender) ->
  exists err, on_message tc decode t_os t_or t_is t_ir terminal n sender m sw = (n, [], err) /\ err <> SOk.
Proof. exact foreign_message_changes_nothing. Qed.
Print Assumptions c09_foreign_message_changes_nothing.

(* (b) A request that re-uses the id of any swap the node knows (active, finished or stored but
   not yet recovered) is refused with cancel and leaves node and store untouched. *)
Theorem c09_known_id_request_refused :
  forall tc decode t_os t_or t_is t_ir terminal n sender m sw,
  is_request_msg m = true -> id_known n (msg_id m) = true ->
  on_message tc decode t_os t_or t_is t_ir terminal n sender m sw = (n, [cancel_to sender (msg_id m)], SErrRefused).
Proof. exact known_id_request_refused. Qed.
Print Assumptions c09_known_id_request_refused.

(* whatever a step does, the request fields (and so the channel, amounts, version, keys of the
   request) of the swap are the old ones or those of the context handed to this very step *)
Theorem c09_step_keeps_request_fields :
  forall tc decode t terminal m i w o w' es,
  step tc decode t terminal m i w = (o, w', es) ->
  reqs (m_data (o_machine o)) = reqs (m_data m) \/
  (exists c d', input_ctx i = Some c /\ apply_ctx (m_data m) c = Some d' /\
                reqs (m_data (o_machine o)) = reqs d').
Proof. exact step_reqs. Qed.
Print Assumptions c09_step_keeps_request_fields.

(* (c) FULL statement for messages the current state does not accept: nothing changes.
   It is FALSE of the current code (see Findings/F_C09_1.v and the known finding
   c09:rejected-event-context-applied): SendEvent applies and persists the event context
   before it looks whether the state accepts the event. *)
Definition C09_rejected_full : Prop :=
  forall tc decode t m ev ctx w m' res w' es,
  send_event tc decode t m ev ctx w = ((m', res), w', es) ->
  r_err res = ErrRejected -> m_data m' = m_data m.
