(* C09 — A swap is affected only by its own counterparty; swap ids cannot be reused. *)
From Coq Require Import String ZArith Bool List.
From PS Require Import Model.Data Model.Actions Model.Fsm Model.History Model.Service Proofs.C09.
Import ListNotations.
Open Scope Z_scope.

(* (a) For every node state, state tables and environment: a non-request message whose swap id
   names no active swap, or whose sender is not that swap's counterparty, changes nothing
   (active map and durable store identical), emits no effect and is answered with an error. *)
Theorem c09_foreign_message_changes_nothing :
  forall tc decode t_os t_or t_is t_ir terminal n sender m sw,
  is_request_msg m = false ->
  (assoc_str (msg_id m) (n_active n) = None \/
   exists mach, assoc_str (msg_id m) (n_active n) = Some mach /\ d_peer (m_data mach) <> sender) ->
  exists err, on_message tc decode t_os t_or t_is t_ir terminal n sender m sw = (n, [], err) /\ err <> SOk.
Proof. exact foreign_message_changes_nothing. Qed.
Print Assumptions c09_foreign_message_changes_nothing.

(* (b) A request that re-uses the id of any swap the node knows (active, finished or stored but
   not yet recovered) is refused with cancel and leaves node and store untouched. *)
Theorem c09_known_id_request_refused :
  forall tc decode t_os t_or t_is t_ir terminal n sender m sw,
  is_request_msg m = true -> id_known n (msg_id m) = true ->
  on_message tc decode t_os t_or t_is t_ir terminal n sender m sw = (n, [cancel_to sender (msg_id m)], SErrRefused).
Proof. exact known_id_request_refused. Qed.
Print Assumptions c09_known_id_request_refused.

(* whatever a step does, the request fields (and so the channel, amounts, version, keys of the
   request) of the swap are the old ones or those of the context handed to this very step *)
Theorem c09_step_keeps_request_fields :
  forall tc decode t terminal m i w o w' es,
  step tc decode t terminal m i w = (o, w', es) ->
  reqs (m_data (o_machine o)) = reqs (m_data m) \/
  (exists c d', input_ctx i = Some c /\ apply_ctx (m_data m) c = Some d' /\
                reqs (m_data (o_machine o)) = reqs d').
Proof. exact step_reqs. Qed.
Print Assumptions c09_step_keeps_request_fields.

(* (c) A message for an active swap whose current state does not accept the message's event
   changes nothing: active map and store identical, no effect (nothing stored, nothing sent),
   and the handler reports an error. (Before the repair "fix: swap: reject an event the current
   state does not accept before applying its context" this was false: the context was validated,
   applied and persisted before the acceptance check.) *)
Theorem c09_unaccepted_message_changes_nothing :
  forall tc decode t_os t_or t_is t_ir terminal n sender m sw mach,
  is_request_msg m = false ->
  assoc_str (msg_id m) (n_active n) = Some mach ->
  next_state (table_of t_os t_or t_is t_ir mach) (m_cur mach) (event_of_msg m) = None ->
  exists err, on_message tc decode t_os t_or t_is t_ir terminal n sender m sw = (n, [], err) /\ err <> SOk.
Proof. exact unaccepted_message_changes_nothing. Qed.
Print Assumptions c09_unaccepted_message_changes_nothing.

(* the same at the level of one state machine, for every entry of SendEvent *)
Theorem c09_unaccepted_event_changes_nothing :
  forall tc decode t m ev ctx w,
  String.eqb ev Ev_Done = false -> next_state t (m_cur m) ev = None ->
  send_event tc decode t m ev ctx w = ((m, mkResult false ErrRejected), w, []).
Proof. exact send_event_unaccepted. Qed.
Print Assumptions c09_unaccepted_event_changes_nothing.
