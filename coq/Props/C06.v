(* C06 — A taker never reveals its swap key once its claim payment may have gone out.
   Property theorems only.  Vocabulary (Model/C06Corr.v):
     pay_ok e        RebalancePayment returned the preimage (the claim payment succeeded)
     pay_failed e    RebalancePayment returned an error; the environment's label [pend] says whether that attempt's
                     HTLC is still in flight (the node only sees the error)
     coop_send e     a coop_close message (it carries the swap private key) is handed to the messenger
     claim_only Z e  e is a store write of a state in Z, a preimage-spend attempt, or the end of retransmission
     claim_zone t    the states reachable from the success edge of the paying states of table t
     c06_calm        the known pattern D4 does NOT occur: the history item during which the first claim payment
                     succeeds is not a crash, all its store writes succeed (and the model's 64-transition loop bound
                     is not hit in it).  Every other item may crash anywhere, fail any call, deliver any input. *)
From Coq Require Import String ZArith Bool List.
From PS Require Import Model.Data Model.Actions Model.Fsm Model.History Model.FsmCorr Model.CrashCorr Model.C06Corr
  Gen.ConstsSwap Gen.Tables Proofs.C06 Proofs.C06Witness.
From PS Require Import Model.C06PayStream Proofs.C06PayStream.
Import ListNotations.
Open Scope Z_scope.

(* THE FULL STATEMENT (false of the code as it is: see Findings/F_C06_*.v; kept visible).
   For both taker tables, every history of a fresh swap that the environment can produce (crashes after any effect,
   restarts, any answers) and every labelling of failed attempts as "HTLC still in flight":
   no coop_close is sent once a claim payment succeeded or is outstanding, and after a successful payment the
   node only writes the paying/claiming states to the store and tries to claim with the preimage. *)
Definition C06_full : Prop :=
  forall t, In t taker_tables ->
  forall dec id ty role peer ini key its (pend : nat -> bool),
    let m0 := fresh_machine id ty role peer ini key in
    hist_ok tl_consts_gen dec t terminal_states (init_hstate m0) its = true ->
    let tr := hs_trace (run_hist tl_consts_gen dec t terminal_states (init_hstate m0) its) in
    no_coop_once_out false (label_from pend O tr) = true /\
    after_pay_all (claim_only (claim_zone t ++ pay_states t)) tr = true.

(* the reflective check on the tables generated from the code on this run: the zone of each taker table is
   {ClaimSwap, ClaimedPreimage}, it is closed under every event, its actions are the preimage claim / done, every
   paying state enters it on success, and its non-final state re-runs the claim on recovery *)
Theorem c06_generated_tables_checked :
  claim_zone table_swap_out_sender = ["State_SwapOutSender_ClaimSwap"; "State_ClaimedPreimage"]%string /\
  pay_states table_swap_out_sender = ["State_SwapOutSender_ValidateTxAndPayClaimInvoice"]%string /\
  claim_zone table_swap_in_receiver = ["State_SwapInReceiver_ClaimSwap"; "State_ClaimedPreimage"]%string /\
  pay_states table_swap_in_receiver = ["State_SwapInReceiver_ValidateTxAndPayClaimInvoice"]%string /\
  forallb (fun t => c06_table_ok t (claim_zone t) && zone_recovers t terminal_states (claim_zone t)) taker_tables = true.
Proof. exact tables_checked. Qed.
Print Assumptions c06_generated_tables_checked.

(* soundness of the check for ARBITRARY tables, constants, decoders, initial machines, histories with crashes:
   if the table passes the check for a set Z, then in every history outside pattern D4 every effect after the
   first successful claim payment is claim_only (Z ++ paying states) - in particular it is no coop_close *)
Theorem c06_check_sound_any_table : forall tc dec t terminal Z m0 its,
  c06_table_ok t Z = true ->
  c06_calm tc dec t terminal (init_hstate m0) its = true ->
  forall pre e post,
    hs_trace (run_hist tc dec t terminal (init_hstate m0) its) = (pre ++ e :: post)%list ->
    existsb pay_ok pre = true ->
    claim_only (Z ++ pay_states t) e = true /\ coop_send e = false.
Proof. exact paid_then_claim_only. Qed.
Print Assumptions c06_check_sound_any_table.

(* ... and the swap stays in Z for ever (in memory and as restored after every later crash), i.e. in a state whose
   action is the preimage claim or the final ClaimedPreimage *)
Theorem c06_stays_in_claim_zone : forall tc dec t terminal Z m0 its,
  c06_table_ok t Z = true ->
  c06_calm tc dec t terminal (init_hstate m0) its = true ->
  existsb pay_ok (hs_trace (run_hist tc dec t terminal (init_hstate m0) its)) = true ->
  forall m, hs_machine (run_hist tc dec t terminal (init_hstate m0) its) = Some m ->
    mem_str (m_cur m) Z = true /\
    exists sd a, lookup_state t (m_cur m) = Some sd /\ st_action sd = Some a /\ safe_tree a = true.
Proof. exact paid_then_in_zone. Qed.
Print Assumptions c06_stays_in_claim_zone.

(* THE STATEMENT THAT HOLDS: C06_full for both generated taker tables, all constants, decoders, initial machines
   and histories, except the known patterns: D3 (no failed attempt is labelled "still in flight": pend = false) and
   D4 (c06_calm).  hist_ok is not even needed. *)
Theorem c06_except_known : forall t, In t taker_tables -> forall tc dec terminal m0 its,
  c06_calm tc dec t terminal (init_hstate m0) its = true ->
  let h := run_hist tc dec t terminal (init_hstate m0) its in
  no_coop_once_out false (label_from (fun _ => false) O (hs_trace h)) = true /\
  after_pay_all (claim_only (claim_zone t ++ pay_states t)) (hs_trace h) = true /\
  (existsb pay_ok (hs_trace h) = true ->
   forall m, hs_machine h = Some m -> mem_str (m_cur m) (claim_zone t) = true).
Proof. exact except_known. Qed.
Print Assumptions c06_except_known.

(* "keeps trying to claim": every recovery of a taker swap that sits in the zone (so: after the payment) and has not
   claimed yet starts with a preimage-spend attempt *)
Theorem c06_recovery_claims_again : forall t, In t taker_tables -> forall tc dec m w o w' es,
  mem_str (m_cur m) (claim_zone t) = true ->
  chain_known (m_data m) = true -> d_claim_txid (m_data m) = EmptyString ->
  step tc dec t terminal_states m InRecover w = (o, w', es) ->
  is_finished terminal_states (m_cur m) = true \/ exists r rest, es = EBroadcastSpend SKPreimage r :: rest.
Proof. exact recovery_claims_taker. Qed.
Print Assumptions c06_recovery_claims_again.

(* Adapter side (lnd back-end, Model/C06PayStream.v, tied to the real lnd.Client.RebalancePayment by `psh paystream`):
   the state machine reads an error of RebalancePayment as "the claim payment did not go out".  For EVERY stream of
   payment updates lnd can deliver: the adapter reports "paid" only after SUCCEEDED and "failed" only after FAILED,
   each preceded by non-final updates only; while lnd reports unknown / in flight it reaches no verdict of its own
   (the call ends only when lnd closes the stream).  That the real adapter puts no deadline of its own on the stream
   is observed on every run (monitor clause of `ps_monitor`). *)
Theorem c06_lnd_adapter_paid_only_after_succeeded : forall us n k, pay_stream us n = (OPaid, k) ->
  exists pre post, us = (pre ++ PSucceeded :: post)%list /\ Forall nonfinal pre /\ k = (n + length pre + 1)%nat.
Proof. exact pay_stream_paid. Qed.
Print Assumptions c06_lnd_adapter_paid_only_after_succeeded.

Theorem c06_lnd_adapter_failed_only_after_failed : forall us n k, pay_stream us n = (OFailedByLnd, k) ->
  exists pre post, us = (pre ++ PFailed :: post)%list /\ Forall nonfinal pre /\ k = (n + length pre + 1)%nat.
Proof. exact pay_stream_failed. Qed.
Print Assumptions c06_lnd_adapter_failed_only_after_failed.

Theorem c06_lnd_adapter_no_verdict_while_in_flight : forall us n,
  Forall nonfinal us -> pay_stream us n = (OConnectionLost, (n + length us)%nat).
Proof. exact pay_stream_in_flight_no_verdict. Qed.
Print Assumptions c06_lnd_adapter_no_verdict_while_in_flight.
