(* C01 — Taker pays the claim invoice only for a validated, confirmed opening output.
   Property theorems only. *)
From Coq Require Import String ZArith Bool List.
From PS Require Import Model.Data Model.Actions Model.Fsm Model.History Model.FsmCorr Model.TableChecks Model.C01Corr
  Gen.ConstsSwap Gen.Tables Proofs.C01.
Import ListNotations.
Open Scope Z_scope.

Theorem c01_constants :
  policy_btc_v7 = Some (mkPolicy 1008 504 503 0 true) /\
  policy_lbtc_v7 = Some (mkPolicy 10080 60 29 32 true) /\
  policy_lbtc_v6 = Some (mkPolicy 60 30 29 0 false) /\
  bitcoin_csv = 1008 /\ bitcoin_min_confs = 3 /\ liquid_confs = 2 /\
  protocol_version = 7 /\ legacy_protocol_version = 6.
Proof. exact Proofs.C01.c01_constants. Qed.
Print Assumptions c01_constants.
