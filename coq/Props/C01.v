(* C01 — Taker pays the claim invoice only for a validated, confirmed opening output.
   Property theorems only. *)
From Coq Require Import String ZArith Bool List.
From PS Require Import Model.Data Model.Actions Model.Fsm Model.History Model.FsmCorr Model.TableChecks Model.C01Corr
  Gen.ConstsSwap Gen.Tables Proofs.C01 Proofs.C01Witness.
Import ListNotations.
Open Scope Z_scope.

(* the constants of the code are the numbers the property names: CSV 1008 / 10080, invoice final
   CLTV bounds (504 accepted for Bitcoin = CSV/2, 29 for Liquid), required depths 3 / 2 *)
Theorem c01_constants :
  policy_btc_v7 = Some (mkPolicy 1008 504 503 0 true) /\
  policy_lbtc_v7 = Some (mkPolicy 10080 60 29 32 true) /\
  policy_lbtc_v6 = Some (mkPolicy 60 30 29 0 false) /\
  bitcoin_csv = 1008 /\ bitcoin_min_confs = 3 /\ liquid_confs = 2 /\
  protocol_version = 7 /\ legacy_protocol_version = 6.
Proof. exact Proofs.C01.c01_constants. Qed.
Print Assumptions c01_constants.

(* the reflective table check (taker tables: the paying state is entered by Event_OnTxConfirmed
   only, no state overwrites the agreement / blinding key, nothing leads back to the Default
   state; maker tables: the paying action does not occur) holds of the four generated tables *)
Theorem c01_generated_tables_pass :
  forall t, In t [table_swap_out_sender; table_swap_in_receiver; table_swap_out_receiver; table_swap_in_sender] ->
  c01_table_ok t = true.
Proof. exact c01_tables_ok_all. Qed.
Print Assumptions c01_generated_tables_pass.

(* MAIN THEOREM.  For EVERY state table that passes the check, every invoice decoder (that never
   yields an empty payment hash), every fresh swap and every history the environment can produce
   (hist_ok: requests only create swaps, confirmation callbacks only for a watch registered in
   the CURRENT process, any environment answers, crashes after any effect followed by restarts
   from the last durable record), with the timelock constants of the code:
   every RebalancePayment call (EPayClaim) is made
     - for exactly the invoice of the peer's opening_tx_broadcasted message of the DURABLE record,
     - of a Bitcoin swap or a protocol-7 Liquid swap,
     - whose invoice decodes to amount = claim amount*1000 (mod 2^64, as the code compares),
       final CLTV <= 504 (Bitcoin) / 0..29 (Liquid), and whose hash is the bound ClaimPaymentHash,
     - after, in the same action (no store write in between), ValidateTx was called with both
       swap pubkeys, that hash, the negotiated on-chain amount, CSV 1008 / 10080, the peer's
       blinding key (own key if none) and the OpeningTxHex of the durable record, and answered true;
   every confirmation watch is registered for the announced txid/vout. *)
Theorem c01_pay_only_checked_and_validated : forall dec t terminal m0 its,
  (forall p h m c, dec p = Some (h, m, c) -> h <> EmptyString) ->
  c01_table_ok t = true -> m_cur m0 = EmptyString ->
  hist_ok tl_consts_gen dec t terminal (init_hstate m0) its = true ->
  trace_okgb c01_gy (c01_spec_pb dec t) (m_data m0) c01_y0
    (hs_trace (run_hist tl_consts_gen dec t terminal (init_hstate m0) its)) = true.
Proof. exact c01_hist_spec. Qed.
Print Assumptions c01_pay_only_checked_and_validated.

(* the same, read at one payment anywhere in the trace *)
Theorem c01_every_payment_checked : forall dec t terminal m0 its,
  (forall p h m c, dec p = Some (h, m, c) -> h <> EmptyString) ->
  c01_table_ok t = true -> m_cur m0 = EmptyString ->
  hist_ok tl_consts_gen dec t terminal (init_hstate m0) its = true ->
  forall pre post payreq scid mx tip res,
    hs_trace (run_hist tl_consts_gen dec t terminal (init_hstate m0) its) = (pre ++ EPayClaim payreq scid mx tip res :: post)%list ->
    c01_spec_pb dec t (lp_end (m_data m0) pre) (fold_left c01_gy pre c01_y0) (EPayClaim payreq scid mx tip res) = true.
Proof. exact c01_every_payment. Qed.
Print Assumptions c01_every_payment_checked.

(* what the code's structure guarantees for arbitrary timelock constants; additionally every record
   persisted in a paying state satisfies the invoice invariant (or is a legacy record that never
   starts a new payment) *)
Theorem c01_code_guard_any_constants : forall tc dec t terminal m0 its,
  (forall p h m c, dec p = Some (h, m, c) -> h <> EmptyString) ->
  c01_table_ok t = true -> m_cur m0 = EmptyString ->
  hist_ok tc dec t terminal (init_hstate m0) its = true ->
  trace_okgb c01_gy (c01_pb tc dec t) (m_data m0) c01_y0
    (hs_trace (run_hist tc dec t terminal (init_hstate m0) its)) = true.
Proof. exact c01_hist. Qed.
Print Assumptions c01_code_guard_any_constants.

(* non-vacuity: an allowed history of the generated in_receiver table, observed on the real code,
   in which the claim invoice is paid and the predicate holds; and perturbed traces it rejects *)
Theorem c01_reachable_witness :
  m_cur wit_m0 = ""%string /\
  c01_table_ok (sc_table wit) = true /\
  hist_ok tl_consts_gen wit_dec (sc_table wit) terminal_states (init_hstate wit_m0) wit_its = true /\
  has_pay wit_trace = true /\
  trace_okgb c01_gy (c01_spec_pb wit_dec (sc_table wit)) (m_data wit_m0) c01_y0 wit_trace = true.
Proof. exact c01_reachable_payment. Qed.
Print Assumptions c01_reachable_witness.
