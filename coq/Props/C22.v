(* C22 — Retransmissions stop when the swap moves on.
   Property theorems only.

   The retransmitter of a swap appears in the effect trace as ERetransStart (MessengerManager.AddSender
   succeeded: a RedundantMessenger now resends the message on every tick) and ERetransStop
   (MessengerManager.RemoveSender).  [live_fold b es] is "a retransmitter is live" after the effects es
   when it was b before; [starts_ok b es] says no retransmitter is started while one is live.
   The real Manager / RedundantMessenger (refusal of a second sender, at most one copy after Stop) are
   exercised by harness/c22_retrans.go; their model is Model/C22Corr.v mgr_run. *)
From Coq Require Import String ZArith Bool List.
From PS Require Import Model.Data Model.Actions Model.Fsm Model.History Model.FsmCorr Model.C22Corr
  Gen.ConstsSwap Gen.Tables Proofs.C22 Proofs.C22Msg.
Import ListNotations.
Open Scope Z_scope.

(* The full statement over the tables of the code.  For every history of a maker swap from its
   creation (any inputs the environment can produce - hist_ok -, any environment answers, crashes
   after any effect and restarts anywhere):
   (1) never two retransmitters;
   (2) a retransmitter is live only while the stored swap announces the opening transaction or
       waits for the taker's reaction;
   (3) the message handed to a retransmitter is opening_tx_broadcasted ([msg_hist] judges the full
       effect list of every step with [retrans_msg_ok]: every ERetransStart is directly followed by
       the send of an MOtb). *)
Definition C22_full : Prop :=
  forall dec t id ty role peer initiator privkey its,
    t = table_swap_out_receiver \/ t = table_swap_in_sender ->
    let m0 := fresh_machine id ty role peer initiator privkey in
    hist_ok tl_consts_gen dec t terminal_states (init_hstate m0) its = true ->
    (let '(h, live, never_two) := live_hist tl_consts_gen dec t terminal_states m0 its in
     h = run_hist tl_consts_gen dec t terminal_states (init_hstate m0) its /\
     never_two = true /\
     (live = true -> exists m, hs_machine h = Some m /\ str_mem (m_cur m) (live_states t) = true)) /\
    msg_hist tl_consts_gen dec t terminal_states m0 its =
      (run_hist tl_consts_gen dec t terminal_states (init_hstate m0) its, true).

(* It holds since the repair 5728a51 (an event the current state does not accept is rejected before
   its context is applied).  Before, clause (3) was false: coq/Findings/F_C22_1.v (kept; it no
   longer compiles against the repaired model). *)
Theorem c22_full_holds : C22_full.
Proof. exact full_holds. Qed.
Print Assumptions c22_full_holds.

(* clause (3) for EVERY table that passes [c22_msg_table_ok], from any machine that satisfies the
   invariant [msg_inv] *)
Theorem c22_message_clause_any_table : forall tc dec t terminal, c22_msg_table_ok t = true ->
  forall m0 its, msg_inv t (m_cur m0) (m_data m0) = true ->
    hist_ok tc dec t terminal (init_hstate m0) its = true ->
    msg_hist tc dec t terminal m0 its = (run_hist tc dec t terminal (init_hstate m0) its, true).
Proof. exact msg_hist_ok. Qed.
Print Assumptions c22_message_clause_any_table.

(* For EVERY table that passes the reflective check, every entry point of the service, every swap
   data and environment: if a retransmitter can only be live in a live state before the step
   (and none is live right after a restart), then the step starts none while one is live, and
   afterwards one is live only if the swap is in a live state (the announcing state or the wait
   its success leads to). *)
Theorem c22_step : forall tc dec t terminal, c22_table_ok t = true ->
  forall b m i w o w' es,
    (b = true -> str_mem (m_cur m) (live_states t) = true) -> (i = InRecover -> b = false) ->
    step tc dec t terminal m i w = (o, w', es) ->
    starts_ok b es = true /\
    (live_fold b es = true -> str_mem (m_cur (o_machine o)) (live_states t) = true).
Proof. exact step_fx. Qed.
Print Assumptions c22_step.

(* All histories with crashes and restarts ([live_hist] mirrors run_hist and tracks the
   retransmitter, which dies with its process): never two retransmitters, and one is live only
   while the stored swap is in a live state. *)
Theorem c22_all_histories : forall tc dec t terminal, c22_table_ok t = true ->
  forall m0 its,
    let '(h, live, never_two) := live_hist tc dec t terminal m0 its in
    h = run_hist tc dec t terminal (init_hstate m0) its /\
    never_two = true /\
    (live = true -> exists m, hs_machine h = Some m /\ str_mem (m_cur m) (live_states t) = true).
Proof. exact all_histories. Qed.
Print Assumptions c22_all_histories.

(* the tables of the code pass the check; their live states are exactly the announcement of the
   opening transaction and the wait for the taker's reaction; takers never retransmit *)
Theorem c22_generated_tables :
  (c22_table_ok table_swap_out_sender = true /\ c22_table_ok table_swap_out_receiver = true /\
   c22_table_ok table_swap_in_sender = true /\ c22_table_ok table_swap_in_receiver = true) /\
  (live_states table_swap_out_receiver =
     ["State_SwapOutReceiver_SendTxBroadcastedMessage"; "State_SwapOutReceiver_AwaitClaimInvoicePayment"]%string /\
   live_states table_swap_in_sender =
     ["State_SwapInSender_SendTxBroadcastedMessage"; "State_SwapInSender_AwaitClaimPayment"]%string /\
   live_states table_swap_out_sender = [] /\ live_states table_swap_in_receiver = []).
Proof. exact generated_tables. Qed.
Print Assumptions c22_generated_tables.

(* what the check relies on, for every action tree: a tree that passes [tree_stops] calls
   RemoveSender on every execution; a tree without the retry leaf never calls AddSender; any tree
   started from "stopped" adds at most one sender *)
Theorem c22_action_trees : forall tc dec fuel a d w r w' es,
  exec tc dec fuel a d w = (r, w', es) ->
  (tree_stops fuel a = true -> existsb (fun e => match e with ERetransStop => true | _ => false end) es = true) /\
  (tree_may_start a = false -> existsb (fun e => match e with ERetransStart => true | _ => false end) es = false) /\
  starts_ok false es = true.
Proof. exact action_trees. Qed.
Print Assumptions c22_action_trees.

(* non-vacuity: announcing makes the retransmitter live, the CSV claim stops it *)
Theorem c22_example :
  live_fold false [ERetransStart; ESend "peer" (MCancel (mkCancel "" ""))] = true /\
  live_fold true [ERetransStop; EBroadcastSpend SKCsv (Some "tx"%string)] = false /\
  starts_ok true [ERetransStart] = false /\ starts_ok true [ERetransStop; ERetransStart] = true.
Proof. exact example_folds. Qed.
Print Assumptions c22_example.

(* the two local facts behind clause (3): the retransmitter gets NextMessage, and NextMessage is
   the opening_tx_broadcasted message whenever CreateAndBroadcastOpeningTransaction built the
   transaction *)
Theorem c22_announcement_message_local : forall tc,
  (forall d w r w' es, act_send_message_retry d w = (r, w', es) ->
     existsb (fun e => match e with ERetransStart => true | _ => false end) es = true ->
     exists m, d_next_msg d = Some m /\ es = [ERetransStart; ESend (d_peer d) m] /\ r = (Ev_Succeeded, d)) /\
  (forall d w d' w' es, act_create_and_broadcast_opening tc d w = ((Ev_Succeeded, d'), w', es) -> d_otb d = None ->
     exists o, d_otb d' = Some o /\ d_next_msg d' = Some (MOtb o) /\
               existsb (fun e => match e with EBroadcastOpening _ _ _ _ _ _ (Some _) => true | _ => false end) es = true).
Proof. exact announcement_message_partial. Qed.
Print Assumptions c22_announcement_message_local.
