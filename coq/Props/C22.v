(* C22 — Retransmissions stop when the swap moves on.
   Property theorems only.

   The retransmitter of a swap appears in the effect trace as ERetransStart (MessengerManager.AddSender
   succeeded: a RedundantMessenger now resends the message on every tick) and ERetransStop
   (MessengerManager.RemoveSender).  [live_fold b es] is "a retransmitter is live" after the effects es
   when it was b before; [starts_ok b es] says no retransmitter is started while one is live.
   The real Manager / RedundantMessenger (refusal of a second sender, at most one copy after Stop) are
   exercised by harness/c22_retrans.go; their model is Model/C22Corr.v mgr_run. *)
From Coq Require Import String ZArith Bool List.
From PS Require Import Model.Data Model.Actions Model.Fsm Model.History Model.FsmCorr Model.C22Corr
  Gen.ConstsSwap Gen.Tables Proofs.C22.
Import ListNotations.
Open Scope Z_scope.

(* For EVERY table that passes the reflective check, every entry point of the service, every swap
   data and environment: if a retransmitter can only be live in a live state before the step
   (and none is live right after a restart), then the step starts none while one is live, and
   afterwards one is live only if the swap is in a live state (the announcing state or the wait
   its success leads to). *)
Theorem c22_step : forall tc dec t terminal, c22_table_ok t = true ->
  forall b m i w o w' es,
    (b = true -> str_mem (m_cur m) (live_states t) = true) -> (i = InRecover -> b = false) ->
    step tc dec t terminal m i w = (o, w', es) ->
    starts_ok b es = true /\
    (live_fold b es = true -> str_mem (m_cur (o_machine o)) (live_states t) = true).
Proof. exact step_fx. Qed.
Print Assumptions c22_step.

(* All histories with crashes and restarts ([live_hist] mirrors run_hist and tracks the
   retransmitter, which dies with its process): never two retransmitters, and one is live only
   while the stored swap is in a live state. *)
Theorem c22_all_histories : forall tc dec t terminal, c22_table_ok t = true ->
  forall m0 its,
    let '(h, live, never_two) := live_hist tc dec t terminal m0 its in
    h = run_hist tc dec t terminal (init_hstate m0) its /\
    never_two = true /\
    (live = true -> exists m, hs_machine h = Some m /\ str_mem (m_cur m) (live_states t) = true).
Proof. exact all_histories. Qed.
Print Assumptions c22_all_histories.

(* the tables of the code pass the check; their live states are exactly the announcement of the
   opening transaction and the wait for the taker's reaction; takers never retransmit *)
Theorem c22_generated_tables :
  (c22_table_ok table_swap_out_sender = true /\ c22_table_ok table_swap_out_receiver = true /\
   c22_table_ok table_swap_in_sender = true /\ c22_table_ok table_swap_in_receiver = true) /\
  (live_states table_swap_out_receiver =
     ["State_SwapOutReceiver_SendTxBroadcastedMessage"; "State_SwapOutReceiver_AwaitClaimInvoicePayment"]%string /\
   live_states table_swap_in_sender =
     ["State_SwapInSender_SendTxBroadcastedMessage"; "State_SwapInSender_AwaitClaimPayment"]%string /\
   live_states table_swap_out_sender = [] /\ live_states table_swap_in_receiver = []).
Proof. exact generated_tables. Qed.
Print Assumptions c22_generated_tables.

(* what the check relies on, for every action tree: a tree that passes [tree_stops] calls
   RemoveSender on every execution; a tree without the retry leaf never calls AddSender; any tree
   started from "stopped" adds at most one sender *)
Theorem c22_action_trees : forall tc dec fuel a d w r w' es,
  exec tc dec fuel a d w = (r, w', es) ->
  (tree_stops fuel a = true -> existsb (fun e => match e with ERetransStop => true | _ => false end) es = true) /\
  (tree_may_start a = false -> existsb (fun e => match e with ERetransStart => true | _ => false end) es = false) /\
  starts_ok false es = true.
Proof. exact action_trees. Qed.
Print Assumptions c22_action_trees.

(* non-vacuity: announcing makes the retransmitter live, the CSV claim stops it *)
Theorem c22_example :
  live_fold false [ERetransStart; ESend "peer" (MCancel (mkCancel "" ""))] = true /\
  live_fold true [ERetransStop; EBroadcastSpend SKCsv (Some "tx"%string)] = false /\
  starts_ok true [ERetransStart] = false /\ starts_ok true [ERetransStop; ERetransStart] = true.
Proof. exact example_folds. Qed.
Print Assumptions c22_example.
