(* C27 — Premiums follow the configured rate and match what peer-sync advertises.
   Property theorems only; each is closed by [exact lemma].

   Objects: [code_*] are the model functions of premium/premium.go, premium/store.go and
   peersync (guard.PremiumRate, localCapabilityForPeer) instantiated with the constants
   regenerated from the code (Gen/ConstsPremium.v).  [spec_rate]/[spec_run] (Model/C27Corr.v)
   are the property's own reading: a plain map keyed by (peer | global, asset, operation),
   rate = peer row, else global row, else built-in default.  [upd] = SetRate | SetDefaultRate |
   DeleteRate | close-and-reopen. *)
From Coq Require Import String ZArith Bool List.
From PS Require Import Model.Premium Gen.ConstsPremium Model.C27Corr Proofs.C27.
Import ListNotations.
Open Scope Z_scope.

(* ---------- the FULL statement (false of the faithful model: see Findings/F_C27_1.v, F_C27_2.v) ---------- *)
Definition C27_full : Prop :=
  (* the premium is amount * rate / 10^6 truncated toward zero, all uint64 amounts, rates within +-10^6 ppm *)
  (forall rate amt, -1000000 <= rate <= 1000000 -> 0 <= amt < 2 ^ 64 ->
     code_ppm_compute rate amt = Z.quot (amt * rate) 1000000) /\
  (* after every sequence of updates / deletes / reopenings the rate of a peer is the map's:
     peer row, else global row, else built-in default *)
  (forall us p a o, Forall upd_fits us ->
     code_get_rate (code_run_upds [] us) p a o = opt_res (spec_rate (spec_run [] us) (Some p) a o)) /\
  (* the four advertised rates are the rates charged *)
  (forall st p a o amt, In (a, o) four_pairs ->
     code_compute st p a o amt = Some (code_ppm_compute (adv_rate (code_local_capability_rates st p) a o) amt)).

(* what holds: the full statement outside exactly the two known patterns
   (1) [overflow_pattern rate amt]: amt >= 2^63 or amt*rate outside int64  — int64 wrap-around in PPM.Compute;
   (2) a peer id equal to the reserved word "default" — it is the global row. *)
Theorem c27_except_known :
  (forall rate amt, 0 <= amt -> ~ overflow_pattern rate amt ->
     code_ppm_compute rate amt = Z.quot (amt * rate) 1000000) /\
  (forall us p a o, Forall upd_fits us -> Forall upd_no_reserved us -> p <> premium_default_peer_id ->
     code_get_rate (code_run_upds [] us) p a o = opt_res (spec_rate (spec_run [] us) (Some p) a o)) /\
  (forall st p a o amt, In (a, o) four_pairs ->
     code_compute st p a o amt = Some (code_ppm_compute (adv_rate (code_local_capability_rates st p) a o) amt)).
Proof. exact c27_all_except_known. Qed.
Print Assumptions c27_except_known.

(* the numbers of the property text are the numbers in the code *)
Theorem c27_constants :
  premium_rate_parts = 1000000 /\
  peersync_max_premium_rate_ppm = 1000000 /\ peersync_min_premium_rate_ppm = -1000000 /\
  premium_asset_btc = 1 /\ premium_asset_lbtc = 2 /\ premium_op_swap_in = 1 /\ premium_op_swap_out = 2 /\
  premium_default_peer_id = "default"%string.
Proof. exact gen_premium_constants. Qed.
Print Assumptions c27_constants.

(* ---------- premium arithmetic ---------- *)

(* PPM.Compute (with its int64 wrap-around) is amount*rate/10^6 truncated toward zero whenever the
   amount is below 2^63 and the product fits an int64 — for every int64 rate, not only +-10^6 *)
Theorem c27_premium_exact_except_overflow : forall rate amt,
  0 <= amt -> ~ overflow_pattern rate amt ->
  code_ppm_compute rate amt = Z.quot (amt * rate) 1000000.
Proof. exact ppm_compute_exact. Qed.
Print Assumptions c27_premium_exact_except_overflow.

(* in particular for all rates within +-10^6 ppm and all amounts up to 9 223 372 036 854 sat *)
Theorem c27_premium_exact_stated_domain : forall rate amt,
  -1000000 <= rate <= 1000000 -> 0 <= amt <= 9223372036854 ->
  code_ppm_compute rate amt = Z.quot (amt * rate) 1000000.
Proof. exact ppm_compute_exact_stated. Qed.
Print Assumptions c27_premium_exact_stated_domain.

(* "truncated toward zero" without Z.quot: p*10^6 is the multiple of 10^6 nearest to amt*rate on the zero side *)
Theorem c27_truncated_toward_zero : forall x, let p := Z.quot x 1000000 in
  Z.abs (p * 1000000) <= Z.abs x < Z.abs (p * 1000000) + 1000000 /\ 0 <= p * x.
Proof. exact quot_trunc_spec. Qed.
Print Assumptions c27_truncated_toward_zero.

(* Setting.Compute charges exactly the rate GetRate returns, and fails exactly when GetRate fails *)
Theorem c27_compute_uses_get_rate : forall st peer a o amt r,
  code_get_rate st peer a o = ROk r -> code_compute st peer a o amt = Some (code_ppm_compute r amt).
Proof. exact compute_uses_rate. Qed.
Print Assumptions c27_compute_uses_get_rate.

Theorem c27_compute_fails_iff_no_rate : forall st peer a o amt,
  code_compute st peer a o amt = None <-> forall r, code_get_rate st peer a o <> ROk r.
Proof. exact compute_fails_iff. Qed.
Print Assumptions c27_compute_fails_iff_no_rate.

(* ---------- rates behave like a persistent map: ALL update sequences ---------- *)

(* the bbolt key "<peer>.<asset>.<operation>" identifies (peer, asset, operation), also for peer ids containing dots *)
Theorem c27_key_injective : forall p a o p' a' o',
  rate_key p a o = rate_key p' a' o' -> p = p' /\ a = a' /\ o = o'.
Proof. exact rate_key_inj. Qed.
Print Assumptions c27_key_injective.

Theorem c27_rates_follow_map_except_reserved : forall us p a o,
  Forall upd_fits us -> Forall upd_no_reserved us -> p <> premium_default_peer_id ->
  code_get_rate (code_run_upds [] us) p a o = opt_res (spec_rate (spec_run [] us) (Some p) a o).
Proof. exact rates_follow_map. Qed.
Print Assumptions c27_rates_follow_map_except_reserved.

Theorem c27_default_rates_follow_map : forall us a o,
  Forall upd_fits us -> Forall upd_no_reserved us ->
  code_get_default_rate (code_run_upds [] us) a o = opt_res (spec_rate (spec_run [] us) None a o).
Proof. exact default_rates_follow_map. Qed.
Print Assumptions c27_default_rates_follow_map.

(* premium charged after any update sequence = amount * (map rate) / 10^6 *)
Theorem c27_premiums_follow_map_except_known : forall us p a o amt,
  Forall upd_fits us -> Forall upd_no_reserved us -> p <> premium_default_peer_id -> 0 <= amt ->
  (forall r, spec_rate (spec_run [] us) (Some p) a o = Some r -> ~ overflow_pattern r amt) ->
  code_compute (code_run_upds [] us) p a o amt =
  option_map (fun r => Z.quot (amt * r) 1000000) (spec_rate (spec_run [] us) (Some p) a o).
Proof. exact premiums_follow_map_exact. Qed.
Print Assumptions c27_premiums_follow_map_except_known.

(* complete description including the reserved word: the peer id "default" denotes the global row *)
Theorem c27_rates_follow_map_with_alias : forall us p a o,
  Forall upd_fits us ->
  code_get_rate (code_run_upds [] us) p a o = opt_res (spec_rate (spec_run_alias [] us) (scope_of p) a o).
Proof. exact rates_follow_map_alias. Qed.
Print Assumptions c27_rates_follow_map_with_alias.

(* persistent: closing and reopening the database anywhere in a sequence changes nothing *)
Theorem c27_reopen_is_identity : forall us1 us2,
  code_run_upds [] (us1 ++ UReopen :: us2) = code_run_upds [] (us1 ++ us2).
Proof. exact reopen_is_identity. Qed.
Print Assumptions c27_reopen_is_identity.

(* the map laws on the code's functions, any store *)
Theorem c27_set_then_get : forall st p a o r,
  key_fits p a o -> a <> 0 -> o <> 0 ->
  snd (code_set_rate st p a o r) = false /\
  code_get_rate (fst (code_set_rate st p a o r)) p a o = ROk r.
Proof. exact set_then_get. Qed.
Print Assumptions c27_set_then_get.

Theorem c27_set_other_unchanged : forall st p a o r p' a' o',
  p <> premium_default_peer_id -> (p, a, o) <> (p', a', o') ->
  code_get_rate (fst (code_set_rate st p a o r)) p' a' o' = code_get_rate st p' a' o'.
Proof. exact set_other_unchanged. Qed.
Print Assumptions c27_set_other_unchanged.

Theorem c27_delete_then_get : forall st p a o,
  p <> premium_default_peer_id ->
  snd (code_delete_rate st p a o) = false /\
  code_get_rate (fst (code_delete_rate st p a o)) p a o = code_get_default_rate st a o.
Proof. exact delete_then_get. Qed.
Print Assumptions c27_delete_then_get.

(* the only SetRate error: bbolt rejects the key; nothing is stored *)
Theorem c27_set_too_long_rejected : forall st p a o r,
  ~ key_fits p a o -> code_set_rate st p a o r = (st, true).
Proof. exact set_too_long_rejected. Qed.
Print Assumptions c27_set_too_long_rejected.

(* ---------- advertised = charged: any store, any peer id ---------- *)
Theorem c27_advertised_is_get_rate : forall st p a o,
  In (a, o) four_pairs ->
  code_get_rate st p a o = ROk (adv_rate (code_local_capability_rates st p) a o).
Proof. exact advertised_is_get_rate. Qed.
Print Assumptions c27_advertised_is_get_rate.

Theorem c27_advertised_is_charged : forall st p a o amt,
  In (a, o) four_pairs ->
  code_compute st p a o amt = Some (code_ppm_compute (adv_rate (code_local_capability_rates st p) a o) amt).
Proof. exact advertised_is_charged. Qed.
Print Assumptions c27_advertised_is_charged.
