(* C05 — Bitcoin claim HTLC always expires before the maker can refund via CSV.
   Property theorems only. *)
From Coq Require Import String ZArith Bool List.
From PS Require Import Model.Data Model.Actions Model.Fsm Model.History Model.FsmCorr Model.TableChecks
  Model.C01Corr Model.C05Corr Gen.ConstsSwap Gen.ConstsC24 Gen.Tables Proofs.Engine Proofs.C05.
From PS Require Model.C05LndWatch Gen.ConstsLndWatch Proofs.C05LndWatch.
Import ListNotations.
Open Scope Z_scope.

(* the constants of the code are the numbers the property names *)
Theorem c05_constants :
  policy_btc_v7 = Some (mkPolicy 1008 504 503 0 true) /\ policy_btc_v6 = policy_btc_v7 /\
  bitcoin_csv = 1008 /\ bitcoin_csv_safety_limit = 504 /\ lnd_block_padding = 3.
Proof. exact Proofs.C05.c05_constants. Qed.
Print Assumptions c05_constants.

(* THE FULL STATEMENT (kept visible; it is REFUTED, see coq/Findings/F_C05_1.v):
   for every history the environment can produce, every claim payment of a Bitcoin swap made at
   height `tip` for an invoice with final CLTV f, and EVERY height C at which the opening
   transaction can have been mined given that the watcher reported it with 3 confirmations
   (C + 2 <= tip): tip + route CLTV < C + 1008 for both Lightning back-ends. *)
Definition C05_full : Prop :=
  forall dec t terminal m0 its,
  (forall p h m c, dec p = Some (h, m, c) -> h <> EmptyString) ->
  (forall p h m c, dec p = Some (h, m, c) -> 0 <= c) ->
  c01_table_ok t = true -> m_cur m0 = EmptyString ->
  hist_ok tl_consts_gen dec t terminal (init_hstate m0) its = true ->
  forall pre post payreq scid mx tip res,
    hs_trace (run_hist tl_consts_gen dec t terminal (init_hstate m0) its) = (pre ++ EPayClaim payreq scid mx tip res :: post)%list ->
    let lp := lp_end (m_data m0) pre in
    get_chain lp = btc_chain ->
    0 <= d_start_height lp -> d_start_height lp + 504 < 2 ^ 32 -> 0 <= tip < 2 ^ 32 ->
    forall f C, invoice_cltv_of dec payreq = Some f -> C + 2 <= tip -> c05_full_at C tip f = true.

(* WHAT HOLDS (the full statement except the known pattern "opening tx mined less than 5 blocks
   after the taker's start height"): same quantifiers; every Bitcoin claim payment is made at
   start <= tip <= start+504 for an invoice with 0 <= f <= 504, so the HTLC expires by start+1009
   (CLN, route CLTV f+1) / start+1012 (lnd, CltvLimit f+4); and for every C >= start+5 the full
   statement holds. *)
Theorem c05_except_known :
  forall dec t terminal m0 its,
  (forall p h m c, dec p = Some (h, m, c) -> h <> EmptyString) ->
  (forall p h m c, dec p = Some (h, m, c) -> 0 <= c) ->
  c01_table_ok t = true -> m_cur m0 = EmptyString ->
  hist_ok tl_consts_gen dec t terminal (init_hstate m0) its = true ->
  forall pre post payreq scid mx tip res,
    hs_trace (run_hist tl_consts_gen dec t terminal (init_hstate m0) its) = (pre ++ EPayClaim payreq scid mx tip res :: post)%list ->
    let lp := lp_end (m_data m0) pre in
    get_chain lp = btc_chain ->
    0 <= d_start_height lp -> d_start_height lp + 504 < 2 ^ 32 -> 0 <= tip < 2 ^ 32 ->
    exists f, invoice_cltv_of dec payreq = Some f /\
      c05_enforced_at (d_start_height lp) tip f = true /\
      (forall C, d_start_height lp + 5 <= C -> c05_full_at C tip f = true).
Proof. exact c05_enforced. Qed.
Print Assumptions c05_except_known.

(* the guard of the pay loop alone: EVERY table, history, environment, crash point (no assumption
   on inputs): each Bitcoin claim payment happens at most 504 blocks (uint32 difference) after the
   start height of the durable record *)
Theorem c05_guard_all_histories : forall dec t terminal m0 its,
  trace_okb c05_spec_guard (m_data m0)
    (hs_trace (run_hist tl_consts_gen dec t terminal (init_hstate m0) its)) = true.
Proof. exact hist_spec05. Qed.
Print Assumptions c05_guard_all_histories.

(* route CLTV of the two back-ends for an accepted invoice (models of buildDirectClaimRoute /
   buildDirectClaimPaymentRequest, Bitcoin: no total limit) *)
Theorem c05_route_cltv : forall f, 0 <= f <= 504 -> cln_delta f = Some (f + 1) /\ lnd_delta f = Some (f + 4).
Proof. intros f H. split; [apply cln_delta_val|apply lnd_delta_val]; exact H. Qed.
Print Assumptions c05_route_cltv.

(* the region is exact: whatever the start height, there are accepted values (payment at start+504,
   f = 504) for which an opening tx mined at start+4 (3 confirmations long before the payment)
   breaks the full statement *)
Theorem c05_region_exact : forall S, 0 <= S -> S + 504 < 2 ^ 32 ->
  exists C P f, c05_enforced_at S P f = true /\ C = S + 4 /\ C + 2 <= P /\ c05_full_at C P f = false.
Proof. exact unsafe_region. Qed.
Print Assumptions c05_region_exact.

(* lnd back-end: the lnd watcher is the one place that counts from the opening transaction's CONFIRMATION height h.
   When it hands the transaction to the swap (verdict 0, the taker goes on to pay) at node height t >= h, the
   transaction has fewer than BitcoinCsvSafetyLimit = 504 (= half of the Bitcoin CSV, regenerated from the code)
   confirmations.  Model of lnd.TxWatcher.AddWaitForConfirmationTx with the uint32 arithmetic explicit
   (Model/C05LndWatch.v), tied to the real watcher by the lndwatch family. *)
Theorem c05_lnd_watcher_confirms_below_half_csv : forall h t,
  0 < h < 2147483648 -> 0 <= t < 2147483648 -> h <= t ->
  PS.Model.C05LndWatch.lnd_conf_verdict PS.Gen.ConstsLndWatch.gen_lndwatch_safety_limit h t false = 0%N ->
  t - h + 1 < 504 /\ 504 = PS.Gen.ConstsLndWatch.gen_lndwatch_bitcoin_csv / 2.
Proof.
  intros h t Hh Ht Hle H. split.
  - exact (PS.Proofs.C05LndWatch.lnd_confirmed_generated h t Hh Ht Hle H).
  - reflexivity.
Qed.
Print Assumptions c05_lnd_watcher_confirms_below_half_csv.
