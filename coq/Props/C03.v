(* C03 — Claim, coop and CSV-refund transactions the node builds are valid and pay it.
   Property theorems only; each is closed by [exact lemma].

   Objects.  [btc_spend backend kind ...] is the model (Model/Tx.v) of
   Create{Preimage,Csv,Coop}SpendingTransaction of the CLN (backend 0) and LND
   (backend 1) wallet adapters over BitcoinOnChain.PrepareSpendingTransaction /
   GetVoutAndVerify; [lbtc_spend kind ...] of the three LiquidOnChain builders;
   kind 0 = preimage claim, 1 = csv refund, anything else = cooperative claim.
   [btc_validate] / [lbtc_validate] model the two ValidateTx.  An opening
   transaction is its id and output list; [want] is the P2WSH script of the
   opening script (SHA-256 is not modelled; C02 assumes the same match).
   Signatures are abstract: item [WSigCall i ht] stands for the DER bytes the
   i-th Signer call returned followed by the hash-type byte ht, [sigbytes i]
   are those bytes, and [sigcall] records for each call whose key signed and
   whether the digest was the BIP-143 digest consensus verification computes
   for the transaction built (script code = opening script, amount = value of
   the output spent).  [checksig pk sg] is consensus signature verification for
   input 0 of that transaction, an arbitrary function constrained only by
   [sigs_verify]: signatures made over the consensus digest verify under the
   signer's key.  [eval_witness] is C02's model of btcd's script engine and
   [disassemble] reads script bytes back; [pushed d] = d except that the byte
   string 00 is pushed as the empty string.  [getfee] is BitcoinOnChain.GetFee
   as an arbitrary function of the size (all fee estimates); the Liquid wallet's
   fee answer is [feeopt] (None = error, the builder then uses 500).
   [bip68_blocks v s] is the relative lock in blocks of an input with sequence s
   in a version-v transaction; [includable v s conf h] = may be mined at height
   h when the spent output confirmed at height conf. *)
From Coq Require Import String ZArith NArith Bool List.
From PS Require Import Base.Corr Base.Wrap Base.ScriptOps Model.ScriptInterp Model.OpeningScript
  Gen.ConstsC03 Gen.Script Model.Tx Proofs.C02 Proofs.C02Bytes Proofs.C03.
Import ListNotations.
Open Scope Z_scope.

(* Bitcoin, both back-ends, all three kinds: for EVERY opening transaction the
   validator accepts (any number and order of outputs), every key / hash /
   preimage, every wallet address of the kind the adapters request (segwit v0,
   20- or 32-byte program), every fee estimate with fee + 200 <= amount: the
   adapter broadcasts exactly one transaction; it is version 2, lock time 0, has
   ONE input, spending output [vi] of the opening transaction, where [vi] is the
   output that passed validation (the first output carrying the swap amount,
   and its script is the P2WSH script); the witness is the kind's items followed
   by the opening script; every signature was made over the consensus digest
   with the swap amount; the items satisfy the script under the engine model
   whenever such signatures verify; there is ONE output, to the wallet's
   address, of amount - (fee + 200); the input's relative lock is 1008 blocks
   for the csv refund and none for the claims. *)
Theorem c03_bitcoin_spends_are_valid_and_pay_the_node :
  forall checksig sha256 fl sigbytes (getfee : Z -> Z) backend kind p want txid outs preimage prog
         claim_who taker_who taker maker h pre,
  hex_decode (sp_taker p) = Some taker -> hex_decode (sp_maker p) = Some maker ->
  hex_decode (sp_hash p) = Some h ->
  (length taker <= 520)%nat -> (length maker <= 520)%nat -> (length h <= 520)%nat ->
  0 <= sp_amount p < two63 ->
  btc_validate p want outs = true ->
  (length prog = 20 \/ length prog = 32)%nat ->
  signers_right kind claim_who taker_who ->
  (kind = 0%N -> parse_preimage preimage = Some pre /\ length pre = 32%nat /\ sha256 pre = pushed h) ->
  0 <= btc_fee getfee kind prog -> btc_fee getfee kind prog + 200 <= sp_amount p ->
  sig_sizes_ok sigbytes ->
  exists vi redeem ops t calls,
    btc_spend backend kind p want (Some (txid, outs)) preimage (mk_bw getfee (Some prog) false claim_who taker_who)
      = mk_so 0 [t] calls (ret_addr_of backend kind) /\
    btc_validated_index p want outs = Some vi /\
    nth_z outs vi = Some (mk_out (sp_amount p) want) /\
    (forall j o', 0 <= j < vi -> nth_z outs j = Some o' -> o_value o' <> sp_amount p) /\
    t_version t = 2 /\ t_lock t = 0 /\
    t_ins t = [mk_in txid vi (seq_of_kind kind 1008) (items_of_kind kind pre ++ [WData redeem])] /\
    redeem_script p 1008 = Some redeem /\ disassemble redeem = Some ops /\
    Forall (fun c => sc_swap_amount c = true /\ sc_consensus c = true) calls /\
    (sigs_verify checksig sigbytes (key_of (pushed taker) (pushed maker)) calls ->
       eval_witness checksig sha256 fl 2 (seq_of_kind kind 1008) ops
         (map (concrete sigbytes) (items_of_kind kind pre)) = true) /\
    t_outs t = [mk_out (sp_amount p - (btc_fee getfee kind prog + 200)) (0%N :: N.of_nat (length prog) :: prog)] /\
    bip68_blocks 2 (seq_of_kind kind 1008) = Some (match kind with 1%N => 1008 | _ => 0 end).
Proof. exact btc_spend_correct. Qed.
Print Assumptions c03_bitcoin_spends_are_valid_and_pay_the_node.

(* Liquid (protocol 7: csv 10080; legacy: csv 60), all three kinds: for every
   opening transaction LiquidOnChain.ValidateTx accepts (the first output with
   the P2WSH script unblinds, with the swap's blinding key, to the swap amount
   of the policy asset with a consistent asset commitment), every wallet
   (confidential) address, every fee answer with 0 < fee < amount: one
   transaction, version 2, lock time 0, ONE input spending that validated
   output, witness = the kind's items + opening script, signatures over the
   consensus digest (value commitment of the output spent), TWO outputs: the
   confidential one to the wallet's address holding amount - fee and the
   explicit fee; relative lock csv for the refund, none for the claims. *)
Theorem c03_liquid_spends_are_valid_and_pay_the_node :
  forall checksig sha256 fl sigbytes kind p csv want txid outs preimage ascript feeopt
         claim_who taker_who taker maker h pre,
  csv = 10080 \/ csv = 60 ->
  hex_decode (sp_taker p) = Some taker -> hex_decode (sp_maker p) = Some maker ->
  hex_decode (sp_hash p) = Some h ->
  (length taker <= 520)%nat -> (length maker <= 520)%nat -> (length h <= 520)%nat ->
  0 <= sp_amount p < two63 ->
  lbtc_validate p csv want outs = true ->
  signers_right kind claim_who taker_who ->
  (kind = 0%N -> parse_preimage preimage = Some pre /\ length pre = 32%nat /\ sha256 pre = pushed h) ->
  0 < lbtc_fee_of feeopt < sp_amount p ->
  sig_sizes_ok sigbytes ->
  exists vi redeem ops t calls,
    lbtc_spend kind p csv want txid outs preimage (mk_lw (Some (ascript, true)) feeopt false claim_who taker_who)
      = mk_ls 0 [t] calls true /\
    lbtc_validated_index p csv want outs = Some vi /\
    (exists o, nth_z outs vi = Some o /\ lo_script o = want /\
               lbtc_validate_output o (sp_amount p) = Some (sp_amount p)) /\
    (forall j o', 0 <= j < vi -> nth_z outs j = Some o' -> lo_script o' <> want) /\
    lm_version t = 2 /\ lm_lock t = 0 /\
    lm_ins t = [mk_in txid vi (seq_of_kind kind csv) (items_of_kind kind pre ++ [WData redeem])] /\
    redeem_script p csv = Some redeem /\ disassemble redeem = Some ops /\
    Forall (fun c => sc_swap_amount c = true /\ sc_consensus c = true) calls /\
    (sigs_verify checksig sigbytes (key_of (pushed taker) (pushed maker)) calls ->
       eval_witness checksig sha256 fl 2 (seq_of_kind kind csv) ops
         (map (concrete sigbytes) (items_of_kind kind pre)) = true) /\
    lm_outs t = [LReceiver ascript (sp_amount p - lbtc_fee_of feeopt); LFee (lbtc_fee_of feeopt)] /\
    bip68_blocks 2 (seq_of_kind kind csv) = Some (match kind with 1%N => csv | _ => 0 end).
Proof. exact lbtc_spend_correct. Qed.
Print Assumptions c03_liquid_spends_are_valid_and_pay_the_node.

(* what "accepted by the validator" means for the output spent *)
Theorem c03_validated_output : forall p want outs,
  btc_validate p want outs = true ->
  exists i o redeem,
    btc_get_vout p want outs = ROk (true, i) /\
    btc_validated_index p want outs = Some i /\
    nth_z outs i = Some o /\ o_value o = i64 (sp_amount p) /\ o_script o = want /\
    redeem_script p gen_onchain_bitcoin_csv_c03 = Some redeem /\
    0 <= i /\
    (forall j o', 0 <= j < i -> nth_z outs j = Some o' -> o_value o' <> i64 (sp_amount p)).
Proof. exact btc_validate_inv. Qed.
Print Assumptions c03_validated_output.

(* "A CSV refund is valid exactly once the CSV has elapsed and not before": the refund the
   node builds (version 2, sequence = csv) may be mined at height h iff h >= conf + csv ... *)
Theorem c03_csv_refund_matures_exactly_at_csv : forall csv conf h,
  csv = 1008 \/ csv = 10080 \/ csv = 60 ->
  (includable 2 csv conf h = true <-> conf + csv <= h).
Proof. exact csv_refund_matures. Qed.
Print Assumptions c03_csv_refund_matures_exactly_at_csv.

(* ... the claims at once ... *)
Theorem c03_claims_have_no_relative_lock : forall conf h,
  includable 2 0 conf h = true <-> conf <= h.
Proof. exact claims_immediate. Qed.
Print Assumptions c03_claims_have_no_relative_lock.

(* ... and NO transaction whatsoever that satisfies one of the node's scripts without a
   taker signature can be mined earlier (C02's maker-alone path + BIP 68) *)
Theorem c03_no_refund_before_csv : forall sc csv,
  In (sc, csv) [ (gen_script_bitcoin, 1008); (gen_script_liquid, 10080);
                 (gen_script_liquid_legacy, 60); (gen_script_bitcoin_legacy, 1008) ] ->
  forall checksig sha256 fl taker maker h w sq txver conf ht,
  eval_witness checksig sha256 fl txver sq (sc taker maker h) w = true ->
  (forall s, In s w -> ~ sig_valid checksig taker s) ->
  includable txver sq conf ht = true -> conf + csv <= ht.
Proof. exact maker_alone_not_before. Qed.
Print Assumptions c03_no_refund_before_csv.

(* the builder's constants, probed on the running code every run *)
Theorem c03_generated_constants :
  gen_btc_spend_margin = 200 /\ gen_btc_witness_allowance = 74 /\ gen_btc_refund_fee_vsize = 250 /\
  gen_onchain_bitcoin_csv_c03 = 1008 /\ gen_btc_csv_sequence = 1008 /\ gen_btc_claim_sequence = 0 /\
  gen_btc_spend_version = 2 /\ gen_lbtc_fee_placeholder = 500 /\
  gen_lbtc_csv_sequence_is_params_csv = true /\ gen_lbtc_spend_version = 2 /\ gen_lbtc_claim_sequence = 0.
Proof. exact gen_c03_constants. Qed.
Print Assumptions c03_generated_constants.

(* complement of the fee hypothesis (domain restriction, Bitcoin): the output value is computed
   with int64 wrap-around; a fee estimate above amount - 200 yields a negative output, i.e. a
   transaction no node relays (the swap retries later with another estimate) *)
Theorem c03_bitcoin_output_value_formula : forall getfee p txid outs prog vout csv pf t r a,
  btc_prepare getfee p (Some (txid, outs)) prog vout csv pf = ROk (t, r, a) ->
  exists o script,
    nth_z outs vout = Some o /\
    t_outs t = [mk_out (i64 (i64 (o_value o - 200) -
                             i64 (if pf =? 0 then getfee (stripped_size script + 74) else pf))) script].
Proof. exact btc_prepare_value. Qed.
Print Assumptions c03_bitcoin_output_value_formula.

Theorem c03_fee_above_amount_pays_nothing : forall v f,
  0 <= v < two63 -> 0 <= f < two63 - 200 -> v < f + 200 -> i64 (i64 (v - 200) - i64 f) < 0.
Proof. exact fee_exceeds_amount_pays_nothing. Qed.
Print Assumptions c03_fee_above_amount_pays_nothing.

(* the hypotheses of the two main theorems are satisfiable *)
Theorem c03_hypotheses_satisfiable :
  (btc_validate ex_params ex_want ex_outs = true /\
   btc_validated_index ex_params ex_want ex_outs = Some 1 /\
   0 <= btc_fee (fun sz => sz * 2) 1 (repeat 9%N 20) /\
   btc_fee (fun sz => sz * 2) 1 (repeat 9%N 20) + 200 <= sp_amount ex_params /\
   so_result (btc_spend 1 1 ex_params ex_want (Some ("txid"%string, ex_outs)) ""
                (mk_bw (fun sz => sz * 2) (Some (repeat 9%N 20)) false 1 0)) = 0%N) /\
  (lbtc_validate ex_params 10080 ex_want ex_louts = true /\
   lbtc_validated_index ex_params 10080 ex_want ex_louts = Some 1 /\
   ls_result (lbtc_spend 1 ex_params 10080 ex_want "txid" ex_louts ""
                (mk_lw (Some ([0%N; 20%N], true)) (Some 300) false 1 0)) = 0%N).
Proof. exact (conj ex_btc_hypotheses ex_lbtc_hypotheses). Qed.
Print Assumptions c03_hypotheses_satisfiable.
