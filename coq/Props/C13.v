(* C13 — the Liquid payment-window anchor is stored before the pubkey is revealed.
   Property theorems only. *)
From Coq Require Import String ZArith Bool List.
From PS Require Import Model.Data Model.Actions Model.Fsm Model.History Model.FsmCorr Model.C13Corr
  Gen.ConstsSwap Gen.Tables Proofs.Engine Proofs.C13.
Import ListNotations.
Open Scope Z_scope.

(* the generated taker tables pass the reflective check: the default state has no action and is
   never re-entered; an action tree that contains an anchor writer (CreateSwapRequestAction,
   SwapInReceiverInitAction, CreateAndBroadcastOpeningTransaction) sits only in a state that is
   entered solely from the default state and has FailOnrecover set *)
Theorem c13_taker_tables_checked :
  tbl_ok table_swap_out_sender = true /\ tbl_ok table_swap_in_receiver = true.
Proof. exact taker_tables_ok. Qed.
Print Assumptions c13_taker_tables_checked.

(* For both taker roles (the state tables generated from the code), EVERY invoice decoder, swap
   id / peer / key, and EVERY history the environment can produce (hist_ok: requests only create
   swaps; callbacks only from what was registered; any answers of the services; crashes after
   ANY effect of any entry point - store writes and service calls - followed by restarts from
   the last durable record; replays of any later event), starting from a swap that does not
   exist yet: relative to the last DURABLE record lp at each effect,
     - swap_out_request / swap_in_agreement of a Liquid protocol-7 swap is handed to the
       messenger only when lp has the anchor (StartingBlockHeightSet);
     - if lp is a Liquid protocol-7 record with an anchor, every store write carries the same
       anchor (set, same height) and is still a Liquid protocol-7 record;
     - a claim payment (RebalancePayment) of a Liquid swap is attempted only when lp has the anchor. *)
Theorem c13_anchor_before_pubkey_and_stable : forall dec t terminal id ty role peer init priv its,
  taker_table t ->
  let m0 := fresh_machine id ty role peer init priv in
  hist_ok tl_consts_gen dec t terminal (init_hstate m0) its = true ->
  trace_okb c13_spec_guard (m_data m0)
    (hs_trace (run_hist tl_consts_gen dec t terminal (init_hstate m0) its)) = true.
Proof. exact hist_c13_spec. Qed.
Print Assumptions c13_anchor_before_pubkey_and_stable.

(* the same for ANY state table that passes the reflective check and any initial machine that
   satisfies the invariant (default state: no anchor, nothing pending; a pending
   pubkey-revealing message of a Liquid protocol-7 swap comes with the anchor) *)
Theorem c13_any_checked_table : forall dec t terminal m0 its,
  tbl_ok t = true -> Inv tl_consts_gen m0 ->
  hist_ok tl_consts_gen dec t terminal (init_hstate m0) its = true ->
  trace_okb c13_spec_guard (m_data m0)
    (hs_trace (run_hist tl_consts_gen dec t terminal (init_hstate m0) its)) = true.
Proof. exact hist_c13_any_table. Qed.
Print Assumptions c13_any_checked_table.

(* what the trace predicate means, clause by clause *)

(* (1) stored BEFORE sent: at the moment the message leaves, the last durable record has the
   anchor, and that record was written by an earlier successful store write of the same trace *)
Theorem c13_sent_after_stored : forall d0 tr pre p m post,
  trace_okb c13_spec_guard d0 tr = true -> tr = (pre ++ ESend p m :: post)%list ->
  pubkey_msg m = true -> liquid7 (lp_end d0 pre) = true ->
  d_start_set (lp_end d0 pre) = true /\
  (liquid7 d0 = false -> exists s pre1 pre2, pre = (pre1 ++ EPersist s (lp_end d0 pre) true :: pre2)%list).
Proof. exact sent_after_stored. Qed.
Print Assumptions c13_sent_after_stored.

(* (2) never changed afterwards: any store write after a durable Liquid protocol-7 record with
   an anchor carries exactly that anchor, however many steps, crashes and restarts lie between *)
Theorem c13_anchor_never_changes : forall d0 tr a s1 d1 b s2 d2 ok c,
  trace_okb c13_spec_guard d0 tr = true ->
  tr = (a ++ EPersist s1 d1 true :: b ++ EPersist s2 d2 ok :: c)%list ->
  liquid7 d1 = true -> d_start_set d1 = true ->
  d_start_set d2 = true /\ d_start_height d2 = d_start_height d1.
Proof. exact anchor_never_changes. Qed.
Print Assumptions c13_anchor_never_changes.

(* (3) a swap without a stored anchor never pays *)
Theorem c13_no_payment_without_anchor : forall d0 tr pre payreq scid mx tip res post,
  trace_okb c13_spec_guard d0 tr = true -> tr = (pre ++ EPayClaim payreq scid mx tip res :: post)%list ->
  get_chain (lp_end d0 pre) = lbtc_chain -> d_start_set (lp_end d0 pre) = true.
Proof. exact no_payment_without_anchor. Qed.
Print Assumptions c13_no_payment_without_anchor.
