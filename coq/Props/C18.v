(* C18 — Event handling never deadlocks.
   Property theorems only; each is closed by [exact lemma].

   PARTIAL BY DESIGN (DESIGN.md sections 6 and 8).  What is proved is about the lock/access SKELETON of the code:
   per function the ordered list of lock operations (lock CLASSES: swap.SwapStateMachine.mutex, the watchers' and
   the subscriber's mutexes, policy.mu, ...), calls, synchronous callbacks (resolved through the generated binding
   tables) and goroutine starts, regenerated from the source on every run into Gen/Skel.v by a go/types walk of
   swap, policy, txwatcher, electrum, lwk and peersync.  The semantics ([step], Model/Skel.v) interleaves any number
   of threads started at the entry points, with non-reentrant mutexes.  The skeleton cannot exhibit blocking inside
   RPC clients, channel operations, sync.Cond / WaitGroup waits or time.Sleep (listed in the evidence); the run-time
   side is the deadlock harness (real SwapService + real watchers over a simulated chain, watchdog 5 s). *)
From Coq Require Import NArith Bool List.
From PS Require Import Model.Skel Model.C18Corr Proofs.C18.
Import ListNotations.

(* lock_order_sound, for ARBITRARY skeletons: if the held->acquired relation, closed through calls and synchronous
   callbacks ([A g] = locks a call of g may acquire), is strictly increasing for some ranking [rk] (so: acyclic, no
   self edge) and every function releases only what it acquired and returns with it released, then NO reachable
   configuration contains a non-empty set of threads each waiting for a lock owned by a member of the set
   (a thread waiting for a lock it owns itself included), for any number of threads started at any functions. *)
Theorem lock_order_sound :
  forall (sk : skeleton) (A : fname -> list lock) (rk : lock -> nat),
    lock_order_check (prog_of sk) A rk = true ->
    forall (ts : list fname) (c : config),
      reach (prog_of sk) (init (prog_of sk) ts) c -> ~ deadlocked c.
Proof. exact lock_order_sound_skel. Qed.
Print Assumptions lock_order_sound.

(* the same for programs given directly as op lists *)
Theorem lock_order_sound_programs :
  forall (p : prog) (A : fname -> list lock) (rk : lock -> nat),
    lock_order_check p A rk = true ->
    forall ts c, reach p (init p ts) c -> ~ deadlocked c.
Proof. exact lock_order_sound_prog. Qed.
Print Assumptions lock_order_sound_programs.

(* FULL statement for today's skeleton: no schedule reaches a deadlock configuration.  The lock-order check does NOT
   hold of the full skeleton: finding C18/1 - BlockchainRpcTxWatcher.AddWaitForCsvTx calls the CSV callback
   synchronously when the transaction is already past the CSV, under the swap mutex held by the event handler that
   registers it; the callback takes the same mutex (self edge swap.SwapStateMachine.mutex -> itself).  Confirmed on the
   real code by the deadlock harness; restated in Findings/F_C18_1.v. *)
Definition C18_full : Prop :=
  forall (ts : list fname) (c : config),
    reach c18_prog_full (init c18_prog_full ts) c -> ~ deadlocked c.

(* c18_current: the skeleton generated from the code as it is NOW decodes completely, the extractor met no construct
   it cannot flatten soundly (unbalanced branch, return with a lock held, write or call under RLock, goto, ...), and
   the lock-order check holds with the computed may-acquire sets and ranking on the skeleton MINUS exactly the call of
   the known finding (c18_known: the CallSlot csvPassedCallback inside BlockchainRpcTxWatcher.AddWaitForCsvTx).  Any
   other cycle or self edge - in particular a callback under a watcher lock, findings C18/2-3, repaired - is outside
   the exclusion and makes this theorem fail. *)
Theorem c18_current : c18_skeleton_ok = true.
Proof. exact c18_skeleton_ok_now. Qed.
Print Assumptions c18_current.

(* proved: no schedule of any number of threads over today's skeleton without that one call reaches a deadlock *)
Theorem c18_no_deadlock_except_known :
  forall (ts : list fname) (c : config),
    reach c18_prog (init c18_prog ts) c -> ~ deadlocked c.
Proof. exact c18_current_no_deadlock. Qed.
Print Assumptions c18_no_deadlock_except_known.

(* state-machine part of the second sentence, on the generated state tables: from the state in which a maker waits
   for the claim payment, a cancel, a failed cooperative close (coop_close received, spending fails) and an invalid
   message each lead to a state whose action registers the CSV watch (AwaitCsvAction); Event_OnCsvPassed leads from
   there to the state that builds the CSV spend (ClaimSwapTransactionWithCsv) and on success to State_ClaimedCsv;
   and the CSV event alone does the same from the waiting state.  Both maker tables. *)
Theorem c18_cancel_after_maturity_reaches_refund : c18_tables_ok = true.
Proof. exact c18_tables_ok_now. Qed.
Print Assumptions c18_cancel_after_maturity_reaches_refund.
