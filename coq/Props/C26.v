(* C26 — Peers that forced a CSV refund are quarantined.
   Property theorems only.

   Chain of the argument: (1) every step of a maker's state machine that brings the swap into
   State_ClaimedCsv calls Policy.AddToSuspiciousPeerList for the swap's peer (ESuspicious), and
   that state is entered only by the success of the CSV spend; (2) what the real policy does with
   that call (line in the policy file, IsPeerSuspicious afterwards and after a reload) is C25's
   subject and is observed end to end by harness/c26.go; (3) with IsPeerSuspicious true, a request of
   that peer fails admission and is cancelled; (4) peer-sync neither answers nor remembers the peer
   and the poller skips it (model of C28, Model/PeerSync.v).  The refusal of the node's own
   SwapOut/SwapIn RPC is a guard in SwapService outside the state-machine model: observed only. *)
From Coq Require Import String ZArith Bool List.
From PS Require Import Model.Data Model.Actions Model.Fsm Model.History Model.FsmCorr Model.C17Corr Model.C26Corr
  Model.PeerSync Gen.ConstsSwap Gen.Tables Proofs.C26.
Import ListNotations.
Open Scope Z_scope.

(* (1a) both maker tables of the code, every swap data, entry point and environment *)
Theorem c26_csv_refund_marks_peer : forall dec t,
  t = table_swap_out_receiver \/ t = table_swap_in_sender ->
  forall m i w o w' es,
    Fsm.step tl_consts_gen dec t terminal_states m i w = (o, w', es) ->
    m_cur (o_machine o) = c26_csv_state -> m_cur m <> c26_csv_state ->
    In (ESuspicious (d_peer (m_data m))) es.
Proof. exact gen_csv_refund_marks_peer. Qed.
Print Assumptions c26_csv_refund_marks_peer.

(* ... by a check that is sound for EVERY table: a state whose action tree has
   AddSuspiciousPeerAction on its spine *)
Theorem c26_marks_any_table : forall tc dec t terminal X a,
  state_tree26 t X = Some a -> spine_susp action_fuel a = true ->
  forall m i w o w' es,
    Fsm.step tc dec t terminal m i w = (o, w', es) ->
    m_cur (o_machine o) = X -> m_cur m <> X -> In (ESuspicious (d_peer (m_data m))) es.
Proof. exact step_marks. Qed.
Print Assumptions c26_marks_any_table.

(* (1b) the tables of the code: State_ClaimedCsv is entered only by Event_ActionSucceeded of a state
   whose action is the CSV spend; request admission is guarded and a failed admission cancels *)
Theorem c26_generated_tables :
  c26_marks table_swap_out_receiver = true /\ c26_marks table_swap_in_sender = true /\
  c26_marks table_swap_out_sender = true /\ c26_marks table_swap_in_receiver = true /\
  c26_entered_by_csv_spend table_swap_out_receiver = true /\ c26_entered_by_csv_spend table_swap_in_sender = true /\
  c26_entered_by_csv_spend table_swap_out_sender = true /\ c26_entered_by_csv_spend table_swap_in_receiver = true /\
  c26_admission_ok table_swap_out_receiver terminal_states "Event_OnSwapOutRequestReceived" = true /\
  c26_admission_ok table_swap_in_receiver terminal_states "Event_SwapInReceiver_OnRequestReceived" = true.
Proof. exact gen_tables_ok. Qed.
Print Assumptions c26_generated_tables.

(* (3) a swap request (either kind) of a peer the policy calls suspicious, store writes succeeding:
   the swap ends cancelled and removed, the peer gets a cancel message, and the only effects are
   store writes, the rejected-request log entry and that cancel message: no timer, no invoice, no
   agreement, no transaction *)
Theorem c26_quarantined_request_cancelled : forall dec t ev,
  (t = table_swap_out_receiver /\ ev = "Event_OnSwapOutRequestReceived"%string) \/
  (t = table_swap_in_receiver /\ ev = "Event_SwapInReceiver_OnRequestReceived"%string) ->
  forall m c d' w m' res w' es,
    m_cur m = ""%string -> validate_ctx (m_data m) c = true -> apply_ctx (m_data m) c = Some d' ->
    w_peer_suspicious w = true -> stores_ok w = true ->
    send_event tl_consts_gen dec t m ev (Some c) w = ((m', res), w', es) ->
    res = mkResult true ErrNone /\ is_finished terminal_states (m_cur m') = true /\
    existsb (is_cancel_to (d_peer (m_data m))) es = true /\ forallb harmless es = true.
Proof. exact gen_quarantined_request_cancelled. Qed.
Print Assumptions c26_quarantined_request_cancelled.

(* (4) peer-sync: a message of any type from a suspicious peer changes nothing in the store and is
   not answered; a poll round (forced or not) sends it nothing *)
Theorem c26_peersync_ignores_quarantined : forall now s p ty payload,
  mem p (s_susp s) = true ->
  let '(s', ms) := handle_message now s p ty payload in s_store s' = s_store s /\ ms = [].
Proof. exact ps_handle_quarantined. Qed.
Print Assumptions c26_peersync_ignores_quarantined.

Theorem c26_poller_skips_quarantined : forall now force s p,
  mem p (s_susp s) = true ->
  Forall (fun m : sent => fst (fst m) <> p) (snd (poll_peers now force s)).
Proof. exact ps_poller_quarantined. Qed.
Print Assumptions c26_poller_skips_quarantined.
