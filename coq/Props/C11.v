(* C11 — Incoming requests are admitted only when every policy condition holds. *)
From Coq Require Import String ZArith Bool List.
From PS Require Import Base.Wrap Model.Data Model.Actions Model.Fsm Model.History Model.Service
  Gen.Tables Gen.ConstsSwap Proofs.C09 Proofs.C10 Proofs.C11.
Import ListNotations.
Open Scope Z_scope.

(* An action tree guarded by CheckRequestWrapperAction returns ActionSucceeded (the only event
   that leads to the agreement-sending state) only if: new swaps enabled, the chain enabled,
   protocol version = the current one, amount*1000 (mod 2^64) >= the minimum, asset/network
   equal to the wallet's, requester allowlisted and not suspicious. *)
Theorem c11_wrapper_success_needs_conditions : forall tc dec fuel ch d w ev d' w' es,
  exec tc dec (S fuel) (ANode "CheckRequestWrapperAction" ch) d w = ((ev, d'), w', es) ->
  ev = Ev_Succeeded -> wrapper_conditions tc w d.
Proof. exact wrapper_success_needs_conditions. Qed.
Print Assumptions c11_wrapper_success_needs_conditions.

(* in all four generated tables every state that can create an agreement has that wrapper at its root *)
Theorem c11_agreements_only_under_wrapper :
  agreements_guarded table_swap_in_receiver = true /\ agreements_guarded table_swap_out_receiver = true /\
  agreements_guarded table_swap_in_sender = true /\ agreements_guarded table_swap_out_sender = true.
Proof. exact responder_tables_guarded. Qed.
Print Assumptions c11_agreements_only_under_wrapper.

(* the version the wrapper demands is 7 *)
Theorem c11_version_is_7 : tc_current_version tl_consts_gen = 7.
Proof. reflexivity. Qed.
Print Assumptions c11_version_is_7.

(* a swap-out responder agrees only with on-chain balance >= amount + opening fee (mod 2^64) *)
Theorem c11_swap_out_needs_balance : forall tc d w ev d' w' es,
  act_create_swap_out_from_request tc d w = ((ev, d'), w', es) -> ev = Ev_Succeeded ->
  exists fee bal, bal >= u64_add (get_amount d) fee /\ d_out_agr d' <> None.
Proof. exact swap_out_needs_balance. Qed.
Print Assumptions c11_swap_out_needs_balance.

(* service-level pre-checks: an agreement can only come out of a request that passed them
   (unknown id, premium <= limit, spendable / receivable >= amount*1000 mod 2^64, probe ok, channel free) *)
Theorem c11_in_request_prechecks : forall tc decode t_os t_or t_is t_ir terminal n sender r sw n' es res,
  on_in_request tc decode t_os t_or t_is t_ir terminal n sender r sw = (n', es, res) ->
  (exists p a, In (ESend p (MInAgr a)) es) -> in_prechecks n r sw.
Proof. exact in_request_reaches_machine_only_if. Qed.
Print Assumptions c11_in_request_prechecks.

Theorem c11_out_request_prechecks : forall tc decode t_os t_or t_is t_ir terminal n sender r sw n' es res,
  on_out_request tc decode t_os t_or t_is t_ir terminal n sender r sw = (n', es, res) ->
  (exists p a, In (ESend p (MOutAgr a)) es) -> out_prechecks n r sw.
Proof. exact out_request_reaches_machine_only_if. Qed.
Print Assumptions c11_out_request_prechecks.

(* the capacity and minimum comparisons are made on amount*1000 mod 2^64; this is the integer
   comparison exactly for amounts below 18446744073709552 sat (known finding c11:amount-times-1000-wraps above) *)
Theorem c11_capacity_comparison_exact_below_wrap : forall amount cap,
  0 <= amount < 18446744073709552 -> (u64_mul amount 1000 <= cap <-> amount * 1000 <= cap).
Proof. exact capacity_no_wrap. Qed.
Print Assumptions c11_capacity_comparison_exact_below_wrap.
