(* C08 — The opening_tx_broadcasted message describes the broadcast transaction exactly.
   Property theorems only; each is closed by [exact lemma].

   Objects.  [act_create_and_broadcast_opening] is the shared model
   (Model/Actions.v) of swap/actions.go CreateAndBroadcastOpeningTransaction in
   the effect monad: [EMkInvoice kind msat preimage expiry cltv] is the call of
   lightning.GetPayreq, [EBroadcastOpening taker maker hash amount csv blinding res]
   the call of wallet.CreateOpeningTransaction with its result [res] = (hex,
   txid, vout).  [btc_create_opening backend ...] models CreateOpeningTransaction
   of the CLN (0) / LND (1) wallet adapters over GetVoutAndVerify,
   [lbtc_create_opening] the one of LiquidOnChain (Model/OpeningTx.v).  The
   wallet's funding result is an arbitrary transaction (id, output list in any
   order, any number of inputs); [funds_request amount want outs] says only
   that SOME output pays [amount] to the P2WSH script [want] of the opening
   script ([lfunds_request]: some output has that script).  Liquid outputs carry
   the answers of unblinding with the swap's blinding key
   ([lbtc_validate_output o amount = Some amount]: unblinds to [amount] of the
   policy asset with a consistent asset commitment). *)
From Coq Require Import String ZArith NArith Bool List.
From RecordUpdate Require Import RecordSet.
From PS Require Import Base.Corr Base.Wrap Base.ScriptOps Model.ScriptInterp Model.OpeningScript
  Gen.ConstsC03 Gen.ConstsC08 Gen.ConstsSwap Model.Tx Model.OpeningTx Proofs.C03 Proofs.C08
  Model.Data Model.Actions.
Import ListNotations RecordSetNotations.
Open Scope Z_scope.

(* The message: whenever the action stores an opening_tx_broadcasted message, it asked the
   Lightning node for ONE invoice of u64(claim amount * 1000) msat on the fresh preimage with the
   chain's expiry and final CLTV, asked the wallet ONCE for an opening transaction of the opening
   amount locking the hash of that preimage, and the message carries exactly the wallet's txid and
   output index, the invoice the node answered, and (Liquid) the swap's blinding key; it is the
   next message to be sent. *)
Theorem c08_message_carries_wallet_result_and_invoice : forall tc d w ev d' w' es,
  act_create_and_broadcast_opening tc d w = ((ev, d'), w', es) ->
  d_otb d = None ->
  forall msg, d_otb d' = Some msg ->
  exists pre hash payreq claim amt pol o,
    let d1 := d <| d_claim_preimage := pre |> in
    let lb := String.eqb (get_chain d1) lbtc_chain in
    timelock_policy tc d1 = Some pol /\
    get_claim_amount d1 = Some claim /\ get_opening_amount d1 = Some amt /\
    es = [EMkInvoice PKClaim (u64_mul claim 1000) pre (invoice_expiry d1) (invoice_cltv tc d1);
          EBroadcastOpening (get_taker_pubkey d1) (get_maker_pubkey d1) hash amt (p_csv pol) lb (Some o)] /\
    msg = mkOtb (match get_id d1 with Some i => i | None => EmptyString end) payreq
                (or_txid o) (or_vout o) (if lb then blinding_of d1 else EmptyString) /\
    d_next_msg d' = Some (MOtb msg) /\ ev = Ev_Succeeded.
Proof. exact otb_message_describes_results. Qed.
Print Assumptions c08_message_carries_wallet_result_and_invoice.

(* expiry 24h / 1h and final CLTV 503 / 29 for Bitcoin / Liquid, for the timelock constants
   regenerated from the code *)
Theorem c08_invoice_expiry_and_cltv : forall d pol,
  timelock_policy tl_consts_gen d = Some pol ->
  (String.eqb (get_chain d) btc_chain = true ->
     invoice_expiry d = 86400 /\ invoice_cltv tl_consts_gen d = 503) /\
  (String.eqb (get_chain d) lbtc_chain = true ->
     invoice_expiry d = 3600 /\ invoice_cltv tl_consts_gen d = 29).
Proof. exact invoice_constants. Qed.
Print Assumptions c08_invoice_expiry_and_cltv.

(* ... and as evaluated by the running code (GetInvoiceExpiry / GetInvoiceCltv on real swap data) *)
Theorem c08_generated_invoice_constants :
  gen_invoice_expiry_btc_v6 = 86400 /\ gen_invoice_cltv_btc_v6 = 503 /\
  gen_invoice_expiry_btc_v7 = 86400 /\ gen_invoice_cltv_btc_v7 = 503 /\
  gen_invoice_expiry_lbtc_v6 = 3600 /\ gen_invoice_cltv_lbtc_v6 = 29 /\
  gen_invoice_expiry_lbtc_v7 = 3600 /\ gen_invoice_cltv_lbtc_v7 = 29.
Proof. exact gen_c08_constants. Qed.
Print Assumptions c08_generated_invoice_constants.

(* "for exactly the claim amount": no uint64 wrap below 2^64 / 1000 sat *)
Theorem c08_invoice_amount_exact : forall claim,
  0 <= claim -> claim * 1000 < two64 -> u64_mul claim 1000 = claim * 1000.
Proof. exact invoice_amount_exact. Qed.
Print Assumptions c08_invoice_amount_exact.

(* Bitcoin, both back-ends: for EVERY funded transaction (any output order, any number of
   outputs and inputs, change of any amount, also equal to the swap amount, anywhere) that
   contains the requested output, the adapter reports the id of the transaction it hands over
   for broadcast and an index whose output carries the swap amount under the swap script *)
Theorem c08_bitcoin_txid_and_index : forall backend p want txid outs in_sum redeem,
  redeem_script p gen_onchain_bitcoin_csv_c03 = Some redeem ->
  0 <= sp_amount p < two63 ->
  funds_request (sp_amount p) want outs ->
  exists vout o,
    btc_create_opening backend p want (Some (txid, outs)) in_sum false
      = mk_or 0 txid vout (u64 (i64 (in_sum - i64 (sum_values outs)))) [(txid, outs)] /\
    nth_z outs vout = Some o /\ o_value o = sp_amount p /\ o_script o = want.
Proof. exact btc_create_opening_ok. Qed.
Print Assumptions c08_bitcoin_txid_and_index.

(* nothing is reported without broadcast and nothing broadcast without report *)
Theorem c08_bitcoin_failure_broadcasts_nothing : forall backend p want funded in_sum bf,
  op_result (btc_create_opening backend p want funded in_sum bf) <> 0%N ->
  op_bcast (btc_create_opening backend p want funded in_sum bf) = [].
Proof. exact btc_create_opening_fail_silent. Qed.
Print Assumptions c08_bitcoin_failure_broadcasts_nothing.

(* Liquid: txid of the wallet's transaction and the index of its (first) output with the swap script *)
Theorem c08_liquid_txid_and_index : forall p csv want txid outs fee redeem,
  redeem_script p csv = Some redeem ->
  lfunds_request want outs ->
  exists vout o,
    lbtc_create_opening p csv want (Some (txid, outs, fee)) = mk_lor 0 txid vout fee /\
    nth_z outs vout = Some o /\ lo_script o = want /\
    (forall j o', 0 <= j < vout -> nth_z outs j = Some o' -> lo_script o' <> want).
Proof. exact lbtc_create_opening_ok. Qed.
Print Assumptions c08_liquid_txid_and_index.

(* Liquid: the output at the reported index is the one the swap's blinding key (the key sent in
   the message) unblinds to the swap amount of the policy asset, whenever the wallet's transaction
   would pass the taker's validation *)
Theorem c08_liquid_blinding_key_unblinds_reported_output : forall p csv want txid outs fee redeem,
  redeem_script p csv = Some redeem ->
  lbtc_validate p csv want outs = true ->
  exists vout o,
    lbtc_create_opening p csv want (Some (txid, outs, fee)) = mk_lor 0 txid vout fee /\
    nth_z outs vout = Some o /\ lo_script o = want /\
    lbtc_validate_output o (sp_amount p) = Some (sp_amount p).
Proof. exact lbtc_reported_output_unblinds. Qed.
Print Assumptions c08_liquid_blinding_key_unblinds_reported_output.

(* The full statements about the index, parameterised by the implementation.  Both were FALSE of
   the code as found (coq/Findings/F_C08_1.v, F_C08_2.v prove the refutations for the models of
   the unrepaired functions); they hold of the repaired code: *)
Theorem c08_bitcoin_full : C08_bitcoin_full btc_get_vout.
Proof. exact bitcoin_full_holds. Qed.
Print Assumptions c08_bitcoin_full.

Theorem c08_liquid_full : C08_liquid_full lbtc_create_opening.
Proof. exact liquid_full_holds. Qed.
Print Assumptions c08_liquid_full.

(* the hypotheses are satisfiable *)
Theorem c08_hypotheses_satisfiable :
  (funds_request 100000 ex_want ex_outs /\
   op_result (btc_create_opening 0 ex_params ex_want (Some ("txid"%string, ex_outs)) 106000 false) = 0%N /\
   op_vout (btc_create_opening 0 ex_params ex_want (Some ("txid"%string, ex_outs)) 106000 false) = 1) /\
  (lfunds_request ex_want ex_louts /\
   lop_vout (lbtc_create_opening ex_params 10080 ex_want (Some ("txid"%string, ex_louts, 300))) = 1).
Proof. exact (conj ex_btc_open ex_lbtc_open). Qed.
Print Assumptions c08_hypotheses_satisfiable.
