(* C08 / C17, invoice side: the adapters' GetPayreq asks the node for exactly the invoice the swap asked for.  The
   model is the identity on (amount in msat, expiry in seconds, final CLTV delta) with the given preimage; the monitor
   states the same on the observed node request, so that an adapter that clamps, defaults or drops one of the values
   is a concrete violation (the protocol's numbers: claim invoices 86400 s / 503 on Bitcoin, 3600 s / 29 on Liquid;
   fee invoice 600 s). *)
From Coq Require Import ZArith NArith Bool List.
From PS Require Import Base.Corr.
Import ListNotations.
Open Scope Z_scope.

Record inv_case := mkInv {
  iv_backend : N;                         (* 0 CLN, 1 LND *)
  iv_msat : Z; iv_expiry : Z; iv_cltv : Z;          (* what the swap asked for *)
  iv_asked : option (Z * Z * Z * bool)    (* what the node was asked to create: msat, expiry, cltv, preimage is the given one *) }.

Definition inv_model (msat expiry cltv : Z) : option (Z * Z * Z * bool) := Some (msat, expiry, cltv, true).

Definition asked_eqb (a b : option (Z * Z * Z * bool)) : bool :=
  match a, b with
  | Some (m, e, c, p), Some (m', e', c', p') => (m =? m') && (e =? e') && (c =? c') && Bool.eqb p p'
  | None, None => true
  | _, _ => false
  end.

Definition inv_check (c : inv_case) : bool :=
  asked_eqb (inv_model (iv_msat c) (iv_expiry c) (iv_cltv c)) (iv_asked c).

Definition inv_monitor (c : inv_case) : bool :=
  match iv_asked c with
  | Some (m, e, cl, p) => (m =? iv_msat c) && (e =? iv_expiry c) && (cl =? iv_cltv c) && p
  | None => false
  end.
