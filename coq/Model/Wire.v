(* C21 — executable model of the wire layer:
   messages/types.go   PeerswapCustomMessageType / MessageTypeToHexString
   swap/messages.go    MarshalPeerswapMessage (encoding/json over the message structs)
   swap/service.go     OnMessageReceived: size guard, type parse, json.Unmarshal, nil guard, dispatch
   encoding/json is modelled on the parsed value tree (Base/Json.v); bytes <-> tree is trusted.
   No proofs here. *)
From Coq Require Import String Ascii ZArith Bool DecimalString List.
From PS Require Import Base.Strs Base.Json.
Import ListNotations.
Open Scope Z_scope.

(* ---------- strconv.ParseInt(s, 16, 64) *)
Definition hex_val (c : ascii) : option Z :=
  let n := Z.of_N (N_of_ascii c) in
  if (48 <=? n) && (n <=? 57) then Some (n - 48)
  else if (97 <=? n) && (n <=? 102) then Some (n - 87)
  else if (65 <=? n) && (n <=? 70) then Some (n - 55)
  else None.

Fixpoint hex_digits (s : string) (acc : Z) : option Z :=
  match s with
  | EmptyString => Some acc
  | String c r => match hex_val c with Some d => hex_digits r (acc * 16 + d) | None => None end
  end.

Definition parse_int16 (s : string) : option Z :=
  let '(neg, body) :=
    match s with
    | String c r => if Ascii.eqb c "+"%char then (false, r) else if Ascii.eqb c "-"%char then (true, r) else (false, s)
    | EmptyString => (false, s)
    end in
  match body with
  | EmptyString => None
  | _ =>
      match hex_digits body 0 with
      | None => None
      | Some v => if neg then (if v <=? 2^63 then Some (- v) else None)
                  else (if v <? 2^63 then Some v else None)
      end
  end.

(* strconv.FormatInt(v, 16) *)
Definition hex_char (d : Z) : ascii :=
  ascii_of_N (Z.to_N (if d <? 10 then 48 + d else 87 + d)).
Fixpoint hex_of_pos_fuel (fuel : nat) (v : Z) (acc : string) : string :=
  match fuel with
  | O => acc
  | S f => let acc' := String (hex_char (v mod 16)) acc in
           if v / 16 =? 0 then acc' else hex_of_pos_fuel f (v / 16) acc'
  end.
Definition hex_of_Z (v : Z) : string :=
  if v <? 0 then String "-"%char (hex_of_pos_fuel 17 (- v) EmptyString) else hex_of_pos_fuel 17 v EmptyString.

(* messages.PeerswapCustomMessageType *)
Inductive type_result := TErr | TNotPeerswap | TOk (t : Z).

Definition custom_type (table : list (string * Z)) (s : string) : type_result :=
  match parse_int16 s with
  | None => TErr
  | Some v => if existsb (Z.eqb v) (map snd table) then TOk v else TNotPeerswap
  end.

(* ---------- message values, generic over the generated schemas *)
Inductive fval := VNum (z : Z) | VStr (s : string) | VId (o : option string).
Definition msg := list fval.

Definition zero_val (k : fkind) : fval :=
  match k with
  | KUint _ | KInt _ => VNum 0
  | KString | KOther _ => VStr ""
  | KHex32Ptr => VId None
  end.

Definition is_lower_hex (c : ascii) : bool :=
  let n := N_of_ascii c in ((48 <=? n)%N && (n <=? 57)%N) || ((97 <=? n)%N && (n <=? 102)%N).
Definition is_hex (c : ascii) : bool :=
  match hex_val c with Some _ => true | None => false end.
Definition lower_hex (c : ascii) : ascii :=
  let n := N_of_ascii c in if ((65 <=? n)%N && (n <=? 70)%N) then ascii_of_N (n + 32) else c.
Fixpoint str_forall (p : ascii -> bool) (s : string) : bool :=
  match s with EmptyString => true | String c r => p c && str_forall p r end.
Fixpoint str_map (f : ascii -> ascii) (s : string) : string :=
  match s with EmptyString => EmptyString | String c r => String (f c) (str_map f r) end.

Definition well_typed_val (k : fkind) (v : fval) : bool :=
  match k, v with
  | KUint b, VNum z => (0 <=? z) && (z <? 2 ^ b)
  | KInt b, VNum z => (- 2 ^ (b - 1) <=? z) && (z <? 2 ^ (b - 1))
  | KString, VStr _ => true
  | KHex32Ptr, VId None => true
  | KHex32Ptr, VId (Some h) => (Nat.eqb (String.length h) 64) && str_forall is_lower_hex h
  | _, _ => false
  end.

Fixpoint well_typed (sch : schema) (m : msg) : bool :=
  match sch, m with
  | [], [] => true
  | f :: sch', v :: m' => well_typed_val (f_kind f) v && well_typed sch' m'
  | _, _ => false
  end.

(* ---------- json.Marshal of a message struct (no tag options in these structs) *)
Definition enc_val (v : fval) : jv :=
  match v with
  | VNum z => JNum (dec_of_Z z)
  | VStr s => JStr s
  | VId None => JNull
  | VId (Some h) => JStr h
  end.

Fixpoint encode_fields (sch : schema) (m : msg) : list (string * jv) :=
  match sch, m with
  | f :: sch', v :: m' => (f_name f, enc_val v) :: encode_fields sch' m'
  | _, _ => []
  end.
Definition encode (sch : schema) (m : msg) : jv := JObj (encode_fields sch m).

(* ---------- json.Unmarshal into *T *)
(* integer literal of a JSON number as strconv.ParseUint / ParseInt read it *)
Definition parse_uint_lit (lit : string) : option Z :=
  match NilZero.uint_of_string lit with Some u => Some (Z.of_uint u) | None => None end.
Definition parse_int_lit (lit : string) : option Z :=
  match NilZero.int_of_string lit with Some i => Some (Z.of_int i) | None => None end.

(* None = the decoder reports an error *)
Definition dec_val (k : fkind) (cur : fval) (j : jv) : option fval :=
  match k with
  | KUint b =>
      match j with
      | JNull => Some cur
      | JNum lit => match parse_uint_lit lit with
                    | Some z => if (z <? 2 ^ 64) && (z <? 2 ^ b) then Some (VNum z) else None
                    | None => None
                    end
      | _ => None
      end
  | KInt b =>
      match j with
      | JNull => Some cur
      | JNum lit => match parse_int_lit lit with
                    | Some z => if (- 2 ^ 63 <=? z) && (z <? 2 ^ 63) && (- 2 ^ (b - 1) <=? z) && (z <? 2 ^ (b - 1))
                                then Some (VNum z) else None
                    | None => None
                    end
      | _ => None
      end
  | KString =>
      match j with
      | JNull => Some cur
      | JStr s => Some (VStr s)
      | _ => None
      end
  | KHex32Ptr =>
      match j with
      | JNull => Some (VId None)
      | JStr s => if Nat.eqb (String.length s) 64 && str_forall is_hex s
                  then Some (VId (Some (str_map lower_hex s))) else None
      | _ => None
      end
  | KOther _ => None
  end.

(* encoding/json key folding, for ASCII field names: ASCII letters upper-cased; the two non-ASCII runes
   that fold to ASCII letters: U+017F (C5 BF) -> S, U+212A (E2 84 AA) -> K *)
Fixpoint fold_key (s : string) : string :=
  match s with
  | EmptyString => EmptyString
  | String c r =>
      let n := N_of_ascii c in
      if ((97 <=? n)%N && (n <=? 122)%N) then String (ascii_of_N (n - 32)) (fold_key r)
      else
        match r with
        | String c2 r2 =>
            if (n =? 197)%N && (N_of_ascii c2 =? 191)%N then String "S"%char (fold_key r2)
            else
              match r2 with
              | String c3 r3 =>
                  if (n =? 226)%N && (N_of_ascii c2 =? 132)%N && (N_of_ascii c3 =? 170)%N
                  then String "K"%char (fold_key r3)
                  else String c (fold_key r)
              | EmptyString => String c (fold_key r)
              end
        | EmptyString => String c (fold_key r)
        end
  end.

(* one object member applied to the struct being filled; None = error *)
Fixpoint apply_key (sch : schema) (st : msg) (k : string) (j : jv) : option msg :=
  match sch, st with
  | f :: sch', v :: st' =>
      if String.eqb (fold_key (f_name f)) (fold_key k)
      then match dec_val (f_kind f) v j with Some v' => Some (v' :: st') | None => None end
      else match apply_key sch' st' k j with Some r => Some (v :: r) | None => None end
  | _, _ => Some st
  end.

Fixpoint apply_members (sch : schema) (st : msg) (kvs : list (string * jv)) : option msg :=
  match kvs with
  | [] => Some st
  | (k, j) :: r => match apply_key sch st k j with Some st' => apply_members sch st' r | None => None end
  end.

Inductive dres := DErr | DNil | DMsg (m : msg).

Definition decode (sch : schema) (j : jv) : dres :=
  match j with
  | JNull => DNil
  | JObj kvs => match apply_members sch (map (fun f => zero_val (f_kind f)) sch) kvs with
                | Some m => DMsg m
                | None => DErr
                end
  | _ => DErr
  end.

(* the schema is one this model covers: plain tags, known kinds, names distinct after folding *)
Fixpoint nodup_str (l : list string) : bool :=
  match l with
  | [] => true
  | x :: r => negb (existsb (String.eqb x) r) && nodup_str r
  end.
Definition kind_supported (k : fkind) : bool :=
  match k with
  | KUint b => (0 <? b) && (b <=? 64)
  | KInt b => (0 <? b) && (b <=? 64)
  | KString | KHex32Ptr => true
  | KOther _ => false
  end.
Definition schema_ok (sch : schema) : bool :=
  forallb (fun f => kind_supported (f_kind f) && negb (f_tagopts f)) sch &&
  nodup_str (map (fun f => fold_key (f_name f)) sch).

(* ---------- SwapService.OnMessageReceived up to the dispatch *)
Inductive outcome :=
| ODropNil                      (* returns nil, nothing done *)
| ODropErr                      (* returns an error, nothing done *)
| ODispatch (t : Z) (m : msg)   (* handed to the per-type handler *)
| OPanic.                       (* nil dereference (code before the fix) *)

Fixpoint lookup_schema (t : Z) (schemas : list (string * (Z * schema))) : option schema :=
  match schemas with
  | [] => None
  | (_, (t', sch)) :: r => if t =? t' then Some sch else lookup_schema t r
  end.

(* every id pointer of the decoded message is set (the structs have exactly one: swap_id) *)
Fixpoint ids_present (sch : schema) (m : msg) : bool :=
  match sch, m with
  | f :: sch', v :: m' =>
      match f_kind f, v with
      | KHex32Ptr, VId None => false
      | _, _ => ids_present sch' m'
      end
  | _, _ => true
  end.

(* [guard] = true: the code rejects a nil message and a message without swap id right after
   json.Unmarshal (code after the fix); false: the code before the fix *)
Definition on_message (guard : bool) (max_len : Z) (table : list (string * Z))
  (schemas : list (string * (Z * schema)))
  (ty : string) (len : Z) (payload : option jv) : outcome :=
  if max_len <? len then ODropErr
  else
    match custom_type table ty with
    | TErr => ODropErr
    | TNotPeerswap => ODropNil
    | TOk t =>
        match lookup_schema t schemas with
        | None => ODropNil                  (* default: poll / request_poll are not handled here *)
        | Some sch =>
            match payload with
            | None => ODropErr              (* bytes are not valid JSON *)
            | Some j =>
                match decode sch j with
                | DErr => ODropErr
                | DNil => if guard then ODropErr else OPanic
                | DMsg m => if guard && negb (ids_present sch m) then ODropErr else ODispatch t m
                end
            end
        end
    end.

(* effect on the node: only a dispatched message reaches a handler *)
Definition step {S : Type} (handle : S -> Z -> msg -> S) (st : S) (o : outcome) : S :=
  match o with ODispatch t m => handle st t m | _ => st end.
