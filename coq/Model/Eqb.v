(* Boolean equalities for the data of the swap model (used only by the
   correspondence checks). *)
From Coq Require Import String ZArith Bool List.
From PS Require Import Base.Corr Model.Data Model.Actions Model.Fsm.
Import ListNotations.
Open Scope Z_scope.

Definition seq := String.eqb.

Definition req_eqb (a b : req) : bool :=
  (rq_version a =? rq_version b) && seq (rq_id a) (rq_id b) && seq (rq_network a) (rq_network b)
  && seq (rq_asset a) (rq_asset b) && seq (rq_scid a) (rq_scid b) && (rq_amount a =? rq_amount b)
  && seq (rq_pubkey a) (rq_pubkey b) && (rq_limit a =? rq_limit b).
Definition in_agr_eqb (a b : in_agr) : bool :=
  (ia_version a =? ia_version b) && seq (ia_id a) (ia_id b) && seq (ia_pubkey a) (ia_pubkey b)
  && (ia_premium a =? ia_premium b).
Definition out_agr_eqb (a b : out_agr) : bool :=
  (oa_version a =? oa_version b) && seq (oa_id a) (oa_id b) && seq (oa_pubkey a) (oa_pubkey b)
  && seq (oa_payreq a) (oa_payreq b) && (oa_premium a =? oa_premium b).
Definition otb_eqb (a b : otb) : bool :=
  seq (ob_id a) (ob_id b) && seq (ob_payreq a) (ob_payreq b) && seq (ob_txid a) (ob_txid b)
  && (ob_vout a =? ob_vout b) && seq (ob_blinding a) (ob_blinding b).
Definition coop_eqb (a b : coop) : bool :=
  seq (cc_id a) (cc_id b) && seq (cc_message a) (cc_message b) && seq (cc_privkey a) (cc_privkey b).
Definition cancel_eqb (a b : cancel) : bool := seq (cn_id a) (cn_id b) && seq (cn_message a) (cn_message b).

Definition wire_eqb (a b : wire_msg) : bool :=
  match a, b with
  | MInReq x, MInReq y | MOutReq x, MOutReq y => req_eqb x y
  | MInAgr x, MInAgr y => in_agr_eqb x y
  | MOutAgr x, MOutAgr y => out_agr_eqb x y
  | MOtb x, MOtb y => otb_eqb x y
  | MCoop x, MCoop y => coop_eqb x y
  | MCancel x, MCancel y => cancel_eqb x y
  | _, _ => false
  end.

Definition data_eqb (a b : swap_data) : bool :=
  opt_eqb req_eqb (d_in_req a) (d_in_req b) && opt_eqb in_agr_eqb (d_in_agr a) (d_in_agr b)
  && opt_eqb req_eqb (d_out_req a) (d_out_req b) && opt_eqb out_agr_eqb (d_out_agr a) (d_out_agr b)
  && opt_eqb otb_eqb (d_otb a) (d_otb b) && opt_eqb coop_eqb (d_coop a) (d_coop b)
  && opt_eqb cancel_eqb (d_cancel a) (d_cancel b)
  && seq (d_peer a) (d_peer b) && seq (d_initiator a) (d_initiator b) && seq (d_privkey a) (d_privkey b)
  && seq (d_fee_preimage a) (d_fee_preimage b) && (d_opening_fee a =? d_opening_fee b)
  && seq (d_opening_hex a) (d_opening_hex b) && (d_start_height a =? d_start_height b)
  && Bool.eqb (d_start_set a) (d_start_set b) && seq (d_claim_txid a) (d_claim_txid b)
  && seq (d_claim_hash a) (d_claim_hash b) && seq (d_claim_preimage a) (d_claim_preimage b)
  && seq (d_blinding_hex a) (d_blinding_hex b) && opt_eqb wire_eqb (d_next_msg a) (d_next_msg b)
  && seq (d_fsm_state a) (d_fsm_state b).

Definition machine_eqb (a b : machine) : bool :=
  seq (m_id a) (m_id b) && (m_type a =? m_type b) && (m_role a =? m_role b)
  && seq (m_cur a) (m_cur b) && seq (m_prev a) (m_prev b) && data_eqb (m_data a) (m_data b)
  && (m_retries a =? m_retries b).

Definition opening_eqb (a b : opening_result) : bool :=
  seq (or_hex a) (or_hex b) && seq (or_txid a) (or_txid b) && (or_vout a =? or_vout b).

Definition pay_kind_eqb (a b : pay_kind) : bool :=
  match a, b with PKClaim, PKClaim | PKFee, PKFee => true | _, _ => false end.
Definition spend_kind_eqb (a b : spend_kind) : bool :=
  match a, b with SKPreimage, SKPreimage | SKCsv, SKCsv | SKCoop, SKCoop => true | _, _ => false end.

Definition effect_eqb (a b : effect) : bool :=
  match a, b with
  | EPersist s d k, EPersist s' d' k' => seq s s' && data_eqb d d' && Bool.eqb k k'
  | ESend p m, ESend p' m' => seq p p' && wire_eqb m m'
  | ERetransStart, ERetransStart | ERetransStop, ERetransStop | EArmTimer, EArmTimer
  | ERequestedSwapLog, ERequestedSwapLog => true
  | EPayFee p s r, EPayFee p' s' r' => seq p p' && seq s s' && opt_eqb seq r r'
  | EPayClaim p s m t r, EPayClaim p' s' m' t' r' => seq p p' && seq s s' && (m =? m') && (t =? t') && opt_eqb seq r r'
  | ERecoverPay p r, ERecoverPay p' r' => seq p p' && opt_eqb seq r r'
  | EValidate t m h a c b x r, EValidate t' m' h' a' c' b' x' r' =>
      seq t t' && seq m m' && seq h h' && (a =? a') && (c =? c') && seq b b' && seq x x' && opt_eqb Bool.eqb r r'
  | EMkInvoice k m p e c, EMkInvoice k' m' p' e' c' =>
      pay_kind_eqb k k' && (m =? m') && seq p p' && (e =? e') && (c =? c')
  | EBroadcastOpening t m h a c b r, EBroadcastOpening t' m' h' a' c' b' r' =>
      seq t t' && seq m m' && seq h h' && (a =? a') && (c =? c') && Bool.eqb b b' && opt_eqb opening_eqb r r'
  | EBroadcastSpend k r, EBroadcastSpend k' r' => spend_kind_eqb k k' && opt_eqb seq r r'
  | EWatchConf t v s w, EWatchConf t' v' s' w' => seq t t' && (v =? v') && (s =? s') && (w =? w')
  | EWatchCsv t v s w, EWatchCsv t' v' s' w' => seq t t' && (v =? v') && (s =? s') && (w =? w')
  | ENotifier p k, ENotifier p' k' => seq p p' && pay_kind_eqb k k'
  | ESuspicious p, ESuspicious p' => seq p p'
  | _, _ => false
  end.
