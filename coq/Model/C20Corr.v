(* Correspondence / monitor functions for C20 (evaluated on harness cases). *)
From Coq Require Import ZArith Bool List.
From PS Require Import Base.Corr Model.RpcWatcher Model.ElectrumWatcher Gen.ConstsWatcher.
Import ListNotations.
Open Scope Z_scope.

(* ground truth of the simulated chain at the moment the step's queries were answered *)
Record truth := mkTruth {
  t_height : Z;            (* tip height of the best chain *)
  t_tx : option Z          (* height of the block of the best chain that holds the tx *)
}.

(* one electrum header step: header (None = nil header), true tip of the server's chain,
   per registration: answers + true height of the watched tx (0 = not in the chain) *)
Inductive c20_estep :=
| XHeader (hdr : option Z) (t_tip : Z) (answers : list (eans * Z))
| XRegister (r : ereg).

Inductive c20_case :=
(* RPC watcher, opening tx: requiredConfs, startingHeight, safetyLimit/paymentWindow, answer of the
   kick-off GetBlockHeight, steps = (notified height, RPC view, truth); observed callbacks per step
   (fed until the loop returned) and whether the loop is still running at the end *)
| CRpcConf (req start limit : Z) (kick : option Z) (steps : list (Z * view * option truth))
           (obs : list (list step_out)) (running : bool)
(* RPC watcher, CSV: csv, gettxout answer / callback failure / true confirmations at
   AddWaitForCsvTx and at each HandleCsvTx; observed per operation: number of callbacks, still
   in csvtxWatchList *)
| CRpcCsv (csv : Z) (ops : list (txout_ans * bool * Z)) (obs : list (nat * bool))
(* Electrum watcher: registrations before StartWatchingTxs, first header step, later steps;
   observed: start ok, per step events and GetBlockHeight *)
| CElec (regs : list ereg) (steps : list c20_estep) (start_ok : bool)
        (obs : list (list eev * option Z)).

(* ---------- model == observed ---------- *)

Definition step_out_eqb (a b : step_out) : bool :=
  match a, b with
  | SContinue, SContinue => true
  | SCbErr, SCbErr => true
  | SCbOk x, SCbOk y => x =? y
  | _, _ => false
  end.

Definition out_as_list (o : step_out) : list step_out :=
  match o with SContinue => [] | _ => [o] end.

Definition rpc_steps (kick : option Z) (steps : list (Z * view * option truth)) : list (Z * view) :=
  match steps with
  | [] => []
  | (_, v, _) :: r => (kick_height kick, v) :: map (fun s => (fst (fst s), snd (fst s))) r
  end.

Definition eev_eqb (a b : eev) : bool :=
  match a, b with
  | EvConfOk s r, EvConfOk s' r' => (s =? s') && (r =? r')
  | EvConfErr s, EvConfErr s' => s =? s'
  | EvCsv s, EvCsv s' => s =? s'
  | _, _ => false
  end.

Definition strip_step (s : c20_estep) : estep :=
  match s with
  | XHeader h _ a => EHeader h (map fst a)
  | XRegister r => ERegister r
  end.

Definition elec_model (regs : list ereg) (steps : list c20_estep)
  : bool * list (list eev * option Z) :=
  match steps with
  | XHeader h _ a :: rest =>
      let '(ok, s, evs) := ew_start liquid_confs regs h (map fst a) in
      if ok then (true, (evs, ew_get_block_height s) :: ew_steps liquid_confs s (map strip_step rest))
      else (false, [])
  | _ => (false, [])
  end.

Definition c20_check (c : c20_case) : bool :=
  match c with
  | CRpcConf req start limit kick steps obs running =>
      let m := run_loop req start limit 0 (rpc_steps kick steps) in
      list_eqb (list_eqb step_out_eqb) (map out_as_list m) obs
      && Bool.eqb running (negb (existsb is_cb m))
  | CRpcCsv csv ops obs =>
      match ops with
      | [] => false
      | (a0, f0, _) :: r =>
          let m := csv_run csv a0 f0 (map fst r) in
          list_eqb (fun (x y : nat * bool) => Nat.eqb (fst x) (fst y) && Bool.eqb (snd x) (snd y))
                   (map (fun x : bool * bool => ((if fst x then 1 else 0)%nat, snd x)) m) obs
      end
  | CElec regs steps start_ok obs =>
      let '(ok, m) := elec_model regs steps in
      Bool.eqb ok start_ok &&
      list_eqb (fun x y => list_eqb eev_eqb (fst x) (fst y) && opt_eqb Z.eqb (snd x) (snd y)) m obs
  end.

(* ---------- the property evaluated on the OBSERVED data ---------- *)

(* confirmed report at notified height n is true of the chain *)
Definition conf_ok (req start limit n : Z) (t : option truth) : bool :=
  (n <? start + limit) &&
  match t with
  | None => true
  | Some t =>
      match t_tx t with
      | Some h => (h <=? t_height t) && (req <=? t_height t - h + 1)
      | None => false
      end
  end.

(* walk the steps: [maxn] = highest height notified so far, [done] = a report was issued *)
Fixpoint rpc_conf_mon (req start limit : Z) (maxn : Z) (done : bool)
  (steps : list (Z * option truth)) (obs : list (list step_out)) : bool :=
  match steps, obs with
  | _, [] => true
  | [], _ :: _ => false
  | (n, t) :: rs, o :: ro =>
      match o with
      | [] =>
          (* silent step: not allowed when a new height at/after the deadline was notified *)
          negb ((maxn <? n) && (start + limit <=? n)) &&
          rpc_conf_mon req start limit (Z.max maxn n) done rs ro
      | [SCbOk _] => negb done && conf_ok req start limit n t && rpc_conf_mon req start limit (Z.max maxn n) true rs ro
      | [_] => negb done && rpc_conf_mon req start limit (Z.max maxn n) true rs ro
      | _ => false
      end
  end.

Fixpoint csv_mon (csv : Z) (acked : bool) (ops : list (txout_ans * bool * Z)) (obs : list (nat * bool)) : bool :=
  match ops, obs with
  | _, [] => true
  | [], _ :: _ => false
  | (_, fails, conf) :: ro, (n, _) :: rb =>
      match n with
      | O => csv_mon csv acked ro rb
      | S O => negb acked && (csv <=? conf) && csv_mon csv (negb fails) ro rb
      | _ => false
      end
  end.

(* electrum: an event must be justified by some registration of that swap *)
Definition open_ok (tip t_tip : Z) (r : ereg) (truth_h : Z) (swap : Z) : bool :=
  match r with
  | RegOpen s start window =>
      (s =? swap) && (start <=? tip) && (tip <? start + window) &&
      ((t_tip <? tip) || ((0 <? truth_h) && (truth_h <=? t_tip) && (2 <=? t_tip - truth_h + 1)))
  | _ => false
  end.

Definition open_fail_ok (tip : Z) (r : ereg) (swap : Z) : bool :=
  match r with
  | RegOpen s start window => (s =? swap)      (* a failure report is never a false "confirmed" *)
  | _ => false
  end.

Definition csv_ok (tip t_tip : Z) (r : ereg) (truth_h : Z) (swap : Z) : bool :=
  match r with
  | RegCsv s csv =>
      (s =? swap) &&
      ((t_tip <? tip) || ((0 <? truth_h) && (truth_h <=? t_tip) && (csv <=? t_tip - truth_h + 1)))
  | _ => false
  end.

Fixpoint exists2b {A B} (f : A -> B -> bool) (l : list A) (m : list B) : bool :=
  match l, m with
  | a :: l', b :: m' => f a b || exists2b f l' m'
  | _, _ => false
  end.

Definition ev_ok (regs : list ereg) (tip t_tip : Z) (answers : list (eans * Z)) (e : eev) : bool :=
  match e with
  | EvConfOk s _ => exists2b (fun r a => open_ok tip t_tip r (snd a) s) regs answers
  | EvConfErr s => existsb (fun r => open_fail_ok tip r s) regs
  | EvCsv s => exists2b (fun r a => csv_ok tip t_tip r (snd a) s) regs answers
  end.

Definition ev_key (e : eev) : Z * bool :=
  match e with EvConfOk s _ => (s, true) | EvConfErr s => (s, true) | EvCsv s => (s, false) end.
Definition reg_key (r : ereg) : Z * bool :=
  match r with RegOpen s _ _ => (s, true) | RegCsv s _ => (s, false) end.
Definition key_eqb (a b : Z * bool) : bool := (fst a =? fst b) && Bool.eqb (snd a) (snd b).

(* was the callback for this event acknowledged (returned nil / swap-does-not-exist)? *)
Definition ev_acked (regs : list ereg) (answers : list (eans * Z)) (e : eev) : bool :=
  exists2b (fun r a => key_eqb (reg_key r) (ev_key e) &&
                       match ea_cb (fst a) with CbFail => false | _ => true end) regs answers.

Definition count_key (k : Z * bool) (l : list (Z * bool)) : nat :=
  List.length (filter (key_eqb k) l).

(* walk: [regs] registrations so far, [acks] keys of acknowledged reports so far *)
Fixpoint elec_mon (regs : list ereg) (acks : list (Z * bool)) (steps : list c20_estep)
  (obs : list (list eev * option Z)) : bool :=
  match steps, obs with
  | _, [] => true
  | [], _ :: _ => false
  | XRegister r :: rs, (evs, _) :: ro =>
      match evs with [] => elec_mon (regs ++ [r]) acks rs ro | _ => false end
  | XHeader hdr t_tip answers :: rs, (evs, _) :: ro =>
      match hdr with
      | None => match evs with [] => elec_mon regs acks rs ro | _ => false end
      | Some tip =>
          forallb (ev_ok regs tip t_tip answers) evs &&
          let acks' := acks ++ map ev_key (filter (ev_acked regs answers) evs) in
          forallb (fun k => Nat.leb (count_key k acks') (count_key k (map reg_key regs))) acks' &&
          elec_mon regs acks' rs ro
      end
  end.

Definition c20_monitor (c : c20_case) : bool :=
  match c with
  | CRpcConf req start limit kick steps obs running =>
      let st := match steps with
                | [] => []
                | (_, _, t) :: r => (kick_height kick, t) :: map (fun s => (fst (fst s), snd s)) r
                end in
      rpc_conf_mon req start limit 0 false st obs &&
      (* a report ends the registration *)
      (negb (existsb (fun o => match o with [] => false | _ => true end) obs) || negb running)
  | CRpcCsv csv ops obs => csv_mon csv false ops obs
  | CElec regs steps start_ok obs => elec_mon regs [] steps obs
  end.
