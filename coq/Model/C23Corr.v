(* C23: secrets leave the node only as the taker's per-swap key in coop_close.
   Monitors on observed scenarios of the real code: (a) the structure of every message
   handed to the messenger relative to the last durable record, (b) the observed messages
   compared field by field with the secrets of the record, (c) a scan of the BYTES of every
   sent message and of the persisted cancel / error texts for hex, raw, decimal-array and
   base64 renderings of the swap private key, claim and fee preimages and the blinding key. *)
From Coq Require Import String ZArith Bool List.
From PS Require Import Base.Corr Model.Data Model.Actions Model.Fsm Model.History Model.Eqb Model.FsmCorr
  Gen.ConstsSwap Gen.Tables.
Import ListNotations.
Open Scope Z_scope.

Definition sid (d : swap_data) : string := match get_id d with Some i => i | None => EmptyString end.

(* m is the record's own protocol message (request / agreement / opening message as stored),
   or the coop_close built from the record's key *)
Definition own_msgb (d : swap_data) (m : wire_msg) : bool :=
  match m with
  | MInReq r => opt_eqb req_eqb (d_in_req d) (Some r)
  | MOutReq r => opt_eqb req_eqb (d_out_req d) (Some r)
  | MInAgr a => opt_eqb in_agr_eqb (d_in_agr d) (Some a)
  | MOutAgr a => opt_eqb out_agr_eqb (d_out_agr d) (Some a)
  | MOtb o => opt_eqb otb_eqb (d_otb d) (Some o)
  | MCoop c => String.eqb (cc_privkey c) (d_privkey d) && String.eqb (cc_message c) EmptyString &&
               match get_request d with Some _ => String.eqb (cc_id c) (sid d) | None => true end
  | MCancel _ => false
  end.

(* every message goes to the swap's peer and is either a bare cancel of this swap or the
   pending message of the last durable record, which is one of the record's own messages *)
Definition c23_guard (lp : swap_data) (e : effect) : bool :=
  match e with
  | ESend p m =>
      String.eqb p (d_peer lp) &&
      (wire_eqb m (MCancel (mkCancel (sid lp) EmptyString)) ||
       (opt_eqb wire_eqb (d_next_msg lp) (Some m) && own_msgb lp m))
  | _ => true
  end.

Definition msg_fields (m : wire_msg) : list string :=
  match m with
  | MInReq r | MOutReq r => [rq_id r; rq_network r; rq_asset r; rq_scid r; rq_pubkey r]
  | MInAgr a => [ia_id a; ia_pubkey a]
  | MOutAgr a => [oa_id a; oa_pubkey a; oa_payreq a]
  | MOtb o => [ob_id o; ob_payreq o; ob_txid o; ob_blinding o]
  | MCoop c => [cc_id c; cc_message c; cc_privkey c]
  | MCancel c => [cn_id c; cn_message c]
  end.

Definition secret_hit (s : string) (l : list string) : bool :=
  str_nonempty s && existsb (String.eqb s) l.

Definition is_taker (m : machine) : bool :=
  ((m_type m =? 2) && (m_role m =? 1)) || ((m_type m =? 1) && (m_role m =? 2)).

(* the property's words on the observed (decoded) messages: no field equals the claim preimage,
   the fee preimage or the swap key; the key may only be the privkey field of a coop_close
   carrying this swap's id, sent by a taker; the own blinding key only in opening_tx_broadcasted *)
Definition c23_secret_guard (taker : bool) (lp : swap_data) (e : effect) : bool :=
  match e with
  | ESend _ m =>
      negb (secret_hit (d_claim_preimage lp) (msg_fields m)) &&
      negb (secret_hit (d_fee_preimage lp) (msg_fields m)) &&
      match m with
      | MCoop c => taker && negb (secret_hit (d_privkey lp) [cc_id c; cc_message c]) &&
                   (if String.eqb (cc_privkey c) (d_privkey lp) then String.eqb (cc_id c) (sid lp) else true)
      | _ => negb (secret_hit (d_privkey lp) (msg_fields m))
      end &&
      match m with
      | MOtb _ => true
      | _ => negb (secret_hit (d_blinding_hex lp) (msg_fields m))
      end
  | _ => true
  end.

(* ---------- byte scan, one record per message handed to the messenger ---------- *)
Record scan := mkScan {
  sn_type : Z;            (* wire type of the message *)
  sn_priv_hits : nat;     (* renderings of the swap private key found in the payload bytes *)
  sn_priv_allowed : nat;  (* of those: the "privkey" JSON field of a coop_close with this swap's id (0 or 1) *)
  sn_pre_hits : nat;      (* renderings of any claim / fee preimage known to the simulation *)
  sn_blind_hits : nat;    (* renderings of the node's own blinding key *)
  sn_blind_allowed : nat  (* of those: the "blinding_key" JSON field of opening_tx_broadcasted (0 or 1) *) }.

Record c23_obs := mkC23Obs {
  ob_scans : list scan;
  ob_text_hits : nat }.   (* renderings of any secret in the persisted cancel_message / last_err / rejection reasons *)

Definition wire_type (m : wire_msg) : Z :=
  match m with
  | MInReq _ => msgtype_swapinrequest | MOutReq _ => msgtype_swapoutrequest
  | MInAgr _ => msgtype_swapinagreement | MOutAgr _ => msgtype_swapoutagreement
  | MOtb _ => msgtype_openingtxbroadcasted | MCancel _ => msgtype_canceled | MCoop _ => msgtype_coopclose
  end.

Definition sent_types (es : list effect) : list Z :=
  flat_map (fun e => match e with ESend _ m => [wire_type m] | _ => [] end) es.

Definition scan_ok (taker : bool) (s : scan) : bool :=
  Nat.eqb (sn_pre_hits s) 0 &&
  Nat.eqb (sn_priv_hits s) (sn_priv_allowed s) &&
  Nat.leb (sn_priv_allowed s) (if taker && (sn_type s =? 42081) then 1 else 0) &&
  Nat.eqb (sn_blind_hits s) (sn_blind_allowed s) &&
  Nat.leb (sn_blind_allowed s) (if sn_type s =? 42077 then 1 else 0).

Definition c23_case : Type := fsm_case * list c23_obs.

(* the byte log belongs to the effect log: one scan per ESend, same wire types, same order *)
Fixpoint scans_match (steps : list obs_step) (obs : list c23_obs) : bool :=
  match steps, obs with
  | [], [] => true
  | s :: r, o :: r' => list_eqb Z.eqb (sent_types (os_effects s)) (map sn_type (ob_scans o)) && scans_match r r'
  | _, _ => false
  end.

Definition c23_check (c : c23_case) : bool := fsm_check (fst c) && scans_match (sc_steps (fst c)) (snd c).

Fixpoint c23_steps (taker : bool) (lp : swap_data) (l : list obs_step) : bool :=
  match l with
  | [] => true
  | s :: r =>
      let lp0 := match os_input s with InRecover => m_data (os_pre s) | _ => lp end in
      trace_okb c23_guard lp0 (os_effects s) &&
      trace_okb (c23_secret_guard taker) lp0 (os_effects s) &&
      c23_steps taker (lp_end lp0 (os_effects s)) r
  end.

Definition c23_monitor (c : c23_case) : bool :=
  match sc_steps (fst c) with
  | [] => true
  | s :: _ =>
      let taker := is_taker (os_pre s) in
      (msgtype_coopclose =? 42081) && (msgtype_openingtxbroadcasted =? 42077) &&
      c23_steps taker (m_data (os_pre s)) (sc_steps (fst c)) &&
      forallb (fun o => forallb (scan_ok taker) (ob_scans o) && Nat.eqb (ob_text_hits o) 0) (snd c)
  end.
