(* swap/store.go bboltStore (UpdateData / GetData / ListAll) over a bucket modelled as an
   association list ordered by key (bbolt: ordered map with atomic put; trusted).
   Executable model, no proofs. *)
From Coq Require Import String Ascii ZArith NArith Bool List.
From PS Require Import Model.Json Model.GoJson.
Import ListNotations.
Open Scope string_scope.

Section Bucket.
  Context {A : Type}.
  Fixpoint lookup (k : string) (st : list (string * A)) : option A :=
    match st with
    | [] => None
    | (k0, v0) :: r => if String.eqb k k0 then Some v0 else lookup k r
    end.

  (* Put keeps the bucket ordered by key bytes and replaces an existing key *)
  Fixpoint insert (k : string) (v : A) (st : list (string * A)) : list (string * A) :=
    match st with
    | [] => [(k, v)]
    | (k0, v0) :: r =>
        match String.compare k k0 with
        | Eq => (k, v) :: r
        | Lt => (k, v) :: (k0, v0) :: r
        | Gt => (k0, v0) :: insert k v r
        end
    end.
End Bucket.

Definition store := list (string * json).

(* h2b: hex.DecodeString with the error dropped = the bytes of the leading well-formed pairs *)
Fixpoint h2b (s : string) : string :=
  match s with
  | String a (String b r) =>
      match hex_val a, hex_val b with
      | Some x, Some y => String (ascii_of_N (x * 16 + y)) (h2b r)
      | _, _ => EmptyString
      end
  | _ => EmptyString
  end.

(* swap.SwapId (field of the machine), nil -> None *)
Definition machine_id (T : gty) (m : gval) : option string :=
  match T, m with
  | TStruct _ fs, VStruct vs =>
      match field_of "SwapId" fs vs with
      | Some (_, _, VPtr (Some (VSwapId s))) => Some s
      | _ => None
      end
  | _, _ => None
  end.

(* swap.SwapId.String() *)
Definition id_string (o : option string) : string :=
  match o with Some s => hex_encode s | None => EmptyString end.

Inductive get_res := GNotFound | GErr | GOk (v : gval).

(* GetById / GetData *)
Definition store_get (T : gty) (st : store) (id : string) : get_res :=
  match lookup (h2b id) st with
  | None => GNotFound
  | Some j => match decode T j with Some v => GOk v | None => GErr end
  end.

(* UpdateData = Update, or Create when the id does not exist yet. Both first call idExists ->
   GetById, which unmarshals the existing record: a record that does not decode blocks the key.
   bbolt rejects the empty key (nil SwapId). json.Marshal cannot fail on these types. *)
Definition store_update (T : gty) (st : store) (m : gval) : option store :=
  let k := h2b (id_string (machine_id T m)) in
  match store_get T st (id_string (machine_id T m)) with
  | GErr => None
  | _ => if String.eqb k EmptyString then None else Some (insert k (enc T m) st)
  end.

(* ListAll: ForEach in key order, first decode error aborts *)
Fixpoint store_list (T : gty) (st : store) : option (list gval) :=
  match st with
  | [] => Some []
  | (_, j) :: r =>
      match decode T j with
      | None => None
      | Some v => match store_list T r with Some l => Some (v :: l) | None => None end
      end
  end.
