(* swap/store.go bboltStore (UpdateData / GetData / ListAll) over a bucket modelled as an
   association list ordered by key (bbolt: ordered map with atomic put; trusted).
   Executable model, no proofs. *)
From Coq Require Import String Ascii ZArith NArith Bool List.
From PS Require Import Model.Json Model.GoJson.
Import ListNotations.
Open Scope string_scope.

Section Bucket.
  Context {A : Type}.
  Fixpoint lookup (k : string) (st : list (string * A)) : option A :=
    match st with
    | [] => None
    | (k0, v0) :: r => if String.eqb k k0 then Some v0 else lookup k r
    end.

  (* Put keeps the bucket ordered by key bytes and replaces an existing key *)
  Fixpoint insert (k : string) (v : A) (st : list (string * A)) : list (string * A) :=
    match st with
    | [] => [(k, v)]
    | (k0, v0) :: r =>
        match String.compare k k0 with
        | Eq => (k, v) :: r
        | Lt => (k, v) :: (k0, v0) :: r
        | Gt => (k0, v0) :: insert k v r
        end
    end.
End Bucket.

Definition store := list (string * json).

(* h2b: hex.DecodeString with the error dropped = the bytes of the leading well-formed pairs *)
Fixpoint h2b (s : string) : string :=
  match s with
  | String a (String b r) =>
      match hex_val a, hex_val b with
      | Some x, Some y => String (ascii_of_N (x * 16 + y)) (h2b r)
      | _, _ => EmptyString
      end
  | _ => EmptyString
  end.

(* swap.SwapId (field of the machine), nil -> None *)
Definition machine_id (T : gty) (m : gval) : option string :=
  match T, m with
  | TStruct _ fs, VStruct vs =>
      match field_of "SwapId" fs vs with
      | Some (_, _, VPtr (Some (VSwapId s))) => Some s
      | _ => None
      end
  | _, _ => None
  end.

(* swap.SwapId.String() *)
Definition id_string (o : option string) : string :=
  match o with Some s => hex_encode s | None => EmptyString end.

Inductive get_res := GNotFound | GErr | GOk (v : gval).

(* GetById / GetData *)
Definition store_get (T : gty) (st : store) (id : string) : get_res :=
  match lookup (h2b id) st with
  | None => GNotFound
  | Some j => match decode T j with Some v => GOk v | None => GErr end
  end.

(* UpdateData = Update, or Create when the id does not exist yet. Both first call idExists ->
   GetById, which unmarshals the existing record: a record that does not decode blocks the key.
   bbolt rejects the empty key (nil SwapId). json.Marshal cannot fail on these types. *)
Definition store_update (T : gty) (st : store) (m : gval) : option store :=
  let k := h2b (id_string (machine_id T m)) in
  match store_get T st (id_string (machine_id T m)) with
  | GErr => None
  | _ => if String.eqb k EmptyString then None else Some (insert k (enc T m) st)
  end.

(* ListAll: ForEach in key order, first decode error aborts *)
Fixpoint store_list (T : gty) (st : store) : option (list gval) :=
  match st with
  | [] => Some []
  | (_, j) :: r =>
      match decode T j with
      | None => None
      | Some v => match store_list T r with Some l => Some (v :: l) | None => None end
      end
  end.

(* ---------- operation histories ---------- *)
Inductive sop := SUpdate (m : gval) | SGet (id : string) | SList.
Inductive sres := RUpdate (ok : bool) | RGet (g : get_res) | RList (o : option (list gval)).

Fixpoint run_store (T : gty) (st : store) (ops : list sop) : list sres :=
  match ops with
  | [] => []
  | SUpdate m :: r =>
      match store_update T st m with
      | Some st' => RUpdate true :: run_store T st' r
      | None => RUpdate false :: run_store T st r
      end
  | SGet id :: r => RGet (store_get T st id) :: run_store T st r
  | SList :: r => RList (store_list T st) :: run_store T st r
  end.

(* the abstract specification: a map from swap id to the machine last written; reads return the
   machine as a reload sees it (view) *)
Definition amap := list (string * gval).

Definition key_of (T : gty) (m : gval) : string :=
  match machine_id T m with Some s => s | None => EmptyString end.

Fixpoint run_spec (T : gty) (a : amap) (ops : list sop) : list sres :=
  match ops with
  | [] => []
  | SUpdate m :: r => RUpdate true :: run_spec T (insert (key_of T m) m a) r
  | SGet id :: r =>
      RGet (match lookup (h2b id) a with Some m => GOk (view T m) | None => GNotFound end)
      :: run_spec T a r
  | SList :: r => RList (Some (map (fun p => view T (snd p)) a)) :: run_spec T a r
  end.

(* the machine's own id field is an active *SwapId *)
Definition id_field_ok (T : gty) : bool :=
  match T with
  | TStruct _ fs =>
      match find (fun p => String.eqb (f_go (fst p)) "SwapId") fs with
      | Some (m, TPtr TSwapId) => active m
      | _ => false
      end
  | _ => false
  end.
