(* C16: every swap terminates when the peer is silent, local services work, the
   chain advances and the node is restarted from time to time.

   (1) an ABSTRACT semantics of one "good late round" (restart; then the CSV
       callback when a CSV watch was registered) over state names and a small set
       of facts about the swap data, computed on a state table;
   (2) the reflective check [c16_table_ok] used by the theorems (Proofs/C16.v
       proves it sound for arbitrary tables);
   (3) the monitor evaluated on observed scenarios of the real code.
   Executable definitions only. *)
From Coq Require Import String ZArith Bool List.
From PS Require Import Base.Wrap Base.Corr Model.Data Model.Actions Model.Fsm Model.History Model.FsmCorr
  Gen.ConstsSwap Gen.Tables.
Import ListNotations.
Open Scope Z_scope.

(* ---------- what a round may assume about the environment ---------- *)

(* a chain height beyond every payment window of the swap (Bitcoin: csv/2 after the
   start height, both ways the code compares; Liquid: outside [anchor, anchor+window)) *)
Definition late (tc : tl_consts) (d : swap_data) (h : Z) : bool :=
  negb (h <? u32_add (d_start_height d) (csv_height tc d / 2))
  && (csv_height tc d / 2 <? u32_sub h (d_start_height d))
  && negb (h =? 0)
  && match timelock_policy tc d with
     | Some pol => negb (check_payment_window d h pol)
     | None => true
     end.

Definition height_late (tc : tl_consts) (d : swap_data) (oh : option Z) : bool :=
  match oh with Some h => late tc d h | None => false end.

Definition is_some {A} (o : option A) : bool := match o with Some _ => true | None => false end.

(* the environment of one entry point in a good round: every store write succeeds,
   every on-chain spend is broadcast, every output script is built, and at least [n]
   such answers are available; other answers (sends, invoices, payments, ...) are arbitrary *)
Definition good_world (n : nat) (w : world) : bool :=
  forallb (fun b => b) (q_store w)
  && forallb (@is_some string) (q_spend w) && Nat.leb n (List.length (q_spend w))
  && forallb (fun b => b) (q_script w) && Nat.leb n (List.length (q_script w)).

(* ... and every height the chain service reports is late for the swap *)
Definition late_world (tc : tl_consts) (d : swap_data) (w : world) : bool :=
  forallb (height_late tc d) (q_height w).

(* ---------- facts about the swap data ---------- *)
Record know := mkKnow {
  k_chain : bool;     (* chain known and a timelock policy exists *)
  k_otb : bool;       (* opening_tx_broadcasted message present *)
  k_outagr : bool;    (* swap-out agreement present *)
  k_openamt : bool;   (* opening amount computable (agreement present where needed) *)
  k_started : bool;   (* starting block height recorded (non-zero) *)
  k_late : bool;      (* the heights of the current world are late for the data *)
  (* facts used only by the first action of a round *)
  k_coop : bool;      (* coop_close message present *)
  k_claimamt : bool;  (* claim amount computable *)
  k_blind : bool;     (* blinding key present when the chain is Liquid *)
  k_premium : bool }. (* premium check computable *)

Definition fk (tc : tl_consts) (d : swap_data) : bool := chain_known d && is_some (timelock_policy tc d).
Definition fblind (d : swap_data) : bool := negb (String.eqb (get_chain d) lbtc_chain) || str_nonempty (blinding_of d).

Definition holds (tc : tl_consts) (k : know) (d : swap_data) : bool :=
  implb (k_chain k) (fk tc d) && implb (k_otb k) (is_some (d_otb d)) && implb (k_outagr k) (is_some (d_out_agr d))
  && implb (k_openamt k) (is_some (get_opening_amount d)) && implb (k_started k) (negb (d_start_height d =? 0))
  && implb (k_coop k) (is_some (d_coop d)) && implb (k_claimamt k) (is_some (get_claim_amount d))
  && implb (k_blind k) (fblind d) && implb (k_premium k) (is_some (check_premium d)).

Definition holds_w (tc : tl_consts) (k : know) (d : swap_data) (w : world) : bool :=
  holds tc k d && implb (k_late k) (late_world tc d w).

(* knowledge after an action that does not touch the anchor: first-action facts are forgotten *)
Definition after (k : know) : know :=
  mkKnow (k_chain k) (k_otb k) (k_outagr k) (k_openamt k) (k_started k) (k_late k) false false false false.
(* ... after an action that may move the starting height *)
Definition after_anchor (k : know) : know :=
  mkKnow (k_chain k) (k_otb k) (k_outagr k) (k_openamt k) false false false false false false.
Definition with_otb (k : know) : know :=
  mkKnow (k_chain k) true (k_outagr k) (k_openamt k) (k_started k) (k_late k) (k_coop k) (k_claimamt k) (k_blind k) (k_premium k).
Definition with_started (k : know) : know :=
  mkKnow (k_chain k) (k_otb k) (k_outagr k) (k_openamt k) true (k_late k) (k_coop k) (k_claimamt k) (k_blind k) (k_premium k).
Definition with_late (b : bool) (k : know) : know :=
  mkKnow (k_chain k) (k_otb k) (k_outagr k) (k_openamt k) (k_started k) b (k_coop k) (k_claimamt k) (k_blind k) (k_premium k).

(* ---------- abstract actions: possible (event, knowledge afterwards, CSV watch registered) ---------- *)
Definition aout := (string * know * bool)%type.

Definition aleaf (name : string) (k : know) : option (list aout) :=
  if (String.eqb name "SendMessageAction" || String.eqb name "SendMessageWithRetryAction"
      || String.eqb name "SendCancelAction")%bool
  then Some [(Ev_Succeeded, after k, false); (Ev_Failed, after k, false)]
  else if String.eqb name "TakerSendPrivkeyAction" then Some [(Ev_Succeeded, after k, false)]
  else if String.eqb name "NoOpAction" then Some [(Ev_NoOp, after k, false)]
  else if (String.eqb name "NoOpDoneAction" || String.eqb name "CancelAction")%bool then Some [(Ev_Done, after k, false)]
  else if String.eqb name "AwaitFeeInvoicePayment" then
    if k_outagr k then Some [(Ev_NoOp, after k, false)] else None
  else if (String.eqb name "AwaitPaymentOrCsvAction" || String.eqb name "AwaitCsvAction")%bool then
    if k_chain k && k_otb k then Some [(Ev_NoOp, after k, true)] else None
  else if (String.eqb name "ClaimSwapTransactionWithPreimageAction" || String.eqb name "ClaimSwapTransactionWithCsv")%bool then
    if k_chain k then Some [(Ev_Succeeded, after k, false)] else None
  else if String.eqb name "ClaimSwapTransactionCoop" then
    if k_chain k && k_coop k then Some [(Ev_Succeeded, after k, false); (Ev_Failed, after k, false)] else None
  else if String.eqb name "CreateAndBroadcastOpeningTransaction" then
    if k_claimamt k && k_openamt k && k_blind k
    then Some [(Ev_Succeeded, with_otb (after_anchor k), false); (Ev_Failed, after_anchor k, false)] else None
  else if String.eqb name "AwaitTxConfirmationAction" then
    if k_otb k && k_claimamt k && k_late k
    then Some [(Ev_Failed, after k, false); (Ev_TxConfirmed, after k, false)] else None
  else if String.eqb name "ValidateTxAndPayClaimInvoiceAction" then
    if k_otb k && k_openamt k && k_late k
    then Some [(Ev_Failed, after k, false); (Ev_Succeeded, after k, false)] else None
  else if String.eqb name "SetStartingBlockHeightAction" then
    if k_late k then
      Some ((Ev_Failed, after k, false) ::
            (if k_started k then [] else [(Ev_NoOp, with_started (after_anchor k), false)]))
    else None
  else None.

Fixpoint aexec (fuel : nat) (a : action_tree) (k : know) : option (list aout) :=
  match fuel with
  | O => None
  | S fuel' =>
    let '(ANode name ch) := a in
    let next := match first_child ch with Some c => aexec fuel' c k | None => None end in
    if String.eqb name "CheckRequestWrapperAction" then None   (* request admission is not part of a silent round *)
    else if String.eqb name "SetBlindingKeyActionWrapper" then None
    else if String.eqb name "StopSendMessageWithRetryWrapperAction" then next
    else if String.eqb name "CheckPremiumAmount" then
      if k_premium k then
        match next with Some l => Some ((Ev_Failed, after k, false) :: l) | None => None end
      else None
    else if String.eqb name "AddSuspiciousPeerAction" then next
    else aleaf name k
  end.

(* ---------- abstract engine ---------- *)
Inductive aend :=
| AFin (s : string)                       (* SendEvent returned done: the swap leaves the active set, state s *)
| ARest (s : string) (k : know) (csv : bool)   (* at rest in s; csv: a CSV watch was registered *)
| ABad.

Definition Ev_CsvPassed : string := "Event_OnCsvPassed".

Section Abs.
Variable t : table.
Variable terminal : list string.

Fixpoint aloop (fuel : nat) (s ev : string) (k : know) : list aend :=
  match fuel with
  | O => [ABad]
  | S fuel' =>
    match next_state t s ev with
    | None => [ARest s k false]
    | Some nxt =>
      match lookup_state t nxt with
      | None => [ABad]
      | Some sd =>
        match st_action sd with
        | None => [ABad]
        | Some act =>
          match aexec action_fuel act k with
          | None => [ABad]
          | Some outs =>
            flat_map (fun o : aout =>
              let '(ev', k', cw) := o in
              if String.eqb ev' Ev_Panic then [ABad]
              else if String.eqb ev' Ev_Done then [AFin nxt]
              else if String.eqb ev' Ev_NoOp then [ARest nxt k' cw]
              else if String.eqb ev' Ev_Retry then [ABad]
              else if cw then [ABad]
              else aloop fuel' nxt ev' k') outs
          end
        end
      end
    end
  end.

(* RecoverSwaps for one swap *)
Definition arecover (s : string) (k : know) : list aend :=
  match lookup_state t s with
  | None => [ABad]
  | Some sd =>
    match st_action sd with
    | None => [ABad]
    | Some act =>
      if st_fail_on_recover sd then aloop loop_fuel s Ev_Failed k
      else match aexec action_fuel act k with
           | None => [ABad]
           | Some outs =>
             flat_map (fun o : aout =>
               let '(ev', k', cw) := o in
               if String.eqb ev' Ev_Panic then [ABad]
               else if String.eqb ev' Ev_NoOp then [ARest s k' cw]
               else if cw then [ABad]
               else if String.eqb ev' Ev_Done then [AFin s]
               else aloop loop_fuel s ev' k') outs
           end
    end
  end.

Definition fin_ok (s : string) : bool := is_finished terminal s.

(* [asettle n s k]: from state s with facts k, n good late rounds always end in a terminal
   state with the swap removed from the active set *)
Fixpoint asettle (n : nat) (s : string) (k : know) : bool :=
  match n with
  | O => false
  | S n' =>
    forallb (fun o =>
      match o with
      | AFin s1 => fin_ok s1
      | ABad => false
      | ARest s1 k1 false => asettle n' s1 (with_late true k1)
      | ARest s1 k1 true =>
          forallb (fun o2 =>
            match o2 with
            | AFin s2 => fin_ok s2
            | ABad => false
            | ARest s2 k2 _ => asettle n' s2 (with_late true k2)
            end) (aloop loop_fuel s1 Ev_CsvPassed (with_late false k1))
      end) (arecover s k)
  end.

Definition c16_state_ok (need : string -> know) (n : nat) (s : string) : bool :=
  fin_ok s || asettle n s (with_late true (need s)).

(* all states of the table except the listed ones *)
Definition c16_table_ok (need : string -> know) (n : nat) (except : list string) : bool :=
  forallb (fun e => existsb (String.eqb (fst e)) except || c16_state_ok need n (fst e)) t.

Definition c16_stuck_states (need : string -> know) (n : nat) : list string :=
  map fst (filter (fun e => negb (c16_state_ok need n (fst e))) t).
End Abs.

(* ---------- what the theorem says of the concrete engine ---------- *)
(* answers the environment must be able to give in one entry point (one per transition) *)
Definition c16_budget : nat := S (S loop_fuel).

Section Settles.
Variable tc : tl_consts.
Variable decode : string -> option (string * Z * Z).
Variable t : table.
Variable terminal : list string.

(* [settles n m]: from the stored machine m, n good late rounds are enough.  One round:
   RecoverSwaps in ANY good late world w1; if that registered a CSV watch and the swap is
   still active, the CSV callback in ANY good world w2; then either the swap is in a terminal
   state and was removed from the active set (its channel is free), or the next round starts
   from the record the store holds at that point ([next_record]). *)
(* the stored record after a round that started from record m and left the effects es *)
Definition next_record (m m' : machine) (es : list effect) : machine :=
  match restore m' es with Some m1 => m1 | None => m end.

Fixpoint settles (n : nat) (m : machine) : Prop :=
  match n with
  | O => False
  | S n' =>
    forall w1, good_world c16_budget w1 = true -> late_world tc (m_data m) w1 = true ->
      let '(o1, _, es1) := run_step tc decode t terminal m InRecover w1 in
      (o_removed o1 = true /\ is_finished terminal (m_cur (o_machine o1)) = true) \/
      (o_removed o1 = false /\
       if existsb is_watch_csv es1 then
         forall w2, good_world c16_budget w2 = true ->
           let '(o2, _, es2) := run_step tc decode t terminal (o_machine o1) InCsvPassed w2 in
           (o_removed o2 = true /\ is_finished terminal (m_cur (o_machine o2)) = true) \/
           (o_removed o2 = false /\ settles n' (next_record m (o_machine o2) (es1 ++ es2)))
       else settles n' (next_record m (o_machine o1) es1))
  end.
End Settles.

(* ---------- the facts each state of the generated tables needs ---------- *)
Definition k_none : know := mkKnow false false false false false false false false false false.

Definition str_in (s : string) (l : list string) : bool := existsb (String.eqb s) l.

Definition c16_need (s : string) : know :=
  let maker_locked := str_in s ["State_SwapInSender_SendTxBroadcastedMessage"; "State_SwapInSender_AwaitClaimPayment";
     "State_SwapInSender_ClaimSwapCsv"; "State_SwapInSender_ClaimSwapCoop"; "State_WaitCsv";
     "State_SwapOutReceiver_SendTxBroadcastedMessage"; "State_SwapOutReceiver_AwaitClaimInvoicePayment";
     "State_SwapOutReceiver_ClaimSwapCsv"; "State_SwapOutReceiver_ClaimSwapCoop"]%string in
  let coop := str_in s ["State_SwapInSender_ClaimSwapCoop"; "State_SwapOutReceiver_ClaimSwapCoop"]%string in
  let opening := str_in s ["State_SwapInSender_BroadcastOpeningTx"; "State_SwapOutReceiver_BroadcastOpeningTx"]%string in
  let taker_tx := str_in s ["State_SwapOutSender_AwaitTxConfirmation"; "State_SwapInReceiver_AwaitTxConfirmation";
     "State_SwapOutSender_ValidateTxAndPayClaimInvoice"; "State_SwapInReceiver_ValidateTxAndPayClaimInvoice"]%string in
  let taker_claim := str_in s ["State_SwapOutSender_ClaimSwap"; "State_SwapInReceiver_ClaimSwap"]%string in
  let fee := str_in s ["State_SwapOutReceiver_SendFeeInvoice"]%string in
  mkKnow (maker_locked || opening || taker_tx || taker_claim) (maker_locked || taker_tx) fee (opening || taker_tx)
         false false coop (opening || taker_tx) opening opening.

Definition c16_rounds : nat := 2.

Definition swap_tables_c16 : list table :=
  [table_swap_out_sender; table_swap_out_receiver; table_swap_in_sender; table_swap_in_receiver].

(* ---------- monitor on observed scenarios ---------- *)
(* a step of a good late round: a restart or a CSV callback served by a good late world *)
Definition good_step (s : obs_step) : bool :=
  match os_input s with
  | InRecover | InCsvPassed =>
      forallb (fun b => b) (q_store (os_world s)) && forallb (@is_some string) (q_spend (os_world s))
      && forallb (fun b => b) (q_script (os_world s))
      && (match os_input s with InRecover => late_world tl_consts_gen (m_data (os_pre s)) (os_world s) | _ => true end)
  | _ => false
  end.

Definition is_recover_step (s : obs_step) : bool := match os_input s with InRecover => true | _ => false end.
Definition is_csv_step (s : obs_step) : bool := match os_input s with InCsvPassed => true | _ => false end.

(* the environment is fair inside the suffix: a registered CSV watch of a swap that is still
   active is followed by the CSV callback, and CSV callbacks come only then *)
Fixpoint fair_csv (l : list obs_step) : bool :=
  match l with
  | [] => true
  | s :: r =>
      let wants := existsb is_watch_csv (os_effects s) && negb (os_removed s) in
      match r with
      | [] => negb wants
      | s2 :: _ => Bool.eqb wants (is_csv_step s2) && fair_csv r
      end
  end.

(* the longest suffix of good steps *)
Fixpoint good_suffix (l : list obs_step) : list obs_step :=
  match l with
  | [] => []
  | s :: r => let g := good_suffix r in
              if Nat.eqb (List.length g) (List.length r) && good_step s then s :: g else g
  end.

Definition last_step (l : list obs_step) : option obs_step := List.last (map Some l) None.

(* the property on an observed scenario: when it ends with three (or more) good late rounds in
   which the peer is silent, the swap is in a terminal state and no longer in the active set;
   every observed machine carries the facts the theorem assumes of its state *)
Definition c16_monitor (c : fsm_case) : bool :=
  let g := good_suffix (sc_steps c) in
  let g' := match g with s :: r => if is_recover_step s then g else r | [] => [] end in
  (if Nat.leb c16_rounds (List.length (filter is_recover_step g')) && fair_csv g' then
     match last_step g' with
     | Some s => is_finished terminal_states (m_cur (os_post s)) && os_removed s
     | None => true
     end
   else true)
  && forallb (fun s => holds tl_consts_gen (c16_need (m_cur (os_post s))) (m_data (os_post s))) (sc_steps c).
