(* Correspondence / monitor functions for C21 (evaluated on harness cases). *)
From Coq Require Import String Ascii ZArith Bool List.
From PS Require Import Base.Strs Base.Corr Base.Json Model.Wire Gen.WireC21.
Import ListNotations.
Open Scope Z_scope.

(* what the harness observes of one OnMessageReceived call on the real service *)
Record recv_obs := mk_recv_obs {
  ro_panic : bool;
  ro_err : bool;
  ro_changed : bool;     (* persisted swaps / active swaps / sent messages differ afterwards *)
  ro_sends : Z
}.

Inductive c21_case :=
| CType (s : string) (obs : type_result)                 (* PeerswapCustomMessageType *)
| CHex (v : Z) (obs : string)                            (* MessageTypeToHexString *)
| CEncode (struct : string) (m : msg) (obs_type : Z) (obs_tree : jv) (obs_back : dres)
                                                         (* MarshalPeerswapMessage, then the real decoder *)
| CDecode (struct : string) (doc : jv) (obs : dres)      (* json.Unmarshal into *T *)
| CRecv (ty : string) (len : Z) (payload : option jv) (obs : recv_obs).   (* OnMessageReceived *)

Definition fval_eqb (a b : fval) : bool :=
  match a, b with
  | VNum x, VNum y => x =? y
  | VStr x, VStr y => String.eqb x y
  | VId x, VId y => opt_eqb String.eqb x y
  | _, _ => false
  end.

Fixpoint jv_eqb (a b : jv) : bool :=
  match a, b with
  | JNull, JNull => true
  | JBool x, JBool y => Bool.eqb x y
  | JNum x, JNum y => String.eqb x y
  | JStr x, JStr y => String.eqb x y
  | JArr x, JArr y =>
      (fix go (x y : list jv) : bool :=
         match x, y with
         | [], [] => true
         | p :: x', q :: y' => jv_eqb p q && go x' y'
         | _, _ => false
         end) x y
  | JObj x, JObj y =>
      (fix go (x y : list (string * jv)) : bool :=
         match x, y with
         | [], [] => true
         | (k, p) :: x', (l, q) :: y' => String.eqb k l && jv_eqb p q && go x' y'
         | _, _ => false
         end) x y
  | _, _ => false
  end.

Definition dres_eqb (a b : dres) : bool :=
  match a, b with
  | DErr, DErr => true
  | DNil, DNil => true
  | DMsg x, DMsg y => list_eqb fval_eqb x y
  | _, _ => false
  end.

Definition type_result_eqb (a b : type_result) : bool :=
  match a, b with
  | TErr, TErr => true
  | TNotPeerswap, TNotPeerswap => true
  | TOk x, TOk y => x =? y
  | _, _ => false
  end.

Fixpoint struct_schema (name : string) (l : list (string * (Z * schema))) : option (Z * schema) :=
  match l with
  | [] => None
  | (n, ts) :: r => if String.eqb n name then Some ts else struct_schema name r
  end.

(* the code as it is now (after the fix) rejects nil / id-less messages after json.Unmarshal *)
Definition code_guard : bool := true.

Definition code_on_message (ty : string) (len : Z) (payload : option jv) : outcome :=
  on_message code_guard max_payload_len message_types wire_schemas ty len payload.

(* model (with the tables generated from the code) agrees with the observation *)
Definition c21_check (c : c21_case) : bool :=
  match c with
  | CType s obs => type_result_eqb (custom_type message_types s) obs
  | CHex v obs => String.eqb (hex_of_Z v) obs
  | CEncode name m ty tree back =>
      match struct_schema name wire_schemas with
      | Some (t, sch) => (t =? ty) && jv_eqb (encode sch m) tree && dres_eqb (decode sch tree) back
      | None => false
      end
  | CDecode name doc obs =>
      match struct_schema name wire_schemas with
      | Some (_, sch) => dres_eqb (decode sch doc) obs
      | None => false
      end
  | CRecv ty len payload obs =>
      match code_on_message ty len payload with
      | ODropNil => negb (ro_panic obs) && negb (ro_err obs) && negb (ro_changed obs) && (ro_sends obs =? 0)
      | ODropErr => negb (ro_panic obs) && ro_err obs && negb (ro_changed obs) && (ro_sends obs =? 0)
      | OPanic => ro_panic obs
      | ODispatch _ _ => negb (ro_panic obs)     (* what the handlers do is outside this property *)
      end
  end.

(* ---------- the property itself on OBSERVED data, with the numbers of the property text ---------- *)

(* 42069 .. 42085, all odd *)
Definition is_peerswap_type (t : Z) : bool := (42069 <=? t) && (t <=? 42085) && Z.odd t.

(* the type number each message struct must be sent with (protocol numbering) *)
Definition protocol_type_of (struct : string) : option Z :=
  if String.eqb struct "SwapInRequestMessage" then Some 42069
  else if String.eqb struct "SwapOutRequestMessage" then Some 42071
  else if String.eqb struct "SwapInAgreementMessage" then Some 42073
  else if String.eqb struct "SwapOutAgreementMessage" then Some 42075
  else if String.eqb struct "OpeningTxBroadcastedMessage" then Some 42077
  else if String.eqb struct "CancelMessage" then Some 42079
  else if String.eqb struct "CoopCloseMessage" then Some 42081
  else None.

(* value of a type string read as hexadecimal (unsigned digits only), independent of the model's parser *)
Definition plain_hex_value (s : string) : option Z :=
  match s with EmptyString => None | _ => hex_digits s 0 end.

(* the value of the last member spelled swap_id (any case) *)
Fixpoint last_swap_id (kvs : list (string * jv)) (acc : option jv) : option jv :=
  match kvs with
  | [] => acc
  | (k, v) :: r => last_swap_id r (if String.eqb (fold_key k) "SWAP_ID" then Some v else acc)
  end.

(* junk = over 100 KiB, or not one of the seven swap message types, or not JSON, or JSON that is not an
   object carrying a swap id string *)
Definition is_junk (ty : string) (len : Z) (payload : option jv) : bool :=
  (100 * 1024 <? len) ||
  match plain_hex_value ty with
  | Some t => negb ((42069 <=? t) && (t <=? 42081) && Z.odd t)
  | None => true
  end ||
  match payload with
  | None => true
  | Some (JObj kvs) => match last_swap_id kvs None with Some (JStr _) => false | _ => true end
  | Some _ => true
  end.

Definition c21_monitor (c : c21_case) : bool :=
  match c with
  | CType s obs =>
      match obs with
      | TOk t => is_peerswap_type t && opt_eqb Z.eqb (plain_hex_value (match s with String "+" r => r | _ => s end)) (Some t)
      | _ => true
      end
  | CHex _ _ => true
  | CEncode name m ty tree back =>
      (* sent with its protocol type number, and the payload decodes back to the same content *)
      opt_eqb Z.eqb (protocol_type_of name) (Some ty) && is_peerswap_type ty && dres_eqb back (DMsg m)
  | CDecode _ _ _ => true
  | CRecv ty len payload obs =>
      if is_junk ty len payload
      then negb (ro_panic obs) && negb (ro_changed obs) && (ro_sends obs =? 0)
      else negb (ro_panic obs) || true
  end.
