(* Executable model of peersync (store.go, peer.go, capability_snapshot.go,
   message_handler.go, poller.go, peersync.go: SyncLogic, compatibility.go).
   No proofs here.

   Time: a timestamp is an integer number of nanoseconds (unbounded, as Go's
   time.Time covers far more than int64 ns); time.Time{} (IsZero) is [None].
   Durations are int64 ns; [Time.Sub]/[time.Since] SATURATE at the int64
   bounds (they do not wrap), which is written out in [sat_sub].
   Every operation receives the clock reading [now] as a parameter (the code
   reads time.Now() several times inside one operation; the model uses one
   reading per operation). *)
From Coq Require Import String Ascii ZArith Bool List.
From PS Require Import Gen.ConstsPeerSync.
Import ListNotations.
Open Scope Z_scope.

(* ---------- time ---------- *)
Definition max_i64 : Z := 9223372036854775807.
Definition min_i64 : Z := -9223372036854775808.

(* t.Sub(u): exact difference, saturated to the Duration range *)
Definition sat_sub (a b : Z) : Z :=
  let d := a - b in
  if d <? min_i64 then min_i64 else if max_i64 <? d then max_i64 else d.

(* time.Since(t); the zero time lies more than 292 years before any clock
   reading the node can have, so the result saturates *)
Definition since (now : Z) (t : option Z) : Z :=
  match t with None => max_i64 | Some s => sat_sub now s end.

(* ---------- assets (peer.go: NewAsset, Asset.String) ---------- *)
Inductive asset := ABtc | ALbtc.

Definition asset_string (a : asset) : string :=
  match a with ABtc => ps_ticker_btc | ALbtc => ps_ticker_lbtc end.

(* ASCII part of unicode.IsSpace: \t \n \v \f \r and space *)
Definition is_space (c : ascii) : bool :=
  let n := N_of_ascii c in ((n =? 32) || ((9 <=? n) && (n <=? 13)))%N.

Definition upper (c : ascii) : ascii :=
  let n := N_of_ascii c in
  if ((97 <=? n) && (n <=? 122))%N then ascii_of_N (n - 32) else c.

Fixpoint ltrim (s : string) : string :=
  match s with
  | String c r => if is_space c then ltrim r else s
  | EmptyString => EmptyString
  end.

Fixpoint rtrim (s : string) : string :=
  match s with
  | String c r =>
      match rtrim r with
      | EmptyString => if is_space c then EmptyString else String c EmptyString
      | r' => String c r'
      end
  | EmptyString => EmptyString
  end.

Fixpoint map_str (f : ascii -> ascii) (s : string) : string :=
  match s with String c r => String (f c) (map_str f r) | EmptyString => EmptyString end.

(* strings.ToUpper(strings.TrimSpace(value)) on ASCII input, then the lookup table *)
Definition new_asset (s : string) : option asset :=
  let n := map_str upper (rtrim (ltrim s)) in
  if String.eqb n ps_ticker_btc then Some ABtc
  else if String.eqb n ps_ticker_lbtc then Some ALbtc
  else None.

Fixpoint parse_assets (l : list string) : option (list asset) :=
  match l with
  | [] => Some []
  | s :: r =>
      match new_asset s with
      | None => None
      | Some a => match parse_assets r with None => None | Some ar => Some (a :: ar) end
      end
  end.

(* ---------- capability / snapshot (capability_snapshot.go) ---------- *)
(* PeerCapabilitySnapshot: wire payload and the capability part of a stored record.
   version is a uint64 (0 <= v < 2^64), rates are int64. *)
Record snapshot := Snap {
  sn_version : Z; sn_assets : list string; sn_allowed : bool;
  sn_bi : Z; sn_bo : Z; sn_li : Z; sn_lo : Z }.

Record capability := Cap {
  c_version : Z; c_assets : list asset; c_allowed : bool;
  c_bi : Z; c_bo : Z; c_li : Z; c_lo : Z }.

(* NewPremiumRate bounds *)
Definition rate_ok (z : Z) : bool := (ps_min_premium_ppm <=? z) && (z <=? ps_max_premium_ppm).

(* PeerCapabilitySnapshot.ToCapability: None = error *)
Definition to_capability (s : snapshot) : option capability :=
  match parse_assets (sn_assets s) with
  | None => None
  | Some al =>
      if rate_ok (sn_bi s) then
        if rate_ok (sn_bo s) then
          if rate_ok (sn_li s) then
            if rate_ok (sn_lo s) then
              Some (Cap (sn_version s) al (sn_allowed s) (sn_bi s) (sn_bo s) (sn_li s) (sn_lo s))
            else None
          else None
        else None
      else None
  end.

(* SnapshotFromCapability *)
Definition snapshot_of_cap (c : capability) : snapshot :=
  Snap (c_version c) (map asset_string (c_assets c)) (c_allowed c) (c_bi c) (c_bo c) (c_li c) (c_lo c).

Definition zero_snapshot : snapshot := Snap 0 [] false 0 0 0 0.

(* SyncLogic.MergeCapabilities (both non-nil) *)
Definition merge_capabilities (local remote : capability) : capability :=
  if c_version remote <? c_version local then local else remote.

(* ---------- peer and stored record (peer.go, store.go) ---------- *)
Record peer := Peer {
  p_address : string; p_cap : option capability; p_status : string;
  p_last_poll : option Z; p_last_seen : option Z }.

(* peerRecord without its ID (always the bucket key, see C28Corr) *)
Record record := Rec {
  r_address : string; r_status : string;
  r_last_poll : option Z; r_last_seen : option Z; r_snap : snapshot }.

Definition has_capability_data (s : snapshot) : bool :=
  negb (sn_version s =? 0) ||
  match sn_assets s with [] => false | _ => true end ||
  sn_allowed s ||
  negb (sn_bi s =? 0) || negb (sn_bo s =? 0) || negb (sn_li s =? 0) || negb (sn_lo s =? 0).

(* peerToRecord *)
Definition peer_to_record (p : peer) : record :=
  Rec (p_address p) (p_status p) (p_last_poll p) (p_last_seen p)
      (match p_cap p with Some c => snapshot_of_cap c | None => zero_snapshot end).

(* peerRecord.toPeer: None = error (unsupported asset or rate out of range) *)
Definition to_peer (r : record) : option peer :=
  let status := if String.eqb (r_status r) "" then ps_status_unknown else r_status r in
  if has_capability_data (r_snap r) then
    match to_capability (r_snap r) with
    | None => None
    | Some c => Some (Peer (r_address r) (Some c) status (r_last_poll r) (r_last_seen r))
    end
  else Some (Peer (r_address r) None status (r_last_poll r) (r_last_seen r)).

Definition new_peer : peer := Peer "" None ps_status_unknown None None.

(* Peer.IsExpired *)
Definition is_expired (now timeout : Z) (p : peer) : bool :=
  match p_last_seen p with
  | None => false
  | Some s => timeout <? sat_sub now s
  end.

(* Peer.IsCompatibleWith *)
Definition is_compatible_with (v : Z) (p : peer) : bool :=
  match p_cap p with None => false | Some c => c_version c =? v end.

(* ---------- the bucket: association list in key (byte) order ---------- *)
Definition store := list (string * record).

Fixpoint st_get (k : string) (st : store) : option record :=
  match st with
  | [] => None
  | (k', v) :: r => if String.eqb k k' then Some v else st_get k r
  end.

(* bucket.Put: replace the value of an existing key, otherwise insert in key order *)
Fixpoint st_replace (k : string) (v : record) (st : store) : store :=
  match st with
  | [] => []
  | (k', v') :: r => if String.eqb k k' then (k, v) :: r else (k', v') :: st_replace k v r
  end.

Fixpoint st_insert (k : string) (v : record) (st : store) : store :=
  match st with
  | [] => [(k, v)]
  | (k', v') :: r => if String.ltb k k' then (k, v) :: (k', v') :: r else (k', v') :: st_insert k v r
  end.

Definition st_put (k : string) (v : record) (st : store) : store :=
  match st_get k st with
  | Some _ => st_replace k v st
  | None => st_insert k v st
  end.

Definition st_del (k : string) (st : store) : store :=
  filter (fun kv => negb (String.eqb k (fst kv))) st.

Definition mem (k : string) (l : list string) : bool := existsb (String.eqb k) l.

Definition set_toggle (k : string) (on : bool) (l : list string) : list string :=
  let l' := filter (fun x => negb (String.eqb k x)) l in
  if on then l' ++ [k] else l'.

(* NewPeerID *)
Definition valid_peer_id (s : string) : bool :=
  negb (String.eqb s "") && (Z.of_nat (String.length s) <=? ps_max_peer_id_len).

(* ---------- node state ---------- *)
Record state := State {
  s_store : store;                 (* persisted *)
  s_conn : list string;            (* lightning node: connected peers *)
  s_susp : list string;            (* policy: suspicious peers *)
  s_sendfail : list string;        (* lightning node: sends to these peers fail *)
  s_listfail : bool;               (* lightning node: ListPeers fails *)
  s_req : list (string * Z) }.     (* poller.lastRequestedAt (memory only) *)

Definition init_state : state := State [] [] [] [] false [].

Definition set_store (s : state) (st : store) : state :=
  State st (s_conn s) (s_susp s) (s_sendfail s) (s_listfail s) (s_req s).
Definition set_req (s : state) (rq : list (string * Z)) : state :=
  State (s_store s) (s_conn s) (s_susp s) (s_sendfail s) (s_listfail s) rq.

(* a message handed to the lightning node: recipient, type, whether the send succeeded *)
Definition sent := (string * Z * bool)%type.
Definition do_send (s : state) (to : string) (ty : Z) : sent := (to, ty, negb (mem to (s_sendfail s))).
Definition send_ok (m : sent) : bool := snd m.

(* ---------- message handler (message_handler.go) ---------- *)
(* storeCapabilityMessage; the payload is given as the result of json.Unmarshal
   into PeerCapabilitySnapshot (None = decode error). Result: new store. *)
Definition store_capability_message (now : Z) (s : state) (from : string) (payload : option snapshot) : store :=
  let st := s_store s in
  match payload with
  | None => st
  | Some sn =>
      match to_capability sn with
      | None => st
      | Some remote =>
          if mem from (s_susp s) then st
          else
            let found :=
              match st_get from st with
              | None => Some new_peer
              | Some r => to_peer r
              end in
            match found with
            | None => st                       (* stored record cannot be materialised *)
            | Some p =>
                let c := match p_cap p with
                         | Some existing => merge_capabilities existing remote
                         | None => remote
                         end in
                (* UpdateCapability: capability, lastObservedAt = now, status = active *)
                let p' := Peer (p_address p) (Some c) ps_status_active (p_last_poll p) (Some now) in
                st_put from (peer_to_record p') st
            end
      end
  end.

Definition handle_message (now : Z) (s : state) (from : string) (ty : Z) (payload : option snapshot)
  : state * list sent :=
  if ty =? ps_msgtype_poll then
    (set_store s (store_capability_message now s from payload), [])
  else if ty =? ps_msgtype_request_poll then
    if mem from (s_susp s) then (s, [])
    else (set_store s (store_capability_message now s from payload), [do_send s from ps_msgtype_poll])
  else (s, []).

(* ---------- poller (poller.go, SyncLogic.ShouldPoll) ---------- *)
Definition should_poll (now : Z) (p : peer) : bool :=
  if String.eqb (p_status p) ps_status_expired then false
  else ps_poll_interval <? since now (p_last_poll p).

(* capabilityIsStale; Duration division truncates toward zero *)
Definition capability_is_stale (now timeout : Z) (p : peer) : bool :=
  match p_last_seen p with
  | None => false
  | Some s => Z.quot timeout 2 <? sat_sub now s
  end.

(* GetAllPeerStates: None = error *)
Fixpoint load_all (st : store) : option (list (string * peer)) :=
  match st with
  | [] => Some []
  | (k, r) :: rest =>
      match to_peer r with
      | None => None
      | Some p => match load_all rest with None => None | Some l => Some ((k, p) :: l) end
      end
  end.

(* the loop over stored peers in pollPeers *)
Fixpoint poll_known (now timeout : Z) (force : bool) (s : state) (peers : list (string * peer))
  (st : store) : store * list sent :=
  match peers with
  | [] => (st, [])
  | (k, p) :: rest =>
      if negb force && negb (should_poll now p) then poll_known now timeout force s rest st
      else if mem k (s_susp s) then poll_known now timeout force s rest st
      else
        let ty := if capability_is_stale now timeout p then ps_msgtype_request_poll else ps_msgtype_poll in
        let m := do_send s k ty in
        if send_ok m then
          (* MarkAsPolled + SavePeerState *)
          let p' := Peer (p_address p) (p_cap p) (p_status p) (Some now) (p_last_seen p) in
          let '(st', ms) := poll_known now timeout force s rest (st_put k (peer_to_record p') st) in
          (st', m :: ms)
        else
          let '(st', ms) := poll_known now timeout force s rest st in (st', m :: ms)
  end.

Fixpoint req_get (k : string) (rq : list (string * Z)) : option Z :=
  match rq with
  | [] => None
  | (k', t) :: r => if String.eqb k k' then Some t else req_get k r
  end.

Definition req_set (k : string) (t : Z) (rq : list (string * Z)) : list (string * Z) :=
  (k, t) :: filter (fun kv => negb (String.eqb k (fst kv))) rq.

(* pruneRequestTimes *)
Definition prune_req (conn : list string) (rq : list (string * Z)) : list (string * Z) :=
  filter (fun kv => mem (fst kv) conn) rq.

(* allowRequest: (allowed, new map) *)
Definition allow_request (interval now : Z) (force : bool) (k : string) (rq : list (string * Z))
  : bool * list (string * Z) :=
  match req_get k rq with
  | Some last =>
      if negb force && (sat_sub now last <? interval) then (false, rq)
      else (true, req_set k now rq)
  | None => (true, req_set k now rq)
  end.

(* the loop of requestUnknownConnectedPeers over the connected set *)
Fixpoint request_unknown (interval now : Z) (force : bool) (s : state) (known : list string)
  (conn : list string) (rq : list (string * Z)) : list (string * Z) * list sent :=
  match conn with
  | [] => (rq, [])
  | k :: rest =>
      if mem k known then request_unknown interval now force s known rest rq
      else if mem k (s_susp s) then request_unknown interval now force s known rest rq
      else
        let '(ok, rq') := allow_request interval now force k rq in
        if ok then
          let '(rq'', ms) := request_unknown interval now force s known rest rq' in
          (rq'', do_send s k ps_msgtype_request_poll :: ms)
        else request_unknown interval now force s known rest rq'
  end.

(* pollPeers *)
Definition poll_peers (now : Z) (force : bool) (s : state) : state * list sent :=
  match load_all (s_store s) with
  | None => (s, [])                                   (* "failed to get peers" *)
  | Some peers =>
      let '(st', ms1) := poll_known now ps_poller_timeout force s peers (s_store s) in
      let s1 := set_store s st' in
      if s_listfail s then (s1, ms1)                    (* connectedPeers error *)
      else
        let rq := prune_req (s_conn s) (s_req s) in
        let '(rq', ms2) := request_unknown ps_poller_request_interval now force s
                             (map fst peers) (s_conn s) rq in
        (set_req s1 rq', ms1 ++ ms2)
  end.

(* ---------- cleanup (store.go: CleanupExpiredExcept) ---------- *)
(* the cursor loop inside one bolt transaction: None = error (transaction rolled back) *)
Fixpoint cleanup_loop (now timeout : Z) (keep : list string) (st : store) : option (store * Z) :=
  match st with
  | [] => Some ([], 0)
  | (k, r) :: rest =>
      if mem k keep then
        match cleanup_loop now timeout keep rest with
        | None => None | Some (st', n) => Some ((k, r) :: st', n) end
      else
        match to_peer r with
        | None => None
        | Some p =>
            match cleanup_loop now timeout keep rest with
            | None => None
            | Some (st', n) =>
                if is_expired now timeout p then Some (st', n + 1)
                else Some ((k, peer_to_record p) :: st', n)   (* re-persisted unchanged *)
            end
        end
  end.

(* result: -1 = error, otherwise the number of removed peers *)
Definition cleanup_expired_except (now timeout : Z) (keep : list string) (st : store) : store * Z :=
  if timeout <=? 0 then (st, -1)
  else match cleanup_loop now timeout keep st with
       | None => (st, -1)
       | Some (st', n) => (st', n)
       end.

(* poller.cleanupExpired: result 0 = nil, 1 = error *)
Definition poller_cleanup (now : Z) (s : state) : state * Z :=
  if s_listfail s then (s, 1)
  else
    let '(st', n) := cleanup_expired_except now ps_poller_timeout (s_conn s) (s_store s) in
    (set_store s st', if n <? 0 then 1 else 0).

(* ---------- compatibility.go: HasCompatiblePeer ---------- *)
Definition has_compatible_peer (s : state) (id : string) : bool :=
  if valid_peer_id id then
    match st_get id (s_store s) with
    | None => false
    | Some r => match to_peer r with None => false | Some p => is_compatible_with ps_local_version p end
    end
  else false.

(* ---------- operations ---------- *)
Inductive op :=
| OMsg (from : string) (ty : Z) (payload : option snapshot)   (* inbound custom message *)
| OPoll (force : bool)                                        (* PollAllPeers / ForcePollAllPeers *)
| OCleanup                                                    (* one sweep of the cleanup loop *)
| OCleanupDirect (timeout : Z) (keep : list string)           (* Store.CleanupExpiredExcept *)
| OConnect (p : string) (on : bool)                           (* peer connects / disconnects *)
| OSusp (p : string) (on : bool)                              (* policy: suspicious list *)
| OSendFail (p : string) (on : bool)
| OListFail (on : bool)
| OReload                                                     (* close + reopen the store, new PeerSync *)
| OCompat (id : string)                                       (* HasCompatiblePeer *)
| OPutRaw (key : string) (r : record)                         (* a record written by an earlier version *)
| ORemove (p : string).                                       (* Store.RemovePeerState *)

Definition step (now : Z) (s : state) (o : op) : state * list sent * Z :=
  match o with
  | OMsg from ty payload => let '(s', ms) := handle_message now s from ty payload in (s', ms, 0)
  | OPoll force => let '(s', ms) := poll_peers now force s in (s', ms, 0)
  | OCleanup => let '(s', r) := poller_cleanup now s in (s', [], r)
  | OCleanupDirect timeout keep =>
      let '(st', n) := cleanup_expired_except now timeout keep (s_store s) in (set_store s st', [], n)
  | OConnect p on =>
      (State (s_store s) (set_toggle p on (s_conn s)) (s_susp s) (s_sendfail s) (s_listfail s) (s_req s), [], 0)
  | OSusp p on =>
      (State (s_store s) (s_conn s) (set_toggle p on (s_susp s)) (s_sendfail s) (s_listfail s) (s_req s), [], 0)
  | OSendFail p on =>
      (State (s_store s) (s_conn s) (s_susp s) (set_toggle p on (s_sendfail s)) (s_listfail s) (s_req s), [], 0)
  | OListFail on =>
      (State (s_store s) (s_conn s) (s_susp s) (s_sendfail s) on (s_req s), [], 0)
  | OReload => (set_req s [], [], 0)
  | OCompat id => (s, [], if has_compatible_peer s id then 1 else 0)
  | OPutRaw k r => (set_store s (st_put k r (s_store s)), [], 0)
  | ORemove p => (set_store s (st_del p (s_store s)), [], 0)
  end.

Fixpoint run (s : state) (ops : list (Z * op)) : state :=
  match ops with
  | [] => s
  | (now, o) :: r => run (fst (fst (step now s o))) r
  end.
