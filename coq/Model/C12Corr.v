(* C12: neither side pays more than it agreed to.  Pure-function family (amount arithmetic with
   explicit wrap-around, CheckPremiumAmount) and the monitor on observed scenarios. *)
From Coq Require Import String ZArith Bool List.
From PS Require Import Base.Wrap Base.Corr Model.Data Model.Actions Model.Fsm Model.History Model.FsmCorr
  Model.TableChecks Model.C01Corr Gen.ConstsSwap.
Import ListNotations.
Open Scope Z_scope.

(* ---------- pure-function family ---------- *)
Inductive c12_case :=
| C12Fn (out : bool) (amount premium limit : Z)          (* swap-out / swap-in data with this request and agreement *)
        (claim onchain msat : Z) (passed : bool).        (* observed: GetClaimAmount, GetOpeningTXAmount, GetClaimAmount()*1000, CheckPremiumAmount reached next *)

Definition c12_data (out : bool) (amount premium limit : Z) : swap_data :=
  let r := mkReq 7 "id" "regtest" "" "1x2x3" amount "pk" limit in
  if out then
    mkData None None (Some r) (Some (mkOutAgr 7 "id" "pk" "inv" premium)) None None None "" "" "" "" 0 "" 0 false "" "" "" "" None ""
  else
    mkData (Some r) (Some (mkInAgr 7 "id" "pk" premium)) None None None None None "" "" "" "" 0 "" 0 false "" "" "" "" None "".

Definition c12fn_check (c : c12_case) : bool :=
  match c with
  | C12Fn out amount premium limit claim onchain msat passed =>
      let d := c12_data out amount premium limit in
      opt_eqb Z.eqb (get_claim_amount d) (Some claim) &&
      opt_eqb Z.eqb (get_opening_amount d) (Some onchain) &&
      (msat =? u64_mul claim 1000) &&
      opt_eqb Bool.eqb (check_premium d) (Some passed)
  end.

(* the property's words: when the premium check lets the swap continue, the premium is at most the
   initiator's limit, and the amounts that will be paid / locked / requested are EXACTLY
   amount (+ premium) as integers: claim invoice msat = (amount+premium)*1000 for swap-out,
   on-chain amount+premium and invoice amount*1000 for swap-in *)
Definition c12fn_monitor (c : c12_case) : bool :=
  match c with
  | C12Fn out amount premium limit claim onchain msat passed =>
      if passed then
        (premium <=? limit) &&
        (if out then (msat =? (amount + premium) * 1000) && (0 <=? amount + premium) && (onchain =? amount)
         else (onchain =? amount + premium) && (0 <=? amount + premium) && (msat =? amount * 1000))
      else true
  end.

(* ---------- monitor on observed scenarios of the state machines ---------- *)
Definition first_some_z (l : list (option Z)) : option Z := match l with Some v :: _ => Some v | _ => None end.

Definition c12_effect_ok (dec : string -> option (string * Z * Z)) (w : world) (lp : swap_data) (e : effect) : bool :=
  match e with
  | EPayFee payreq scid res =>
      (* swap-out initiator pays the fee invoice: it is the agreement's invoice, premium within the limit,
         fee (sat) at most 3x the own estimate, channel can carry amount + fee *)
      match d_out_req lp, d_out_agr lp, dec payreq, first_some_z (q_fee_est w), first_some_z (q_spendable w) with
      | Some r, Some a, Some (_, msat, _), Some est, Some sp =>
          String.eqb payreq (oa_payreq a) && String.eqb scid (rq_scid r) &&
          (oa_premium a <=? rq_limit r) && (msat / 1000 <=? 3 * est) && (rq_amount r * 1000 + msat <=? sp)
      | _, _, _, _, _ => false
      end
  | EPayClaim payreq scid mx tip res =>
      match dec payreq with
      | Some (_, msat, _) =>
          match d_in_req lp, d_out_req lp, d_out_agr lp with
          | Some r, _, _ => msat =? rq_amount r * 1000                         (* swap-in responder pays exactly amount *)
          | None, Some r, Some a =>                                           (* swap-out initiator: amount + premium, premium <= limit *)
              (msat =? (rq_amount r + oa_premium a) * 1000) && (0 <=? rq_amount r + oa_premium a) &&
              (oa_premium a <=? rq_limit r)
          | _, _, _ => false
          end
      | None => false
      end
  | EBroadcastOpening taker maker hash amount csv blind res =>
      match d_in_req lp, d_in_agr lp, d_out_req lp with
      | Some r, Some a, _ =>                                                  (* swap-in initiator locks amount + premium *)
          (amount =? rq_amount r + ia_premium a) && (0 <=? rq_amount r + ia_premium a) && (ia_premium a <=? rq_limit r)
      | None, _, Some r => amount =? rq_amount r                              (* swap-out responder locks amount *)
      | _, _, _ => false
      end
  | EMkInvoice PKClaim msat pre expiry cltv =>
      match d_in_req lp, d_out_req lp, d_out_agr lp with
      | Some r, _, _ => msat =? rq_amount r * 1000                            (* swap-in initiator requests exactly amount *)
      | None, Some r, Some a => msat =? (rq_amount r + oa_premium a) * 1000   (* swap-out responder: amount + its premium *)
      | _, _, _ => false
      end
  | ESend peer (MInAgr a) => opt_eqb Z.eqb (w_premium w) (Some (ia_premium a))   (* responder charges its configured rate *)
  | ESend peer (MOutAgr a) => opt_eqb Z.eqb (w_premium w) (Some (oa_premium a))
  | _ => true
  end.

Fixpoint c12_trace_ok dec w (lp : swap_data) (es : list effect) : bool :=
  match es with
  | [] => true
  | e :: r => c12_effect_ok dec w lp e && c12_trace_ok dec w (lp_step lp e) r
  end.

Definition c12_monitor (c : fsm_case) : bool :=
  let dec := fun p => assoc_str p (sc_decode c) in
  (* only the part of the scenario inside the environment assumption (see Model/C01Corr.v) *)
  forallb (fun s => c12_trace_ok dec (os_world s) (m_data (os_pre s)) (os_effects s))
          (allowed_prefix false (sc_steps c)).
