(* C07, watcher side: the RPC watcher keeps a maker's opening output on its CSV watch list until the swap
   service has ACCEPTED the CSV notification - a callback that was refused, or that has not been made yet,
   must leave the output watched so that the refund is triggered again at the next block.  Monitor on the
   observed registration / HandleCsvTx sequences of the real BlockchainRpcTxWatcher (the C20 CSV family). *)
From Coq Require Import ZArith Bool List.
From PS Require Import Model.RpcWatcher Model.C20Corr.
Import ListNotations.

(* ops: (gettxout answer, callback fails, true confirmations); observed: (callbacks made, still watched) *)
Fixpoint c07_csv_watch (acked : bool) (ops : list (txout_ans * bool * Z)) (obs : list (nat * bool)) : bool :=
  match ops, obs with
  | _, [] => true
  | [], _ :: _ => false
  | (_, fails, _) :: ro, (n, watched) :: rb =>
      let acked' := acked || (match n with O => false | _ => negb fails end) in
      (watched || acked') && c07_csv_watch acked' ro rb
  end.

Definition c07_watch_monitor (c : c20_case) : bool :=
  match c with
  | CRpcCsv csv ops obs => c07_csv_watch false ops obs
  | _ => true
  end.
