(* C04: monitors evaluated on observed scenarios of the real state machine. *)
From Coq Require Import String ZArith Bool List.
From PS Require Import Base.Corr Model.Data Model.Actions Model.Fsm Model.History Model.FsmCorr Gen.ConstsSwap.
Import ListNotations.
Open Scope Z_scope.

(* the guard the CODE establishes (policy constants taken from the code via tc) *)
Definition c04_guard (tc : tl_consts) (lp : swap_data) (e : effect) : bool :=
  match e with
  | EPayClaim payreq scid mx tip res =>
      match timelock_policy tc lp with
      | Some pol =>
          p_allow_new pol && (mx =? p_max_total pol) &&
          (if String.eqb (get_chain lp) lbtc_chain then check_payment_window lp tip pol else true)
      | None => false
      end
  | _ => true
  end.

(* the property's own words, with the numbers of the property text:
   Liquid v7: anchor set, anchor <= tip < anchor + 60, total route CLTV limit 32;
   Liquid v6: never a new claim payment *)
Definition c04_spec_guard (lp : swap_data) (e : effect) : bool :=
  match e with
  | EPayClaim payreq scid mx tip res =>
      if String.eqb (get_chain lp) lbtc_chain then
        (get_version lp =? 7) && d_start_set lp &&
        (d_start_height lp <=? tip) && (tip <? d_start_height lp + 60) && (mx =? 32)
      else true
  | _ => true
  end.

(* final CLTV of the invoice a Liquid claim payment is made for: at most 29 *)
Definition c04_cltv_guard (dec : list (string * (string * Z * Z))) (lp : swap_data) (e : effect) : bool :=
  match e with
  | EPayClaim payreq scid mx tip res =>
      if String.eqb (get_chain lp) lbtc_chain then
        match assoc_str payreq dec with
        | Some (_, _, cltv) => (0 <=? cltv) && (cltv <=? 29)
        | None => false
        end
      else true
  | _ => true
  end.

Definition c04_monitor (c : fsm_case) : bool :=
  forallb (fun s =>
    trace_okb c04_spec_guard (m_data (os_pre s)) (os_effects s) &&
    trace_okb (c04_cltv_guard (sc_decode c)) (m_data (os_pre s)) (os_effects s)) (sc_steps c).
