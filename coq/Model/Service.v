(* The service layer of swap/service.go above the per-swap state machines:
   message routing (OnMessageReceived after decoding), admission pre-checks of
   incoming requests, lockSwap / the active-swap map, the RPC entry points
   SwapOut / SwapIn, and the durable store.  Executable definitions only. *)
From Coq Require Import String Ascii ZArith Bool List.
From RecordUpdate Require Import RecordSet.
From PS Require Import Base.Wrap Model.Data Model.Actions Model.Fsm Model.History.
Import ListNotations RecordSetNotations.
Open Scope Z_scope.

(* a node: the in-memory active-swap map and the durable records (by swap id) *)
Record node := mkNode {
  n_active : list (string * machine);
  n_store : list (string * (string * swap_data)) }.

#[export] Instance eta_node : Settable _ := settable! mkNode <n_active; n_store>.

Fixpoint put {A} (k : string) (v : A) (l : list (string * A)) : list (string * A) :=
  match l with
  | [] => [(k, v)]
  | (k', v') :: r => if String.eqb k k' then (k, v) :: r else (k', v') :: put k v r
  end.

Fixpoint del {A} (k : string) (l : list (string * A)) : list (string * A) :=
  match l with
  | [] => []
  | (k', v') :: r => if String.eqb k k' then del k r else (k', v') :: del k r
  end.

(* answers of the environment that only the service layer consults *)
Record svc_world := mkSvcWorld {
  sw_inner : world;                 (* answers for the state-machine step (if one happens) *)
  sw_swaps_allowed : bool;
  sw_peer_suspicious : bool;
  sw_min_amount_msat : Z;
  sw_premium : option Z;            (* premium.Setting.Compute for the request (None = error) *)
  sw_can_spend : bool;
  sw_spendable : option Z;
  sw_receivable : option Z;
  sw_probe : option bool;
  sw_max_swap_amount : option Z;    (* estimateMaximumSwapAmountSat (None = error) *)
  sw_fresh_privkey : string;        (* key of a newly created swap *)
  sw_fresh_id : string }.           (* NewSwapId() of a locally initiated swap *)

Inductive svc_result :=
| SOk                 (* handler returned nil *)
| SErrNoSwap          (* ErrSwapDoesNotExist *)
| SErrUnexpectedPeer
| SErrRefused         (* a pre-check or lockSwap refused; a cancel was sent where the code sends one *)
| SErrMachine (e : err_kind).

Definition msg_id (m : wire_msg) : string :=
  match m with
  | MInReq r | MOutReq r => rq_id r
  | MInAgr a => ia_id a | MOutAgr a => oa_id a | MOtb o => ob_id o
  | MCoop c => cc_id c | MCancel c => cn_id c
  end.

Definition is_request_msg (m : wire_msg) : bool := match m with MInReq _ | MOutReq _ => true | _ => false end.

Definition event_of_msg (m : wire_msg) : string :=
  match m with
  | MInReq _ => "Event_SwapInReceiver_OnRequestReceived"
  | MOutReq _ => "Event_OnSwapOutRequestReceived"
  | MInAgr _ => "Event_SwapInSender_OnAgreementReceived"
  | MOutAgr _ => "Event_OnFeeInvoiceReceived"
  | MOtb _ => "Event_OnTxOpenedMessage"
  | MCoop _ => "Event_OnCoopCloseReceived"
  | MCancel _ => "Event_OnCancelReceived"
  end.

(* channel ids in both spellings name the same channel *)
Fixpoint norm_scid (s : string) : string :=
  match s with
  | EmptyString => EmptyString
  | String c r => String (if Ascii.eqb c ":"%char then "x"%char else c) (norm_scid r)
  end.

(* lockSwap: refuse when an ACTIVE swap's request carries the same channel id
   (compared irrespective of the separator, sameChannel in the code); otherwise (re)bind the id *)
Definition lock_swap (n : node) (id scid : string) (m : machine) : option node :=
  if existsb (fun p => String.eqb (norm_scid (get_scid (m_data (snd p)))) (norm_scid scid)) (n_active n) then None
  else Some (n <| n_active := put id m (n_active n) |>).

(* refuseKnownSwapId: the id of an active or stored swap *)
Definition id_known (n : node) (id : string) : bool :=
  match assoc_str id (n_active n), assoc_str id (n_store n) with
  | None, None => false
  | _, _ => true
  end.

Definition persists_of (es : list effect) : option (string * swap_data) := last_persist es.

Section Svc.
Variable tc : tl_consts.
Variable decode : string -> option (string * Z * Z).
(* state tables of the four roles *)
Variable t_out_sender t_out_receiver t_in_sender t_in_receiver : table.
Variable terminal : list string.

Definition table_of (m : machine) : table :=
  if (m_type m =? 2) then (if m_role m =? 1 then t_out_sender else t_out_receiver)
  else (if m_role m =? 1 then t_in_sender else t_in_receiver).

(* run one state-machine entry point for the swap bound to [id], update map and store *)
Definition deliver (n : node) (id : string) (m : machine) (i : input) (w : world)
  : node * list effect * outcome :=
  let '(o, _, es) := run_step tc decode (table_of m) terminal m i w in
  let act := if o_removed o then del id (n_active n) else put id (o_machine o) (n_active n) in
  let st := match persists_of es with
            | Some rec => put id rec (n_store n)
            | None => n_store n
            end in
  (mkNode act st, es, o).

Definition cancel_to (peer id : string) : effect := ESend peer (MCancel (mkCancel id EmptyString)).

Definition fresh (id : string) (ty role : Z) (peer initiator priv : string) : machine :=
  fresh_machine id ty role peer initiator priv.

(* OnSwapOutRequestReceived. A refusal sends a cancel and returns nil: the code returns the
   (shadowed) error of MarshalPeerswapMessage, not the error that caused the refusal. *)
Definition on_out_request (n : node) (sender : string) (r : req) (sw : svc_world)
  : node * list effect * svc_result :=
  if id_known n (rq_id r) then (n, [cancel_to sender (rq_id r)], SErrRefused) else
  match sw_premium sw with
  | None => (n, [], SErrRefused)
  | Some prem =>
    if rq_limit r <? prem then (n, [cancel_to sender (rq_id r)], SOk) else
    match sw_receivable sw with
    | None => (n, [cancel_to sender (rq_id r)], SOk)
    | Some rs =>
      if rs <? u64_mul (rq_amount r) 1000 then (n, [cancel_to sender (rq_id r)], SOk) else
      let m := fresh (rq_id r) 2 2 sender sender (sw_fresh_privkey sw) in
      match lock_swap n (rq_id r) (rq_scid r) m with
      | None => (n, [cancel_to sender (rq_id r)], SOk)
      | Some n1 =>
        let '(n2, es, o) := deliver n1 (rq_id r) m (InEvent "Event_OnSwapOutRequestReceived" (Some (MOutReq r))) (sw_inner sw) in
        (n2, es, match r_err (o_result o) with ErrNone => SOk | e => SErrMachine e end)
      end
    end
  end.

(* OnSwapInRequestReceived *)
Definition on_in_request (n : node) (sender : string) (r : req) (sw : svc_world)
  : node * list effect * svc_result :=
  if id_known n (rq_id r) then (n, [cancel_to sender (rq_id r)], SErrRefused) else
  match sw_premium sw with
  | None => (n, [], SErrRefused)
  | Some prem =>
    if rq_limit r <? prem then (n, [cancel_to sender (rq_id r)], SOk) else
    if negb (sw_can_spend sw) then (n, [cancel_to sender (rq_id r)], SOk) else
    match sw_spendable sw with
    | None => (n, [cancel_to sender (rq_id r)], SOk)
    | Some sp =>
      if sp <? u64_mul (rq_amount r) 1000 then (n, [cancel_to sender (rq_id r)], SOk) else
      match sw_probe sw with
      | None | Some false => (n, [cancel_to sender (rq_id r)], SOk)
      | Some true =>
        let m := fresh (rq_id r) 1 2 sender sender (sw_fresh_privkey sw) in
        match lock_swap n (rq_id r) (rq_scid r) m with
        | None => (n, [cancel_to sender (rq_id r)], SOk)
        | Some n1 =>
          let '(n2, es, o) := deliver n1 (rq_id r) m (InRequestIn r) (sw_inner sw) in
          (n2, es, match r_err (o_result o) with ErrNone => SOk | e => SErrMachine e end)
        end
      end
    end
  end.

(* OnMessageReceived for a decoded, well-formed peerswap message *)
Definition on_message (n : node) (sender : string) (m : wire_msg) (sw : svc_world)
  : node * list effect * svc_result :=
  match m with
  | MOutReq r => on_out_request n sender r sw
  | MInReq r => on_in_request n sender r sw
  | _ =>
    let id := msg_id m in
    match assoc_str id (n_active n) with
    | None => (n, [], SErrNoSwap)
    | Some mach =>
      if negb (String.eqb (d_peer (m_data mach)) sender) then (n, [], SErrUnexpectedPeer) else
      let '(n2, es, o) := deliver n id mach (InEvent (event_of_msg m) (Some m)) (sw_inner sw) in
      (n2, es, match r_err (o_result o) with ErrNone => SOk | e => SErrMachine e end)
    end
  end.

(* the RPC entry points SwapOut / SwapIn (chain already resolved to asset/network by the caller) *)
Record rpc_params := mkRpc {
  rp_out : bool; rp_peer : string; rp_initiator : string; rp_scid : string; rp_amount : Z;
  rp_asset : string; rp_network : string; rp_pubkey : string; rp_limit : Z }.

Definition rpc_start (n : node) (p : rpc_params) (sw : svc_world) : node * list effect * svc_result :=
  if negb (sw_swaps_allowed sw) then (n, [], SErrRefused) else
  if sw_peer_suspicious sw then (n, [], SErrRefused) else
  if u64_mul (rp_amount p) 1000 <? sw_min_amount_msat sw then (n, [], SErrRefused) else
  if negb (sw_can_spend sw) then (n, [], SErrRefused) else
  let cap := if rp_out p then sw_spendable sw else sw_receivable sw in
  match cap with
  | None => (n, [], SErrRefused)
  | Some c =>
    if c <? u64_mul (rp_amount p) 1000 then (n, [], SErrRefused) else
    let max_ok := if rp_out p then true else
                    match sw_max_swap_amount sw with Some mx => negb (mx <? rp_amount p) | None => false end in
    if negb max_ok then (n, [], SErrRefused) else
    let id := sw_fresh_id sw in
    let m := fresh id (if rp_out p then 2 else 1) 1 (rp_peer p) (rp_initiator p) (sw_fresh_privkey sw) in
    match lock_swap n id (rp_scid p) m with
    | None => (n, [], SErrRefused)
    | Some n1 =>
      let r := mkReq (tc_current_version tc) id (rp_network p) (rp_asset p) (rp_scid p) (rp_amount p) (rp_pubkey p) (rp_limit p) in
      let i := if rp_out p then InEvent "Event_OnSwapOutStarted" (Some (MOutReq r))
               else InEvent "Event_SwapInSender_OnSwapInRequested" (Some (MInReq r)) in
      let '(n2, es, o) := deliver n1 id m i (sw_inner sw) in
      (n2, es, match r_err (o_result o) with ErrNone => SOk | e => SErrMachine e end)
    end
  end.

End Svc.

