(* C08: monitor evaluated on observed scenarios of the real state machine: the
   opening_tx_broadcasted message against what the (fake) wallet and Lightning
   node were asked and answered in the same step.  Numbers from the property text. *)
From Coq Require Import String ZArith Bool List.
From PS Require Import Base.Corr Model.Data Model.Actions Model.Eqb Model.Fsm Model.History Model.FsmCorr.
Import ListNotations.
Open Scope Z_scope.

Definition c08_text_expiry (d : swap_data) : Z :=
  if String.eqb (get_chain d) btc_chain then 86400 else 3600.
Definition c08_text_cltv (d : swap_data) : Z :=
  if String.eqb (get_chain d) btc_chain then 503 else 29.

(* the message [m] stored by this step describes the wallet result and the invoice of this step *)
Definition c08_msg_ok (dec : list (string * (string * Z * Z))) (post : swap_data) (es : list effect) (m : otb) : bool :=
  let lb := String.eqb (get_chain post) lbtc_chain in
  (* txid and output index are those of the transaction the wallet broadcast, for the opening amount *)
  existsb (fun e =>
    match e with
    | EBroadcastOpening tk mk hash amt csv wb (Some o) =>
        String.eqb (or_txid o) (ob_txid m) && (or_vout o =? ob_vout m)
        && opt_eqb Z.eqb (get_opening_amount post) (Some amt)
        && Bool.eqb wb lb
        (* the invoice of the message pays exactly the claim amount to the hash locked in that output,
           with the final CLTV of the property text *)
        && match assoc_str (ob_payreq m) dec, get_claim_amount post with
           | Some (h, msat, cltv), Some claim =>
               String.eqb h hash && (msat =? claim * 1000) && (cltv =? c08_text_cltv post)
           | _, _ => false
           end
    | _ => false
    end) es
  (* the invoice was requested with the expiry and final CLTV of the property text *)
  && existsb (fun e =>
    match e with
    | EMkInvoice PKClaim msat pre expiry cltv =>
        (expiry =? c08_text_expiry post) && (cltv =? c08_text_cltv post)
        && match get_claim_amount post with Some claim => msat =? claim * 1000 | None => false end
    | _ => false
    end) es
  (* Liquid: the blinding key of the swap; Bitcoin: none *)
  && (if lb then String.eqb (ob_blinding m) (d_blinding_hex post) && str_nonempty (ob_blinding m)
      else negb (str_nonempty (ob_blinding m))).

Definition c08_step_ok (dec : list (string * (string * Z * Z))) (s : obs_step) : bool :=
  let pre := m_data (os_pre s) in
  let post := m_data (os_post s) in
  (* only makers create the message: a taker's record holds the peer's message *)
  let created :=
    match d_otb pre, d_otb post with
    | None, Some m =>
        if existsb (fun e => match e with EBroadcastOpening _ _ _ _ _ _ _ => true | _ => false end) (os_effects s)
        then c08_msg_ok dec post (os_effects s) m else true
    | _, _ => true
    end in
  (* every opening_tx_broadcasted message sent is the stored one *)
  let sent :=
    forallb (fun e =>
      match e with
      | ESend _ (MOtb m) => match d_otb post with Some m' => otb_eqb m m' | None => false end
      | _ => true
      end) (os_effects s) in
  created && sent.

Definition c08_fsm_monitor (c : fsm_case) : bool :=
  forallb (c08_step_ok (sc_decode c)) (sc_steps c).
