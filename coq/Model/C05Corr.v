(* C05: the Bitcoin claim HTLC always expires before the maker can refund via CSV.
   Guards and monitors evaluated on OBSERVED scenarios of the real state machine; the
   simulated chain also says at which height the opening transaction was mined (the taker's
   code never looks at it - that is the point of the finding). *)
From Coq Require Import String ZArith Bool List.
From PS Require Import Base.Wrap Base.Corr Model.Data Model.Actions Model.Fsm Model.History Model.FsmCorr
  Model.TableChecks Model.C01Corr Model.PayRoute Gen.ConstsSwap Gen.ConstsC24.
Import ListNotations.
Open Scope Z_scope.

(* ---------- the route CLTV the taker's own payment request permits (Bitcoin: limit 0) ---------- *)
(* CLN: the delay of the single hop of buildDirectClaimRoute; lnd: CltvLimit of buildDirectClaimPaymentRequest *)
Definition cln_delta (f : Z) : option Z :=
  match cln_route (mk_cln_invoice "payee" 0 f "hash") "1x1x1" 0 with
  | Some [h] => Some (h_delay h)
  | _ => None
  end.
Definition lnd_delta (f : Z) : option Z :=
  match lnd_build lnd_block_padding "payreq" (mk_lnd_invoice "peer" 0 f) (mk_lnd_chan 1 "peer" 0) 0 with
  | Some r => Some (rq_cltv_limit r)
  | None => None
  end.

(* ---------- the guard the CODE enforces at each RebalancePayment of a Bitcoin swap ---------- *)
Definition c05_guard (tc : tl_consts) (lp : swap_data) (e : effect) : bool :=
  match e with
  | EPayClaim payreq scid mx tip res =>
      if String.eqb (get_chain lp) btc_chain
      then negb (csv_height tc lp / 2 <? u32_sub tip (d_start_height lp)) else true
  | _ => true
  end.

(* in the property's numbers: payment height at most 504 blocks after the start anchor (uint32 difference) *)
Definition c05_spec_guard (lp : swap_data) (e : effect) : bool :=
  match e with
  | EPayClaim payreq scid mx tip res =>
      if String.eqb (get_chain lp) btc_chain then u32_sub tip (d_start_height lp) <=? 504 else true
  | _ => true
  end.

(* ---------- the FULL statement at one payment ---------- *)
(* start S, opening confirmation height C, payment height P, invoice final CLTV f:
   P + (route CLTV) < C + 1008 for both back-ends *)
Definition c05_full_at (C P f : Z) : bool :=
  match cln_delta f, lnd_delta f with
  | Some dc, Some dl => (P + dc <? C + 1008) && (P + dl <? C + 1008)
  | _, _ => false
  end.

(* what follows from the code's guard alone: the HTLC expires at most 1012 blocks after the start *)
Definition c05_enforced_at (S P f : Z) : bool :=
  (S <=? P) && (P <=? S + 504) && (0 <=? f) && (f <=? 504) &&
  match cln_delta f, lnd_delta f with
  | Some dc, Some dl => (P + dc <=? S + 1009) && (P + dl <=? S + 1012)
  | _, _ => false
  end.

(* ---------- monitor: case = (scenario, per step: height at which the opening tx was mined) ---------- *)
Definition c05_case : Type := (fsm_case * list (option Z))%type.

Definition c05_check (c : c05_case) : bool := fsm_check (fst c).

Definition invoice_cltv_of (dec : string -> option (string * Z * Z)) (payreq : string) : option Z :=
  match dec payreq with Some (_, _, f) => Some f | None => None end.

(* every Bitcoin payment of the step: guard of the code, and - when the environment says where the
   opening tx was mined - the full statement *)
Fixpoint c05_effects_ok (dec : string -> option (string * Z * Z)) (conf : option Z) (full : bool)
    (lp : swap_data) (es : list effect) : bool :=
  match es with
  | [] => true
  | e :: r =>
      (match e with
       | EPayClaim payreq scid mx tip res =>
           if String.eqb (get_chain lp) btc_chain then
             match invoice_cltv_of dec payreq with
             | Some f =>
                 c05_enforced_at (d_start_height lp) tip f &&
                 (if full then match conf with Some C => c05_full_at C tip f | None => true end else true)
             | None => false
             end
           else true
       | _ => true
       end) && c05_effects_ok dec conf full (lp_step lp e) r
  end.

Fixpoint c05_steps_ok (dec : string -> option (string * Z * Z)) (full : bool)
    (steps : list obs_step) (obs : list (option Z)) : bool :=
  match steps with
  | [] => true
  | s :: r =>
      let conf := match obs with o :: _ => o | [] => None end in
      c05_effects_ok dec conf full (m_data (os_pre s)) (os_effects s) &&
      c05_steps_ok dec full r (match obs with _ :: t => t | [] => [] end)
  end.

(* the Bitcoin starting height, once recorded, is the anchor of every later bound (announcement until start+503,
   payment until start+504): no step - restarts included - may move it *)
Definition c05_start_stable (steps : list obs_step) : bool :=
  forallb (fun s =>
    let a := d_start_height (m_data (os_pre s)) in
    if String.eqb (get_chain (m_data (os_pre s))) btc_chain && (0 <? a)
    then d_start_height (m_data (os_post s)) =? a else true) steps.

(* the property's full statement on the observed scenario *)
Definition c05_monitor (c : c05_case) : bool :=
  let dec := fun p => assoc_str p (sc_decode (fst c)) in
  (* only the part of the scenario inside the environment assumption (see Model/C01Corr.v) *)
  let steps := allowed_prefix false (sc_steps (fst c)) in
  c05_steps_ok dec true steps (snd c) && c05_start_stable steps.
