(* Model of version/compare.go CompareVersionStrings. Executable; no proofs. *)
From Coq Require Import List String Ascii ZArith Bool.
From PS Require Import Base.Strs.
Import ListNotations.
Open Scope Z_scope.

(* regexp [0-9]+ FindAllString: all maximal digit runs, left to right.
   Fuel = length of the input (each step consumes at least one char). *)
Fixpoint digit_runs_fuel (fuel : nat) (l : list ascii) : list (list ascii) :=
  match fuel with
  | O => []
  | S f =>
      match l with
      | [] => []
      | c :: r =>
          if is_digit c then
            let (d, rest) := span_digits l in d :: digit_runs_fuel f rest
          else digit_runs_fuel f r
      end
  end.

Definition digit_runs (s : string) : list (list ascii) :=
  let l := chars s in digit_runs_fuel (S (List.length l)) l.

Definition zero_run : list ascii := ["0"%char].

Definition pad_to (n : nat) (l : list (list ascii)) : list (list ascii) :=
  l ++ repeat zero_run (n - List.length l).

(* conversion loop: Atoi(partsA[i]) then Atoi(partsB[i]); any error aborts *)
Fixpoint convert (la lb : list (list ascii)) : option (list Z * list Z) :=
  match la, lb with
  | a :: la', b :: lb' =>
      match atoi_digits a, atoi_digits b with
      | Some x, Some y =>
          match convert la' lb' with
          | Some (xs, ys) => Some (x :: xs, y :: ys)
          | None => None
          end
      | _, _ => None
      end
  | _, _ => Some ([], [])
  end.

(* comparison loop over equal-length lists: a >= b lexicographically *)
Fixpoint lex_ge (la lb : list Z) : bool :=
  match la, lb with
  | a :: la', b :: lb' =>
      if a <? b then false else if b <? a then true else lex_ge la' lb'
  | _, _ => true
  end.

(* None = error return *)
Definition compare_versions (a b : string) : option bool :=
  let pa := digit_runs a in
  let pb := digit_runs b in
  let n := Nat.max (List.length pa) (List.length pb) in
  match convert (pad_to n pa) (pad_to n pb) with
  | None => None
  | Some (xs, ys) => Some (lex_ge xs ys)
  end.

(* the numeric components (None on Atoi range error) *)
Fixpoint components_of (l : list (list ascii)) : option (list Z) :=
  match l with
  | [] => Some []
  | d :: r =>
      match atoi_digits d, components_of r with
      | Some x, Some xs => Some (x :: xs)
      | _, _ => None
      end
  end.

Definition components (s : string) : option (list Z) := components_of (digit_runs s).
