(* Executable model of version/service.go:SafeUpgrade, version/store.go and
   swap/service.go:HasActiveSwaps + swap/store.go:ListAll + fsm.go:IsFinished.  No proofs here. *)
From Coq Require Import String Bool List.
Import ListNotations.

(* one record of the "swaps" bucket: a state machine that decodes (only its
   Current state matters here) or bytes that do not decode *)
Inductive swap_rec :=
| SwState (current : string)
| SwCorrupt.

(* the database file: the "version" bucket (key "version") and the "swaps" bucket *)
Record db := mkDb { db_version : option string; db_swaps : list swap_rec }.

Inductive up_err :=
| UOk
| UActive      (* ActiveSwapsError *)
| UOther.      (* any other error *)

Section VersionDb.
  (* SwapStateMachine.IsFinished as dumped from the code over every state name *)
  Variable finished_table : list (string * bool).

  (* IsFinished: true exactly for the state names listed as finished *)
  Definition is_finished (s : string) : bool :=
    existsb (fun e => String.eqb (fst e) s && snd e) finished_table.

  (* bboltStore.ListAll: ForEach + json.Unmarshal; any record that does not decode fails the call *)
  Fixpoint list_all (l : list swap_rec) : option (list string) :=
    match l with
    | [] => Some []
    | SwCorrupt :: _ => None
    | SwState s :: r => match list_all r with Some ss => Some (s :: ss) | None => None end
    end.

  (* SwapService.HasActiveSwaps; None = error *)
  Definition has_active_swaps (l : list swap_rec) : option bool :=
    match list_all l with
    | None => None
    | Some ss => Some (existsb (fun s => negb (is_finished s)) ss)
    end.

  (* VersionService.SafeUpgrade run by a binary whose version constant is [current] *)
  Definition safe_upgrade (current : string) (d : db) : db * up_err :=
    let upgrade :=
      match has_active_swaps (db_swaps d) with
      | None => (d, UOther)
      | Some true => (d, UActive)
      | Some false => (mkDb (Some current) (db_swaps d), UOk)
      end in
    match db_version d with
    | Some v => if String.eqb v current then (d, UOk) else upgrade
    | None => upgrade
    end.

  (* histories: starts of (possibly different) binaries interleaved with arbitrary swap activity *)
  Inductive ev :=
  | EStart (binary_version : string)
  | ESwaps (l : list swap_rec).      (* the running node rewrote the swaps bucket to l *)

  Definition step (d : db) (e : ev) : db :=
    match e with
    | EStart cur => fst (safe_upgrade cur d)
    | ESwaps l => mkDb (db_version d) l
    end.

  Fixpoint transitions (d : db) (es : list ev) : list (db * ev * db) :=
    match es with
    | [] => []
    | e :: r => (d, e, step d e) :: transitions (step d e) r
    end.
End VersionDb.
