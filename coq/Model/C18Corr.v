(* C18 correspondence: (a) the generated lock/access skeleton with the computed certificates and the boolean
   lock-order check; (b) the deadlock scenarios run against the real SwapService + real watchers. *)
From Coq Require Import NArith Bool String List.
Import ListNotations.
From PS Require Import Base.Corr Gen.Skel Gen.Tables Model.Fsm Model.Skel.
Open Scope string_scope.

(* ---------- the skeleton of the code as it is now ---------- *)

Definition c18_skel_full : skeleton := mkSkeleton skel_funs skel_ifaces skel_slots skel_roots.

(* Finding C18/1 (D17) is REPAIRED ("fix: txwatcher: run the csv callback of an already matured tx off the caller's
   goroutine"): BlockchainRpcTxWatcher.AddWaitForCsvTx used to call the CSV callback synchronously, under the swap's
   mutex held by AwaitCsvAction / AwaitPaymentOrCsvAction, and the callback (OnCsvPassed -> SendEvent) takes the same
   mutex.  Nothing is taken out of the skeleton any more: (function, (op code 10 = CallSlot, slot)) *)
Definition c18_known : list (string * (N * string)) := [].
Definition c18_known_ids : list (N * (N * N)) :=
  resolve_ops skel_fn_names skel_lock_names skel_field_names skel_iface_names skel_slot_names c18_known.

Definition c18_skel : skeleton := erase c18_skel_full c18_known_ids.
Definition c18_prog : prog := prog_of c18_skel.
Definition c18_prog_full : prog := prog_of c18_skel_full.
(* evaluated once, when this file is compiled against the regenerated skeleton *)
Definition c18_may_acquire : list (N * list N) := Eval vm_compute in may_acquire c18_prog.
Definition c18_edges : list (lock * lock) := lock_edges c18_prog (lookupL c18_may_acquire).
Definition c18_ranks : list (N * nat) := ranks c18_edges.

(* extractor reported no construct it cannot flatten soundly, every op decodes, and the lock-order check holds on the
   skeleton minus the known finding *)
Definition c18_skeleton_ok : bool :=
  is_nil skel_warnings && well_formed c18_skel_full &&
  lock_order_check c18_prog (lookupL c18_may_acquire) (rk_lookup c18_ranks).

(* the FULL skeleton, for the report and the finding *)
Definition c18_may_acquire_full : list (N * list N) := Eval vm_compute in may_acquire c18_prog_full.
Definition c18_edges_full : list (lock * lock) := lock_edges c18_prog_full (lookupL c18_may_acquire_full).
Definition c18_full_ok : bool :=
  lock_order_check c18_prog_full (lookupL c18_may_acquire_full) (rk_lookup (ranks c18_edges_full)).
Definition c18_cycle_edges_full : list (string * string) :=
  map (fun e => (name_of skel_lock_names (fst e), name_of skel_lock_names (snd e))) (cyclic_edges c18_edges_full).

(* for the report: held -> acquired edges that lie on a cycle, by name *)
Definition c18_cycle_edges : list (string * string) :=
  map (fun e => (name_of skel_lock_names (fst e), name_of skel_lock_names (snd e))) (cyclic_edges c18_edges).
Definition c18_all_edges : list (string * string) :=
  map (fun e => (name_of skel_lock_names (fst e), name_of skel_lock_names (snd e))) c18_edges.

(* ---------- the state-machine consequence: a maker that waits for the claim payment reaches the CSV refund ---------- *)

Definition ev_cancel := "Event_OnCancelReceived".
Definition ev_coop := "Event_OnCoopCloseReceived".
Definition ev_invalid := "Event_Invalid_Message".
Definition ev_csv := "Event_OnCsvPassed".
Definition ev_ok := "Event_ActionSucceeded".
Definition ev_fail := "Event_ActionFailed".

Fixpoint walk (t : table) (s : string) (evs : list string) : option string :=
  match evs with
  | [] => Some s
  | e :: r => match next_state t s e with Some s' => walk t s' r | None => None end
  end.

(* events a maker in its payment-or-CSV wait goes through when the trigger arrives and the CSV is / becomes mature *)
Definition trigger_events (trigger : string) : list string :=
  if String.eqb trigger "cancel" then [ev_cancel]
  else if String.eqb trigger "coop_fail" then [ev_coop; ev_fail]
  else [ev_invalid].

Definition refund_path (trigger : string) : list string := trigger_events trigger ++ [ev_csv; ev_ok].
Definition direct_refund_path : list string := [ev_csv; ev_ok].

Definition state_has_action (t : table) (s : string) (a : string) : bool :=
  match lookup_state t s with
  | Some st =>
      match st_action st with
      | Some tree => (fix has (tr : Actions.action_tree) : bool :=
                        match tr with Actions.ANode n ch => String.eqb n a || existsb has ch end) tree
      | None => false
      end
  | None => false
  end.

(* table-level part of "a cancel or failed coop close after CSV maturity leads to the refund": for each of the three
   triggers the state reached registers the CSV watch, and the CSV event leads to the state that builds the CSV spend
   and from there to State_ClaimedCsv *)
Definition maker_refund_ok (t : table) (start : string) : bool :=
  forallb (fun trg =>
    match walk t start (trigger_events trg) with
    | Some w =>
        state_has_action t w "AwaitCsvAction" &&
        match walk t w [ev_csv] with
        | Some c => state_has_action t c "ClaimSwapTransactionWithCsv" &&
                    match walk t c [ev_ok] with Some f => String.eqb f "State_ClaimedCsv" | None => false end
        | None => false
        end
    | None => false
    end) ["cancel"; "coop_fail"; "invalid"] &&
  match walk t start direct_refund_path with Some f => String.eqb f "State_ClaimedCsv" | None => false end.

Definition c18_tables_ok : bool :=
  maker_refund_ok table_swap_in_sender "State_SwapInSender_AwaitClaimPayment" &&
  maker_refund_ok table_swap_out_receiver "State_SwapOutReceiver_AwaitClaimInvoicePayment".

(* ---------- deadlock scenarios ---------- *)

Record c18_case := mkC18 {
  c_table : table;          (* the maker's state table (generated) *)
  c_start : string;         (* state the maker was in when the scenario started *)
  c_trigger : string;       (* cancel | coop_fail | invalid *)
  c_maturity : N;           (* 0 CSV not yet, 1 just, 2 long matured when the trigger is delivered *)
  c_order : N;              (* 0 trigger first, 1 block notification first, 2 concurrent *)
  c_watcher : string;
  o_completed : bool;       (* every injected call returned before the watchdog (5 s) *)
  o_final : string;         (* persisted state at the end *)
  o_csv_spends : N;         (* CSV refund transactions built by the wallet *)
  o_active : bool           (* swap still in the active map *)
}.

(* model: the lock-order theorem excludes blocking; the tables give the final state on either order of the events *)
Definition c18_model_final (c : c18_case) : list (option string) :=
  let a := walk (c_table c) (c_start c) (refund_path (c_trigger c)) in
  let b := walk (c_table c) (c_start c) direct_refund_path in
  match c_order c with
  | 0%N => [a]
  | 1%N => [b]
  | _ => [a; b]
  end.

Definition c18_check (c : c18_case) : bool :=
  o_completed c &&
  existsb (fun m => match m with Some s => String.eqb s (o_final c) | None => false end) (c18_model_final c).

(* the property's own statement on the observed run: nothing blocked for 5 s, and the maker ended with the refund *)
Definition c18_monitor (c : c18_case) : bool :=
  o_completed c && String.eqb (o_final c) "State_ClaimedCsv" && N.leb 1 (o_csv_spends c) && negb (o_active c).

(* ---------- block dispatcher of the RPC watcher (psh c18disp) ----------
   A confirmation callback of some swap runs for [slow_ms]; blocks keep arriving every [block_ms]; another swap's
   output matures [csv] blocks after it was mined.  Observed: the confirmation and the CSV notification arrived. *)
Record c18d_case := mkC18D {
  cd_slow_ms : Z; cd_csv : Z; cd_block_ms : Z; cd_nslow : Z; cd_conf_seen : bool; cd_csv_seen : bool }.

Definition c18d_check (c : c18d_case) : bool := true.
(* handling chain notifications never blocks for ever: the CSV notification of the other swap is delivered *)
Definition c18d_monitor (c : c18d_case) : bool := cd_conf_seen c && cd_csv_seen c.
