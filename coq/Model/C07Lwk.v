(* C07, LWK wallet adapter: LWKRpcWallet.CreateAndBroadcastTransaction = wallet_send_many; signer_sign;
   wallet_broadcast; electrum GetRawTransaction - each may fail.  Model: the call succeeds iff none of the four fails;
   a transaction is on the network iff the first three succeed.  So a failure of the raw-transaction fetch returns an
   error AFTER the broadcast: the caller (LiquidOnChain.CreateOpeningTransaction -> the maker's
   CreateAndBroadcastOpeningTransaction action) treats it as "nothing was sent" and cancels the swap without a record
   of the output it funded. *)
From Coq Require Import NArith Bool List.
From PS Require Import Base.Corr.
Import ListNotations.

(* failure injected at: 0 none, 1 send (fund), 2 sign, 3 broadcast, 4 fetch of the raw transaction *)
Definition lwk_broadcasts (fail_at : N) : bool := N.eqb fail_at 0 || N.eqb fail_at 4.
Definition lwk_returns_ok (fail_at : N) : bool := N.eqb fail_at 0.

Record lwk_case := mkLwkCase { lk_fail_at : N; lk_broadcast : bool; lk_ok : bool; lk_reported : bool }.

Definition lwk_check (c : lwk_case) : bool :=
  Bool.eqb (lwk_broadcasts (lk_fail_at c)) (lk_broadcast c) &&
  Bool.eqb (lwk_returns_ok (lk_fail_at c)) (lk_ok c) &&
  Bool.eqb (lk_ok c) (lk_reported c).

(* the property on observed data: whenever the wallet has broadcast a transaction the adapter hands that transaction
   (id and raw bytes) to the caller *)
Definition lwk_monitor (c : lwk_case) : bool := implb (lk_broadcast c) (lk_reported c).

(* FULL statement about the adapter - refuted (Findings/F_C07_3.v) *)
Definition C07_lwk_full : Prop := forall fail_at, (fail_at <= 4)%N ->
  lwk_broadcasts fail_at = true -> lwk_returns_ok fail_at = true.
