(* Monitors for the service-layer properties C09, C10, C11 on observed scenarios. *)
From Coq Require Import String ZArith Bool List.
From PS Require Import Base.Corr Model.Data Model.Actions Model.Fsm Model.History Model.Eqb Model.Service Model.SvcCorr
  Gen.Tables Gen.ConstsSwap.
Import ListNotations.
Open Scope Z_scope.

Definition is_request (m : wire_msg) : bool := match m with MInReq _ | MOutReq _ => true | _ => false end.

Definition opt_machine_eqb := opt_eqb machine_eqb.
Definition rec_eqb (x y : string * swap_data) : bool := String.eqb (fst x) (fst y) && data_eqb (snd x) (snd y).

(* walk the observed steps with the node before each step *)
Fixpoint with_pre (n : node) (steps : list svc_step) : list (node * svc_step) :=
  match steps with
  | [] => []
  | s :: r => (n, s) :: with_pre (ss_node s) r
  end.

(* ---------------- C09 ---------------- *)
(* (a) a message about a swap from anyone but its counterparty, or about an unknown swap, changes nothing *)
Definition c09_foreign_ok (p : node * svc_step) : bool :=
  let '(pre, s) := p in
  match ss_op s with
  | SvMsg sender m =>
      if is_request m then true else
      match assoc_str (msg_id m) (n_active pre) with
      | None => node_eqb pre (ss_node s) && match ss_effects s with [] => true | _ => false end
      | Some mach =>
          if String.eqb (d_peer (m_data mach)) sender then true
          else node_eqb pre (ss_node s) && match ss_effects s with [] => true | _ => false end
      end
  | _ => true
  end.

(* (b) a request re-using a known id (active or stored) leaves that swap's record, keys and progress untouched *)
Definition c09_reuse_ok (p : node * svc_step) : bool :=
  let '(pre, s) := p in
  match ss_op s with
  | SvMsg sender m =>
      if is_request m then
        let id := msg_id m in
        let known := match assoc_str id (n_active pre), assoc_str id (n_store pre) with None, None => false | _, _ => true end in
        if known then
          opt_machine_eqb (assoc_str id (n_active pre)) (assoc_str id (n_active (ss_node s))) &&
          opt_eqb rec_eqb (assoc_str id (n_store pre)) (assoc_str id (n_store (ss_node s)))
        else true
      else true
  | _ => true
  end.

(* (c) a message the swap's current state does not accept changes nothing *)
Definition c09_rejected_ok (p : node * svc_step) : bool :=
  let '(pre, s) := p in
  match ss_op s, ss_result s with
  | SvMsg _ m, SErrMachine ErrRejected => node_eqb pre (ss_node s)
  | _, _ => true
  end.

(* no handler may panic *)
Definition c09_no_panic (p : node * svc_step) : bool :=
  match ss_result (snd p) with SErrMachine ErrPanic => false | _ => true end.

Definition c09_monitor (c : svc_case) : bool :=
  forallb (fun p => c09_foreign_ok p && c09_reuse_ok p && c09_rejected_ok p && c09_no_panic p)
          (with_pre (vc_pre c) (vc_steps c)).

(* which clause fails first (for signatures): 1 foreign, 2 reuse, 3 rejected, 4 panic *)
Definition c09_clauses (c : svc_case) : list nat :=
  flat_map (fun p => ((if c09_foreign_ok p then [] else [1%nat]) ++ (if c09_reuse_ok p then [] else [2%nat]) ++
                     (if c09_rejected_ok p then [] else [3%nat]) ++ (if c09_no_panic p then [] else [4%nat]))%list)
           (with_pre (vc_pre c) (vc_steps c)).

(* ---------------- C10 ---------------- *)
(* the channels of the node's non-terminal swaps: those in the active map and those only in the
   durable store (stored but not (yet) recovered), each swap counted once *)
Definition active_scids (terminal : list string) (n : node) : list string :=
  let live_active :=
    filter (fun p => negb (existsb (String.eqb (m_cur (snd p))) terminal) &&
                     str_nonempty (get_scid (m_data (snd p)))) (n_active n) in
  let stored_only :=
    filter (fun p => negb (existsb (String.eqb (fst (snd p))) terminal) &&
                     str_nonempty (get_scid (snd (snd p))) &&
                     match assoc_str (fst p) (n_active n) with None => true | Some _ => false end) (n_store n) in
  (map (fun p => norm_scid (get_scid (m_data (snd p)))) live_active ++
   map (fun p => norm_scid (get_scid (snd (snd p)))) stored_only)%list.

Fixpoint no_dup_str (l : list string) : bool :=
  match l with [] => true | x :: r => negb (existsb (String.eqb x) r) && no_dup_str r end.

Definition has_cancel_to (sender : string) (es : list effect) : bool :=
  existsb (fun e => match e with ESend p (MCancel _) => String.eqb p sender | _ => false end) es.

Definition c10_step_ok (p : node * svc_step) : bool :=
  let '(pre, s) := p in
  no_dup_str (active_scids terminal_states (ss_node s)) &&
  match ss_op s with
  | SvMsg sender m =>
      match m with
      | MInReq r | MOutReq r =>
          (* a request for a channel that already has an active swap is answered with cancel *)
          if existsb (String.eqb (norm_scid (rq_scid r))) (active_scids terminal_states pre)
          then has_cancel_to sender (ss_effects s) else true
      | _ => true
      end
  | _ => true
  end.

(* which clause fails: 1 two active swaps on one channel, 2 request on a busy channel not cancelled *)
Definition c10_clauses (c : svc_case) : list nat :=
  flat_map (fun p => let '(pre, s) := p in
     ((if no_dup_str (active_scids terminal_states (ss_node s)) then [] else [1%nat]) ++
      (if c10_step_ok p || negb (no_dup_str (active_scids terminal_states (ss_node s))) then [] else [2%nat]))%list)
    (with_pre (vc_pre c) (vc_steps c)).

Definition c10_monitor (c : svc_case) : bool :=
  no_dup_str (active_scids terminal_states (vc_pre c)) && forallb c10_step_ok (with_pre (vc_pre c) (vc_steps c)).

(* ---------------- C11 ---------------- *)
Definition sends_agreement (es : list effect) : bool :=
  existsb (fun e => match e with ESend _ (MInAgr _) | ESend _ (MOutAgr _) => true | _ => false end) es.

(* every condition of the statement, on the request and the environment of that step (integers, no wrap) *)
Definition c11_conditions (out : bool) (r : req) (sw : svc_world) : bool :=
  let w := sw_inner sw in
  let lbtc := str_nonempty (rq_asset r) && negb (str_nonempty (rq_network r)) in
  let btc := negb (str_nonempty (rq_asset r)) && str_nonempty (rq_network r) in
  w_swaps_allowed w &&
  ((lbtc && w_liquid_enabled w && String.eqb (rq_asset r) (w_wallet_asset w)) ||
   (btc && w_bitcoin_enabled w && String.eqb (rq_network r) (w_wallet_network w))) &&
  (rq_version r =? 7) &&
  (w_min_amount_msat w <=? rq_amount r * 1000) &&
  (match (if out then sw_receivable sw else sw_spendable sw) with Some c => rq_amount r * 1000 <=? c | None => false end) &&
  w_peer_allowed w && negb (w_peer_suspicious w) &&
  (match sw_premium sw with Some p => p <=? rq_limit r | None => false end) &&
  (if out then
     match q_fee_est w, q_balance w with
     | Some fee :: _, Some bal :: _ => rq_amount r + fee <=? bal
     | _, _ => false
     end
   else true).

Definition c11_step_ok (p : node * svc_step) : bool :=
  let '(_, s) := p in
  match ss_op s with
  | SvMsg sender (MInReq r) =>
      if sends_agreement (ss_effects s) then c11_conditions false r (ss_world s)
      else has_cancel_to sender (ss_effects s)
  | SvMsg sender (MOutReq r) =>
      if sends_agreement (ss_effects s) then c11_conditions true r (ss_world s)
      else has_cancel_to sender (ss_effects s)
  | _ => true
  end.

(* 1: agreement although a condition fails, 2: neither agreement nor cancel; 9: the request amount is in the wrap region *)
Definition c11_clauses (c : svc_case) : list nat :=
  flat_map (fun p => let s := snd p in
     match ss_op s with
     | SvMsg sender (MInReq r) | SvMsg sender (MOutReq r) =>
         if c11_step_ok p then [] else
           ((if sends_agreement (ss_effects s) then [1%nat] else [2%nat]) ++
            (if 18446744073709552 <=? rq_amount r then [9%nat] else []))%list
     | _ => []
     end) (with_pre (vc_pre c) (vc_steps c)).

Definition c11_monitor (c : svc_case) : bool := forallb c11_step_ok (with_pre (vc_pre c) (vc_steps c)).
