(* Correspondence for the swap state machines: one case = one scenario (a list
   of observed steps of the real SwapService for one swap). *)
From Coq Require Import String ZArith Bool List.
From PS Require Import Base.Corr Model.Data Model.Actions Model.Fsm Model.Eqb Gen.Tables Gen.ConstsSwap.
Import ListNotations.
Open Scope Z_scope.

Record obs_step := mkStep {
  os_pre : machine; os_input : input; os_world : world;
  os_post : machine; os_removed : bool; os_err : option err_kind;
  os_effects : list effect }.

Record fsm_case := mkScenario {
  sc_table : table;
  sc_decode : list (string * (string * Z * Z));   (* the invoices known to the (fake) Lightning node *)
  sc_steps : list obs_step }.

Definition world_consumed (w : world) : bool :=
  negb (w_overrun w) &&
  match q_height w, q_send w, q_store w, q_pay w with [], [], [], [] => true | _, _, _, _ => false end &&
  match q_recover_pay w, q_payfee w, q_mkinvoice w, q_fee_est w with [], [], [], [] => true | _, _, _, _ => false end &&
  match q_balance w, q_spendable w, q_probe w, q_create_opening w with [], [], [], [] => true | _, _, _, _ => false end &&
  match q_spend w, q_script w, q_validate w, q_addsender w with [], [], [], [] => true | _, _, _, _ => false end &&
  match q_addsusp w, q_preimage w, q_blind w with [], [], [] => true | _, _, _ => false end.

Definition step_check (t : table) (dec : list (string * (string * Z * Z))) (s : obs_step) : bool :=
  let '(o, w', effs) := run_step tl_consts_gen (fun p => assoc_str p dec) t terminal_states (os_pre s) (os_input s) (os_world s) in
  machine_eqb (o_machine o) (os_post s)
  && Bool.eqb (o_removed o) (os_removed s)
  && match os_err s with Some k => err_eqb (r_err (o_result o)) k | None => true end
  && list_eqb effect_eqb effs (os_effects s)
  && world_consumed w'.

Definition fsm_check (c : fsm_case) : bool := forallb (step_check (sc_table c) (sc_decode c)) (sc_steps c).

(* index of the first step that differs, for diagnosis *)
Definition fsm_first_bad (c : fsm_case) : list nat := bad_indexes (step_check (sc_table c) (sc_decode c)) (sc_steps c).

Definition fsm_monitor (c : fsm_case) : bool := true.
