(* Correspondence and case types for the service layer (C09, C10, C11). *)
From Coq Require Import String ZArith Bool List.
From PS Require Import Base.Corr Model.Data Model.Actions Model.Fsm Model.History Model.Eqb Model.Service
  Gen.Tables Gen.ConstsSwap.
Import ListNotations.
Open Scope Z_scope.

Inductive svc_op :=
| SvMsg (sender : string) (m : wire_msg)   (* OnMessageReceived with a decoded message *)
| SvRpc (p : rpc_params)                   (* SwapOut / SwapIn *)
| SvReset.                                 (* restart: the observed node is adopted as is *)

Record svc_step := mkSvcStep {
  ss_op : svc_op; ss_world : svc_world; ss_result : svc_result;
  ss_effects : list effect; ss_node : node }.

Record svc_case := mkSvcCase {
  vc_decode : list (string * (string * Z * Z));
  vc_pre : node;
  vc_steps : list svc_step }.

Definition svc_result_eqb (a b : svc_result) : bool :=
  match a, b with
  | SOk, SOk | SErrNoSwap, SErrNoSwap | SErrUnexpectedPeer, SErrUnexpectedPeer | SErrRefused, SErrRefused => true
  | SErrMachine x, SErrMachine y => err_eqb x y
  | _, _ => false
  end.

Definition assoc_sub {A} (e : A -> A -> bool) (l1 l2 : list (string * A)) : bool :=
  forallb (fun p => match assoc_str (fst p) l2 with Some v => e (snd p) v | None => false end) l1.

Definition assoc_eqb {A} (e : A -> A -> bool) (l1 l2 : list (string * A)) : bool :=
  Nat.eqb (List.length l1) (List.length l2) && assoc_sub e l1 l2 && assoc_sub e l2 l1.

Definition node_eqb (a b : node) : bool :=
  assoc_eqb machine_eqb (n_active a) (n_active b) &&
  assoc_eqb (fun x y => String.eqb (fst x) (fst y) && data_eqb (snd x) (snd y)) (n_store a) (n_store b).

Definition svc_model (dec : list (string * (string * Z * Z))) (n : node) (op : svc_op) (sw : svc_world)
  : node * list effect * svc_result :=
  let d := fun p => assoc_str p dec in
  match op with
  | SvMsg sender m =>
      on_message tl_consts_gen d table_swap_out_sender table_swap_out_receiver table_swap_in_sender
        table_swap_in_receiver terminal_states n sender m sw
  | SvRpc p =>
      rpc_start tl_consts_gen d table_swap_out_sender table_swap_out_receiver table_swap_in_sender
        table_swap_in_receiver terminal_states n p sw
  | SvReset => (n, [], SOk)
  end.

Fixpoint svc_run (dec : list (string * (string * Z * Z))) (n : node) (steps : list svc_step) : list bool :=
  match steps with
  | [] => []
  | s :: r =>
      let ok :=
        match ss_op s with
        | SvReset => true
        | _ =>
          let '(n', es, res) := svc_model dec n (ss_op s) (ss_world s) in
          node_eqb n' (ss_node s) && list_eqb effect_eqb es (ss_effects s) && svc_result_eqb res (ss_result s)
        end in
      (* continue from the OBSERVED node so that one difference does not cascade *)
      ok :: svc_run dec (ss_node s) r
  end.

Definition svc_check (c : svc_case) : bool := forallb (fun b => b) (svc_run (vc_decode c) (vc_pre c) (vc_steps c)).
Definition svc_first_bad (c : svc_case) : list nat := bad_indexes (fun b => b) (svc_run (vc_decode c) (vc_pre c) (vc_steps c)).

Definition svc_monitor (c : svc_case) : bool := true.
