(* Correspondence / monitor functions for C02 (evaluated on harness cases). *)
From Coq Require Import String ZArith NArith Bool List.
From PS Require Import Base.Corr Base.ScriptOps Model.ScriptInterp Model.OpeningScript Gen.Script.
Import ListNotations.
Open Scope Z_scope.

Inductive c02_case :=
(* onchain.ParamsToTxScript on hex strings; obs = None when an error was returned *)
| CScript (taker_hex maker_hex hash_hex : string) (csv : Z) (obs : option bytes)
(* witness script behind the output script of a chain (0 bitcoin v7, 1 liquid v7,
   2 liquid v6, 3 bitcoin v6) for real keys, the CSV of the node's timelock policy, and whether
   the address funded when the opening tx is created has that same output script *)
| CChain (chain : N) (taker maker phash : bytes) (obs_policy_csv : Z) (obs_created_same : bool) (obs_script : bytes)
(* btcd engine verdicts: the witness stacks (lists of item tags, first item first)
   that were accepted among ALL stacks of at most [maxlen] tagged items *)
| CEngine (chain flagset hmode keymode : N) (sq txver : Z) (maxlen : nat) (obs_accepted : list (list N))
(* the same for the script GetOpeningTxScript builds with an arbitrary uint32 csv *)
| CEngineCsv (csv : Z) (flagset : N) (sq txver : Z) (maxlen : nat) (obs_accepted : list (list N)).

Definition gen_script_of (chain : N) : bytes -> bytes -> bytes -> list op :=
  match chain with
  | 0%N => gen_script_bitcoin
  | 1%N => gen_script_liquid
  | 2%N => gen_script_liquid_legacy
  | _ => gen_script_bitcoin_legacy
  end.
Definition gen_csv_of (chain : N) : Z :=
  match chain with 0%N => gen_csv_bitcoin | 1%N => gen_csv_liquid | 2%N => gen_csv_liquid_legacy | _ => gen_csv_bitcoin_legacy end.
Definition gen_policy_csv_of (chain : N) : Z :=
  match chain with 0%N => gen_policy_csv_bitcoin | 1%N => gen_policy_csv_liquid
              | 2%N => gen_policy_csv_liquid_legacy | _ => gen_policy_csv_bitcoin_legacy end.

(* the numbers of the property text *)
Definition text_csv (chain : N) : Z :=
  match chain with 0%N => 1008 | 1%N => 10080 | 2%N => 60 | _ => 1008 end.

Definition op_eqb (a b : op) : bool :=
  match a, b with
  | OP_PUSH x, OP_PUSH y => bytes_eqb x y
  | OP_IF, OP_IF | OP_NOTIF, OP_NOTIF | OP_ELSE, OP_ELSE | OP_ENDIF, OP_ENDIF
  | OP_SIZE, OP_SIZE | OP_EQUALVERIFY, OP_EQUALVERIFY | OP_SHA256, OP_SHA256
  | OP_CHECKSIG, OP_CHECKSIG | OP_CSV, OP_CSV => true
  | OP_UNKNOWN x, OP_UNKNOWN y => N.eqb x y
  | _, _ => false
  end.

(* ---------- the tag world: abstract items with an oracle for the crypto ---------- *)
(* tags: 0 valid taker sig, 1 valid maker sig, 2 valid sig by a third key, 3 empty,
   4 garbage (not DER), 5 32-byte secret P32, 6 other 32 bytes, 7 31-byte secret P31,
   8 33-byte secret P33 *)
Definition tags : list N := [0;1;2;3;4;5;6;7;8]%N.

Definition tag_item (t : N) : bytes :=
  match t with
  | 0%N => repeat 1%N 9 | 1%N => repeat 2%N 9 | 2%N => repeat 3%N 9
  | 3%N => []
  | 4%N => [1%N]
  | 5%N => repeat 17%N 32 | 6%N => repeat 18%N 32 | 7%N => repeat 19%N 31
  | _ => repeat 20%N 33
  end.

Definition key_maker : bytes := 3%N :: repeat 11%N 32.
Definition key_other : bytes := 2%N :: repeat 12%N 32.
Definition key_taker (keymode : N) : bytes :=
  if N.eqb keymode 1 then key_maker else 2%N :: repeat 10%N 32.

(* payment hash: the SHA-256 of P32 (hmode 0), of P33 (1) or of P31 (2) *)
Definition tag_hash (hmode : N) : bytes := repeat (50 + hmode)%N 32.

Definition tag_sha256 (x : bytes) : bytes :=
  if bytes_eqb x (tag_item 5) then tag_hash 0
  else if bytes_eqb x (tag_item 8) then tag_hash 1
  else if bytes_eqb x (tag_item 7) then tag_hash 2
  else if bytes_eqb x (tag_item 6) then repeat 99%N 32
  else repeat 0%N 32.

(* signature oracle: a DER signature verifies only under its signer's key; a
   non-empty failing signature aborts under NULLFAIL and pushes false otherwise;
   anything that is not DER aborts (DERSIG is in both flag sets) *)
Definition tag_checksig (nullfail : bool) (keymode : N) (pk sg : bytes) : sigres :=
  let signer :=
    if bytes_eqb sg (tag_item 0) then Some (key_taker keymode)
    else if bytes_eqb sg (tag_item 1) then Some key_maker
    else if bytes_eqb sg (tag_item 2) then Some key_other
    else None in
  match signer with
  | None => SigAbort
  | Some k => if bytes_eqb k pk then SigOk else if nullfail then SigAbort else SigFalse
  end.

Definition flags_of (flagset : N) : flags :=
  if N.eqb flagset 0 then Build_flags true true else Build_flags false false.
Definition nullfail_of (flagset : N) : bool := N.eqb flagset 0.

Fixpoint stacks_len (n : nat) : list (list N) :=
  match n with
  | O => [[]]
  | S k => flat_map (fun s => map (fun t => t :: s) tags) (stacks_len k)
  end.
Definition all_stacks (m : nat) : list (list N) := flat_map stacks_len (List.seq 0 (S m)).

Definition stack_mem (s : list N) (l : list (list N)) : bool := existsb (list_eqb N.eqb s) l.

(* what the interpreter model says for one tagged witness stack *)
Definition model_accept (chain flagset hmode keymode : N) (sq txver : Z) (s : list N) : bool :=
  eval_witness (tag_checksig (nullfail_of flagset) keymode) tag_sha256 (flags_of flagset) txver sq
    (gen_script_of chain (key_taker keymode) key_maker (tag_hash hmode)) (map tag_item s).

Definition model_accept_csv (csv : Z) (flagset : N) (sq txver : Z) (s : list N) : bool :=
  eval_witness (tag_checksig (nullfail_of flagset) 0) tag_sha256 (flags_of flagset) txver sq
    (opening_ops (key_taker 0) key_maker (tag_hash 0) (int_push csv)) (map tag_item s).

(* ---------- model == observed ---------- *)
Definition c02_check (c : c02_case) : bool :=
  match c with
  | CScript t m h csv obs => opt_eqb bytes_eqb (params_to_tx_script t m h csv) obs
  | CChain chain t m h pcsv same obs =>
      same && opt_eqb (list_eqb op_eqb) (disassemble obs) (Some (gen_script_of chain t m h))
      && bytes_eqb obs (sb_script (get_opening_tx_script t m h (gen_csv_of chain)))
      && negb (sb_err (get_opening_tx_script t m h (gen_csv_of chain)))
      && (pcsv =? gen_policy_csv_of chain)
  | CEngine chain fs hm km sq ver maxlen obs =>
      forallb (fun s => Nat.leb (length s) maxlen) obs &&
      forallb (fun s => Bool.eqb (model_accept chain fs hm km sq ver s) (stack_mem s obs)) (all_stacks maxlen)
  | CEngineCsv csv fs sq ver maxlen obs =>
      forallb (fun s => Nat.leb (length s) maxlen) obs &&
      forallb (fun s => Bool.eqb (model_accept_csv csv fs sq ver s) (stack_mem s obs)) (all_stacks maxlen)
  end.

(* ---------- the property's own statement on the observed data ---------- *)
Definition is_sig_tag (t : N) : bool := N.leb t 2.
Definition valid_maker_tag (t : N) : bool := N.eqb t 1.
Definition valid_taker_tag (keymode t : N) : bool := if N.eqb keymode 1 then N.eqb t 1 || N.eqb t 0 else N.eqb t 0.
Definition valid_maker_tag' (keymode t : N) : bool := if N.eqb keymode 1 then N.eqb t 1 || N.eqb t 0 else N.eqb t 1.
(* an item that makes the maker's signature check yield false without aborting *)
Definition not_maker_sig (flagset keymode t : N) : bool :=
  N.eqb t 3 || (negb (nullfail_of flagset) && is_sig_tag t && negb (valid_maker_tag' keymode t)).

(* "the input sequence commits to at least csv blocks" (BIP 68/112): version >= 2,
   disable bit clear, block-based, low 16 bits >= csv *)
Definition commits_csv (csv sq txver : Z) : bool :=
  (2 <=? txver mod 4294967296) && negb (Z.testbit sq 31) && negb (Z.testbit sq 22) && (csv <=? sq mod 65536).

Definition spec_accept_csv (csv : Z) (flagset hmode keymode : N) (sq txver : Z) (s : list N) : bool :=
  match s with
  | [st; pre; y; x] =>          (* (a) taker signature + 32-byte preimage of the payment hash *)
      valid_taker_tag keymode st && N.eqb pre 5 && N.eqb hmode 0
      && not_maker_sig flagset keymode y && not_maker_sig flagset keymode x
  | [st; sm; x] =>              (* (b) taker and maker signatures *)
      valid_taker_tag keymode st && valid_maker_tag' keymode sm && not_maker_sig flagset keymode x
  | [sm] =>                     (* (c) maker signature after the CSV of the property text *)
      valid_maker_tag' keymode sm && commits_csv csv sq txver
  | _ => false
  end.

Definition spec_accept (chain : N) := spec_accept_csv (text_csv chain).

Fixpoint script_csv (ops : list op) : option Z :=
  match ops with
  | OP_PUSH d :: ((OP_CSV :: _) as r) =>
      match script_csv r with
      | Some v => Some v
      | None => scriptnum_decode false 5 d
      end
  | _ :: r => script_csv r
  | [] => None
  end.

Definition c02_monitor (c : c02_case) : bool :=
  match c with
  | CScript _ _ _ _ obs =>
      match obs with
      | None => true
      | Some b => match disassemble b with Some _ => true | None => false end
      end
  | CChain chain _ _ _ pcsv same obs =>
      same && (pcsv =? text_csv chain) &&
      match disassemble obs with
      | Some ops => opt_eqb Z.eqb (script_csv ops) (Some (text_csv chain))
      | None => false
      end
  | CEngine chain fs hm km sq ver maxlen obs =>
      forallb (fun s => Bool.eqb (spec_accept chain fs hm km sq ver s) (stack_mem s obs)) (all_stacks maxlen)
  | CEngineCsv csv fs sq ver maxlen obs =>
      (* the three shapes, for every csv the general theorem covers (1 <= csv < 2^16) *)
      if (1 <=? csv) && (csv <? 65536) then
        forallb (fun s => Bool.eqb (spec_accept_csv csv fs 0 0 sq ver s) (stack_mem s obs)) (all_stacks maxlen)
      else true
  end.
