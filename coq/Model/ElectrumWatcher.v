(* Model of electrum/tx_observer.go (hasConfirmations, getHeight,
   observeOpeningTX.Callback, observeCSVTX.Callback), electrum/block_subscriber.go
   (Register / Deregister / Update) and lwk/electrumtxwatcher.go (parseBlockHeight,
   acceptBlockHeight, the header loop of StartWatchingTxs, GetBlockHeight).
   Executable; no proofs here.

   BlockHeight is int64 in the Go code; the values that reach it are int32 (electrum
   heights) and uint32 (starting height, window, csv), so no int64 operation below can
   overflow and plain Z arithmetic is exact. *)
From Coq Require Import ZArith Bool List.
From PS Require Import Model.RpcWatcher.
Import ListNotations.
Open Scope Z_scope.

(* one entry of the blockchain.scripthash.get_history answer *)
Inductive hist_entry :=
| HNil                    (* nil pointer in the slice *)
| HBad                    (* tx_hash does not parse *)
| HOther (h : Z)          (* another transaction *)
| HMatch (h : Z).         (* the watched transaction at height h (<= 0: unconfirmed) *)

Inductive hist_ans := HistErr | HistList (l : list hist_entry).

Fixpoint get_height (l : list hist_entry) : option Z :=
  match l with
  | [] => None
  | HMatch h :: _ => Some h
  | _ :: r => get_height r
  end.

(* hasConfirmations: None = error *)
Definition has_confirmations (tx tip required : Z) : option bool :=
  if tip <=? 0 then None
  else if tx <=? 0 then Some false
  else if tip <? tx then None
  else Some (required <=? tip - tx + 1).

(* what the swap service's callback returns *)
Inductive cb_res := CbNil | CbNoSwap | CbFail.

(* result of TXObserver.Callback: (callbacked, error kind, event) *)
Inductive err_kind := ENone | ENoSwap | EOther.
Definition err_of_cb (c : cb_res) : err_kind :=
  match c with CbNil => ENone | CbNoSwap => ENoSwap | CbFail => EOther end.

Inductive eev :=
| EvConfOk (swap raw : Z)
| EvConfErr (swap : Z)
| EvCsv (swap : Z).

Inductive ereg :=
| RegOpen (swap start window : Z)
| RegCsv (swap csv : Z).

Definition reg_swap (r : ereg) : Z :=
  match r with RegOpen s _ _ => s | RegCsv s _ => s end.

(* answers available to one observer during one Update round *)
Record eans := mkEans {
  ea_hist : hist_ans;
  ea_raw : raw_ans;
  ea_cb : cb_res
}.

Definition opening_callback (confs : Z) (swap start window : Z) (tip : Z) (a : eans)
  : bool * err_kind * list eev :=
  if tip <=? 0 then (false, EOther, [])
  else
    let deadline := start + window in
    if (tip <? start) || (deadline <=? tip) then
      (true, err_of_cb (ea_cb a), [EvConfErr swap])
    else
      match ea_hist a with
      | HistErr => (false, EOther, [])
      | HistList l =>
          match get_height l with
          | None => (false, ENone, [])
          | Some h =>
              match has_confirmations h tip confs with
              | None => (false, EOther, [])
              | Some false => (false, ENone, [])
              | Some true =>
                  match ea_raw a with
                  | RawErr => (false, ENone, [])
                  | RawStr r => (true, err_of_cb (ea_cb a), [EvConfOk swap r])
                  end
              end
          end
      end.

Definition csv_callback (swap csv : Z) (tip : Z) (a : eans) : bool * err_kind * list eev :=
  match ea_hist a with
  | HistErr => (false, EOther, [])
  | HistList l =>
      match get_height l with
      | None => (false, ENone, [])
      | Some h =>
          match has_confirmations h tip csv with
          | None => (false, EOther, [])
          | Some false => (false, ENone, [])
          | Some true => (true, err_of_cb (ea_cb a), [EvCsv swap])
          end
      end
  end.

Definition observer_callback (confs : Z) (r : ereg) (tip : Z) (a : eans) :=
  match r with
  | RegOpen s st w => opening_callback confs s st w tip a
  | RegCsv s c => csv_callback s c tip a
  end.

(* observers are identified by their registration index *)
Definition obs := (nat * ereg)%type.

(* Deregister(o): drops every observer with o's swap id *)
Definition deregister (swap : Z) (l : list obs) : list obs :=
  filter (fun o => negb (reg_swap (snd o) =? swap)) l.

Definition default_ans : eans := mkEans HistErr RawErr CbFail.

(* Update: ranges over the slice as it was when the round started, while
   Deregister replaces h.txObservers *)
Fixpoint update_round (confs : Z) (tip : Z) (answers : list eans)
  (snapshot : list obs) (cur : list obs) : list obs * list eev :=
  match snapshot with
  | [] => (cur, [])
  | (i, r) :: rest =>
      let '(called, e, evs) := observer_callback confs r tip (nth i answers default_ans) in
      let cur' :=
        if called && (match e with ENone | ENoSwap => true | EOther => false end)
        then deregister (reg_swap r) cur else cur in
      let '(fin, evs') := update_round confs tip answers rest cur' in
      (fin, evs ++ evs')
  end.

(* ---- lwk/electrumtxwatcher.go ---- *)

Record ew_state := mkEw {
  ew_height : Z;          (* r.blockHeight *)
  ew_terminal : bool;     (* r.terminalErr != nil *)
  ew_running : bool;      (* the header goroutine is alive *)
  ew_observers : list obs;
  ew_next : nat           (* next registration index *)
}.

(* parseBlockHeight + acceptBlockHeight: None = error, Some (height, changed, new blockHeight) *)
Definition accept_block_height (bh : Z) (terminal : bool) (hdr : option Z)
  : option (Z * bool * Z) :=
  match hdr with
  | None => None
  | Some h =>
      if h <=? 0 then None
      else if terminal then None
      else if (0 <? bh) && (h <=? bh) then Some (h, false, bh)
      else Some (h, true, h)
  end.

(* GetBlockHeight: None = error *)
Definition ew_get_block_height (s : ew_state) : option Z :=
  if ew_terminal s then None
  else if ew_height s <=? 0 then None
  else if 4294967295 <? ew_height s then None
  else Some (ew_height s).

Inductive estep :=
| EHeader (hdr : option Z) (answers : list eans)
| ERegister (r : ereg).

(* one header arriving on the subscription while the goroutine runs *)
Definition ew_header (confs : Z) (s : ew_state) (hdr : option Z) (answers : list eans)
  : ew_state * list eev :=
  if negb (ew_running s) then (s, [])
  else
    match accept_block_height (ew_height s) (ew_terminal s) hdr with
    | None => (mkEw (ew_height s) true false (ew_observers s) (ew_next s), [])   (* fail(); return *)
    | Some (h, false, _) => (s, [])
    | Some (h, true, bh') =>
        let '(l, evs) := update_round confs h answers (ew_observers s) (ew_observers s) in
        (mkEw bh' (ew_terminal s) true l (ew_next s), evs)
    end.

Definition ew_register (s : ew_state) (r : ereg) : ew_state :=
  mkEw (ew_height s) (ew_terminal s) (ew_running s) (ew_observers s ++ [(ew_next s, r)]) (S (ew_next s)).

Definition ew_step (confs : Z) (s : ew_state) (st : estep) : ew_state * list eev :=
  match st with
  | EHeader hdr answers => ew_header confs s hdr answers
  | ERegister r => (ew_register s r, [])
  end.

Fixpoint ew_steps (confs : Z) (s : ew_state) (steps : list estep)
  : list (list eev * option Z) :=
  match steps with
  | [] => []
  | st :: r =>
      let '(s', evs) := ew_step confs s st in
      (evs, ew_get_block_height s') :: ew_steps confs s' r
  end.

Fixpoint register_all (s : ew_state) (regs : list ereg) : ew_state :=
  match regs with
  | [] => s
  | r :: rest => register_all (ew_register s r) rest
  end.

(* StartWatchingTxs handles the first header synchronously: an invalid header makes it
   return an error (the watcher does not start, terminalErr stays nil). *)
Definition ew_start (confs : Z) (regs : list ereg) (hdr : option Z) (answers : list eans)
  : bool * ew_state * list eev :=
  let s0 := register_all (mkEw 0 false false [] O) regs in
  match accept_block_height 0 false hdr with
  | None => (false, s0, [])
  | Some (h, _, bh') =>
      let '(l, evs) := update_round confs h answers (ew_observers s0) (ew_observers s0) in
      (true, mkEw bh' false true l (ew_next s0), evs)
  end.
