(* C17: negotiation waits are bounded by timeouts, also after restarts.
   The reflective table check used by the theorems and the monitor evaluated on
   observed scenarios (with the timer durations seen by the step observer "c17").
   Executable definitions only. *)
From Coq Require Import String ZArith Bool List.
From PS Require Import Base.Wrap Base.Corr Model.Data Model.Actions Model.Fsm Model.History Model.FsmCorr
  Gen.ConstsSwap Gen.Tables.
Import ListNotations.
Open Scope Z_scope.

(* the numbers of the property text: 10 minutes *)
Definition c17_timeout_s : Z := 600.

Definition c17_out_sender_wait : string := "State_SwapOutSender_AwaitAgreement".
Definition c17_in_sender_wait : string := "State_SwapInSender_AwaitAgreement".
Definition c17_out_receiver_wait : string := "State_SwapOutReceiver_AwaitFeeInvoicePayment".
Definition c17_waits : list string := [c17_out_sender_wait; c17_in_sender_wait; c17_out_receiver_wait].

(* the three negotiation waits of the property, in the tables of the code *)
Definition c17_wait_tables : list (table * string) :=
  [(table_swap_out_sender, c17_out_sender_wait); (table_swap_in_sender, c17_in_sender_wait);
   (table_swap_out_receiver, c17_out_receiver_wait)].

(* ---------- reflective check on a table ---------- *)
(* state s exists and its action is exactly the leaf [name] *)
Definition is_action (t : table) (s name : string) : bool :=
  match lookup_state t s with
  | Some sd => match st_action sd with
               | Some (ANode n []) => String.eqb n name
               | _ => false
               end
  | None => false
  end.

(* event ev leads from s to a state that sends a cancel message; whatever the send returns,
   the next state is finished and its action ends the swap *)
Definition cancel_path (t : table) (terminal : list string) (s ev : string) : bool :=
  match next_state t s ev with
  | Some c =>
      is_action t c "SendCancelAction" &&
      match next_state t c Ev_Succeeded, next_state t c Ev_Failed with
      | Some x, Some y =>
          is_action t x "CancelAction" && is_action t y "CancelAction"
          && is_finished terminal x && is_finished terminal y
      | _, _ => false
      end
  | None => false
  end.

Definition has_action (t : table) (s : string) : bool :=
  match lookup_state t s with
  | Some sd => match st_action sd with Some _ => true | None => false end
  | None => false
  end.

Definition fails_on_recover (t : table) (s : string) : bool :=
  match lookup_state t s with Some sd => st_fail_on_recover sd | None => false end.

(* a negotiation wait: the timeout cancels and tells the peer; so does a restart *)
Definition c17_wait_ok (t : table) (terminal : list string) (s : string) : bool :=
  cancel_path t terminal s Ev_Timeout
  && has_action t s && fails_on_recover t s && cancel_path t terminal s Ev_Failed.

Definition stores_ok (w : world) : bool := forallb (fun b => b) (q_store w).

Definition is_cancel_to (peer : string) (e : effect) : bool :=
  match e with ESend p (MCancel _) => String.eqb p peer | _ => false end.

(* the only effects of a cancellation: store writes and the cancel message *)
Definition cancel_effect (e : effect) : bool :=
  match e with EPersist _ _ _ | ESend _ (MCancel _) => true | _ => false end.

(* ---------- what "the swap was cancelled" means for one entry point ---------- *)
(* the record that is durable after a list of effects *)
Definition lp_acc (acc : option (string * swap_data)) (e : effect) : option (string * swap_data) :=
  match e with EPersist s d true => Some (s, d) | _ => acc end.
Definition lastp (acc : option (string * swap_data)) (es : list effect) := fold_left lp_acc es acc.

(* the entry point returned "done" without error (the service then removes the swap from the
   active set), the machine is in a finished state, a cancel message went to the swap's peer,
   the last durable record is that finished machine, and nothing else was done *)
Definition cancelled (terminal : list string) (m m' : machine) (res : result) (es : list effect) : Prop :=
  res = mkResult true ErrNone /\ is_finished terminal (m_cur m') = true /\
  existsb (is_cancel_to (d_peer (m_data m))) es = true /\
  (forall acc, lastp acc es = Some (m_cur m', m_data m')) /\
  forallb cancel_effect es = true.

(* ---------- monitor ---------- *)
Definition c17_case := (fsm_case * list (list Z))%type.

Definition c17_check (c : c17_case) : bool := fsm_check (fst c).

Definition in_wait (m : machine) : bool := existsb (String.eqb (m_cur m)) c17_waits.

Definition fee_invoice_expiry_ok (e : effect) : bool :=
  match e with EMkInvoice PKFee _ _ expiry _ => expiry =? c17_timeout_s | _ => true end.

Definition c17_step_ok (s : obs_step) : bool :=
  (* the timer fires, or the node restarts, in a negotiation wait: the swap is cancelled, leaves
     the active set and the peer is told *)
  (match os_input s with
   | InTimeout | InRecover =>
       if in_wait (os_pre s) && stores_ok (os_world s) then
         String.eqb (m_cur (os_post s)) "State_SwapCanceled" && os_removed s
         && existsb (is_cancel_to (d_peer (m_data (os_pre s)))) (os_effects s)
       else true
   | _ => true
   end)
  (* a step that starts a negotiation wait from scratch armed the timer *)
  && (if String.eqb (m_cur (os_pre s)) "" && in_wait (os_post s)
      then existsb is_arm_timer (os_effects s) else true)
  (* the fee invoice expires after 10 minutes *)
  && forallb fee_invoice_expiry_ok (os_effects s).

Definition c17_monitor (c : c17_case) : bool :=
  forallb c17_step_ok (sc_steps (fst c))
  && forallb (forallb (fun secs => secs =? c17_timeout_s)) (snd c)
  (* one observation per step, and as many durations as EArmTimer effects *)
  && Nat.eqb (List.length (snd c)) (List.length (sc_steps (fst c)))
  && forallb (fun p => Nat.eqb (List.length (filter is_arm_timer (os_effects (fst p)))) (List.length (snd p)))
             (combine (sc_steps (fst c)) (snd c)).
