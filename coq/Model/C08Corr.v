(* Correspondence / monitor functions for C08 (evaluated on harness cases). *)
From Coq Require Import String ZArith NArith Bool List.
From PS Require Import Base.Corr Base.Wrap Base.ScriptOps Model.ScriptInterp Model.OpeningScript
  Model.Tx Model.OpeningTx Gen.ConstsC03.
Import ListNotations.
Open Scope Z_scope.

Record btc_open_in := mk_boi {
  oi_backend : N;
  oi_taker : string; oi_maker : string; oi_hash : string; oi_amount : Z;
  oi_want : bytes;                              (* 0x00 0x20 sha256(opening script), computed by the harness *)
  oi_funded : option (string * list txout);     (* what the wallet funds: None = failure; else txid, outputs *)
  oi_in_sum : Z;
  oi_bcast_fail : bool
}.
Record btc_open_obs := mk_boo {
  oo_result : N;
  oo_txid : string; oo_vout : Z; oo_fee : Z;    (* returned txid, vout, fee *)
  oo_bcast : list (string * list txout);        (* what the wallet was told to broadcast: txid, outputs *)
  oo_hex_ok : bool;                             (* returned hex = the broadcast transaction *)
  oo_request_ok : bool                          (* the wallet was asked for exactly [amount] to the P2WSH address of [want] *)
}.

Record lbtc_open_in := mk_loi {
  lo_taker : string; lo_maker : string; lo_hash : string; lo_amount : Z; lo_csv : Z; lo_chain : N;
  lo_want : bytes;
  lo_wallet : option (string * list lout * Z)   (* the wallet's transaction: txid, outputs (oracle answers for the swap's blinding key), fee *)
}.
Record lbtc_open_obs := mk_loo {
  loo_result : N; loo_txid : string; loo_vout : Z; loo_fee : Z;
  loo_hex_ok : bool;
  loo_addr_ok : bool      (* the wallet was asked to fund the confidential P2WSH address of [want] blinded for the swap's blinding key *)
}.

Inductive c08_case :=
| C08Btc (i : btc_open_in) (o : btc_open_obs)
| C08Lbtc (i : lbtc_open_in) (o : lbtc_open_obs)
(* SwapData.GetInvoiceExpiry / GetInvoiceCltv on real swap data: chain 0 btc / 1 lbtc, protocol version *)
| C08Inv (chain : N) (version : Z) (obs_expiry obs_cltv : Z) (obs_policy_ok : bool).

Definition pair_txouts_eqb (a b : string * list txout) : bool :=
  String.eqb (fst a) (fst b) && list_eqb txout_eqb (snd a) (snd b).

Definition c08_check (c : c08_case) : bool :=
  match c with
  | C08Btc i o =>
      let m := btc_create_opening (oi_backend i) (mk_sp (oi_taker i) (oi_maker i) (oi_hash i) (oi_amount i))
                 (oi_want i) (oi_funded i) (oi_in_sum i) (oi_bcast_fail i) in
      N.eqb (op_result m) (oo_result o) &&
      (if N.eqb (op_result m) 0 then
         String.eqb (op_txid m) (oo_txid o) && (op_vout m =? oo_vout o) && (op_fee m =? oo_fee o)
         && list_eqb pair_txouts_eqb (op_bcast m) (oo_bcast o) && oo_hex_ok o && oo_request_ok o
       else match oo_bcast o with [] => true | _ => false end)
  | C08Lbtc i o =>
      let m := lbtc_create_opening (mk_sp (lo_taker i) (lo_maker i) (lo_hash i) (lo_amount i)) (lo_csv i)
                 (lo_want i) (lo_wallet i) in
      N.eqb (lop_result m) (loo_result o) &&
      (if N.eqb (lop_result m) 0 then
         String.eqb (lop_txid m) (loo_txid o) && (lop_vout m =? loo_vout o) && (lop_fee m =? loo_fee o)
         && loo_hex_ok o && loo_addr_ok o
       else true)
  | C08Inv chain version e cl pol =>
      (* the shared model's constants (Model/Actions.v invoice_expiry; Gen/ConstsSwap.v policies) are compared
         in the fsm family; here the observation is compared with the numbers directly (monitor) *)
      true
  end.

(* ---------- the property's own statement on the observed data ---------- *)
(* Bitcoin: the returned txid is the id of the transaction handed over for broadcast and output
   [vout] of that transaction carries the swap amount under the P2WSH script of the opening script *)
Definition c08_btc_monitor (i : btc_open_in) (o : btc_open_obs) : bool :=
  if negb (N.eqb (oo_result o) 0) then
    match oo_bcast o with [] => true | _ => false end        (* nothing is reported, nothing may have been broadcast *)
  else
    match oo_bcast o with
    | [(txid, outs)] =>
        String.eqb (oo_txid o) txid && oo_hex_ok o &&
        match nth_z outs (oo_vout o) with
        | Some x => (o_value x =? oi_amount i) && bytes_eqb (o_script x) (oi_want i)
        | None => false
        end
    | _ => false
    end.

(* a wallet that funds what it is asked to: some output pays the amount to the script *)
Definition btc_wallet_honest (i : btc_open_in) : bool :=
  match oi_funded i with
  | Some (_, outs) => existsb (fun x => (o_value x =? oi_amount i) && bytes_eqb (o_script x) (oi_want i)) outs
                      && (oi_amount i <? two63)
  | None => true
  end.

Definition c08_lbtc_monitor (i : lbtc_open_in) (o : lbtc_open_obs) : bool :=
  if negb (N.eqb (loo_result o) 0) then true else
  match lo_wallet i with
  | Some (txid, outs, _) =>
      String.eqb (loo_txid o) txid && loo_hex_ok o && loo_addr_ok o &&
      match nth_z outs (loo_vout o) with
      | Some x =>
          bytes_eqb (lo_script x) (lo_want i) &&
          (* the blinding key of the message unblinds it to the swap amount of the policy asset *)
          match lbtc_validate_output x (lo_amount i) with Some _ => true | None => false end
      | None => false
      end
  | None => false
  end.

Definition lbtc_wallet_honest (i : lbtc_open_in) : bool :=
  match lo_wallet i with
  | Some (_, outs, _) =>
      existsb (fun x => bytes_eqb (lo_script x) (lo_want i) &&
                        match lbtc_validate_output x (lo_amount i) with Some _ => true | None => false end) outs
      (* and no earlier output with that script (a wallet does not pay the swap script twice) *)
      && match lbtc_find_vout (lo_want i) 0 outs with
         | Some (_, x) => match lbtc_validate_output x (lo_amount i) with Some _ => true | None => false end
         | None => false
         end
  | None => true
  end.

(* numbers of the property text *)
Definition text_expiry (chain : N) : Z := match chain with 0%N => 86400 | _ => 3600 end.
Definition text_cltv (chain : N) : Z := match chain with 0%N => 503 | _ => 29 end.

Definition c08_monitor (c : c08_case) : bool :=
  match c with
  | C08Btc i o => if btc_wallet_honest i then c08_btc_monitor i o else true
  | C08Lbtc i o => if lbtc_wallet_honest i then c08_lbtc_monitor i o else true
  | C08Inv chain version e cl pol =>
      if (version =? 6) || (version =? 7) then (e =? text_expiry chain) && (cl =? text_cltv chain) && pol
      else true
  end.
