(* C07: reflective (boolean) checks on a maker's state table.  Executable only;
   their soundness for ARBITRARY tables is proved in Proofs/C07.v, they are
   decided by vm_compute on the tables generated from the code. *)
From Coq Require Import String ZArith Bool List.
From PS Require Import Model.Data Model.Actions Model.Fsm.
Import ListNotations.
Open Scope string_scope.

Definition L_broadcast : string := "CreateAndBroadcastOpeningTransaction".
Definition L_premium : string := "CheckPremiumAmount".
Definition L_stop : string := "StopSendMessageWithRetryWrapperAction".
Definition L_claim_csv : string := "ClaimSwapTransactionWithCsv".
Definition L_claim_coop : string := "ClaimSwapTransactionCoop".
Definition L_await_conf : string := "AwaitTxConfirmationAction".
Definition L_await_pay_or_csv : string := "AwaitPaymentOrCsvAction".
Definition L_await_csv : string := "AwaitCsvAction".

Definition Ev_Paid : string := "Event_OnClaimInvoicePaid".
Definition Ev_Csv : string := "Event_OnCsvPassed".
Definition Ev_Agreement : string := "Event_SwapInSender_OnAgreementReceived".

Fixpoint tree_has (name : string) (a : action_tree) : bool :=
  match a with
  | ANode n ch =>
      String.eqb n name ||
      (fix go (l : list action_tree) : bool :=
         match l with [] => false | c :: r => tree_has name c || go r end) ch
  end.

Definition mem (s : string) (l : list string) : bool := existsb (String.eqb s) l.

Definition state_tree (t : table) (s : string) : option action_tree :=
  match lookup_state t s with Some sd => st_action sd | None => None end.

Definition state_events (t : table) (s : string) : list (string * string) :=
  match lookup_state t s with Some sd => st_events sd | None => [] end.

Definition tree_eqb_leaf (a : action_tree) (leaf : string) : bool :=
  match a with ANode n [] => String.eqb n leaf | _ => false end.

Definition tree_eqb_wrap (a : action_tree) (wrapper leaf : string) : bool :=
  match a with ANode n [c] => String.eqb n wrapper && tree_eqb_leaf c leaf | _ => false end.

(* the states whose action can broadcast an opening transaction *)
Definition is_bc_state (t : table) (s : string) : bool :=
  match state_tree t s with Some a => tree_has L_broadcast a | None => false end.
Definition bc_states (t : table) : list string := filter (is_bc_state t) (map fst t).

Definition bc_bare (t : table) (s : string) : bool :=
  match state_tree t s with Some a => tree_eqb_leaf a L_broadcast | None => false end.
Definition bc_prem (t : table) (s : string) : bool :=
  match state_tree t s with Some a => tree_eqb_wrap a L_premium L_broadcast | None => false end.

(* states from which a spend of the output is attempted *)
Definition spend_state (t : table) (s : string) : bool :=
  match state_tree t s with
  | Some a => tree_eqb_leaf a L_claim_csv || tree_eqb_wrap a L_stop L_claim_csv
              || tree_eqb_leaf a L_claim_coop || tree_eqb_wrap a L_stop L_claim_coop
  | None => false
  end.

Definition csv_spend_state (t : table) (s : string) : bool :=
  match state_tree t s with
  | Some a => tree_eqb_leaf a L_claim_csv || tree_eqb_wrap a L_stop L_claim_csv
  | None => false
  end.

(* states whose action registers the CSV watch *)
Definition watch_state (t : table) (s : string) : bool :=
  match state_tree t s with
  | Some a => tree_eqb_leaf a L_await_pay_or_csv || tree_eqb_leaf a L_await_csv || tree_eqb_wrap a L_stop L_await_csv
  | None => false
  end.

Definition succs (t : table) (s : string) : list string := map snd (state_events t s).

Definition union (a b : list string) : list string :=
  a ++ filter (fun x => negb (mem x a)) (nodup string_dec b).

Fixpoint closure (t : table) (n : nat) (seen : list string) : list string :=
  match n with
  | O => seen
  | S k => closure t k (union seen (flat_map (succs t) seen))
  end.

Definition post_seed (t : table) : list string :=
  flat_map (fun s => match next_state t s Ev_Succeeded with Some n => [n] | None => [] end) (bc_states t).

(* every state the machine can be in after a successful broadcast action *)
Definition post_states (t : table) : list string := closure t (List.length t) (nodup string_dec (post_seed t)).

Definition closed (t : table) (S : list string) : bool :=
  forallb (fun s => forallb (fun n => mem n S) (succs t s)) S.

Definition is_fin (terminal : list string) (s : string) : bool := existsb (String.eqb s) terminal.

Definition maker_table_ok (t : table) (terminal : list string) : bool :=
  let B := bc_states t in
  let S := post_states t in
  (* broadcasting states: the bare action or the action behind the premium check; they only continue or fail *)
  forallb (fun s => (bc_bare t s || bc_prem t s)
                    && forallb (fun en => String.eqb (fst en) Ev_Succeeded || String.eqb (fst en) Ev_Failed) (state_events t s)
                    && negb (match lookup_state t s with Some sd => st_fail_on_recover sd | None => true end)
                    && negb (is_fin terminal s)) B
  (* the states after the broadcast are closed under every event and disjoint from the broadcasting states *)
  && forallb (fun n => mem n S) (post_seed t)
  && closed t S
  && forallb (fun s => negb (mem s B)) S
  && negb (mem "" (S ++ B))
  (* a finished state is entered only by the paid notification or by the success of a spending action *)
  && forallb (fun s => forallb (fun en => negb (is_fin terminal (snd en))
                                          || String.eqb (fst en) Ev_Paid
                                          || (String.eqb (fst en) Ev_Succeeded && spend_state t s))
                               (state_events t s)) (S ++ B)
  (* the premium-checked broadcasting state is entered by the agreement message only *)
  && forallb (fun s => forallb (fun en => negb (bc_prem t (snd en)) || String.eqb (fst en) Ev_Agreement)
                               (state_events t s)) (map fst t)
  (* a maker never waits for a confirmation *)
  && forallb (fun s => match state_tree t s with Some a => negb (tree_has L_await_conf a) | None => true end) (map fst t).

(* (c): every state after the broadcast in which the CSV event is accepted registers the CSV watch
   itself, and the event leads to a state whose action is the CSV spend with success leading to a finished state;
   every other state after the broadcast is finished or attempts a spend or is the (re)transmission of the
   announcement, which continues into a waiting state whatever its outcome *)
Definition waiting_state (t : table) (s : string) : bool :=
  match next_state t s Ev_Csv with Some _ => true | None => false end.

Definition csv_table_ok (t : table) (terminal : list string) : bool :=
  forallb (fun s =>
    if waiting_state t s then
      watch_state t s &&
      match next_state t s Ev_Csv with
      | Some n => csv_spend_state t n &&
                  match next_state t n Ev_Succeeded with Some f => is_fin terminal f | None => false end &&
                  match next_state t n Ev_Retry with Some n' => String.eqb n' n | None => false end
      | None => false
      end
    else
      is_fin terminal s || spend_state t s ||
      (match state_tree t s with Some a => tree_eqb_leaf a "SendMessageWithRetryAction" | None => false end &&
       match next_state t s Ev_Succeeded, next_state t s Ev_Failed with
       | Some a, Some b => waiting_state t a && waiting_state t b
       | _, _ => false
       end))
    (post_states t)
  && forallb (fun s => implb (spend_state t s && negb (csv_spend_state t s))
                        (match next_state t s Ev_Failed with Some b => waiting_state t b | None => false end))
             (post_states t)
  (* after a restart the action of every unfinished state after the broadcast is run again (no FailOnrecover) *)
  && forallb (fun s => is_fin terminal s ||
                       negb (match lookup_state t s with Some sd => st_fail_on_recover sd | None => true end))
             (post_states t).
