(* Correspondence / monitor functions for C30 (evaluated on harness cases). *)
From Coq Require Import List String Ascii ZArith Bool.
From PS Require Import Base.Strs Base.Corr Model.FeeFloor Model.VersionCmp Gen.ConstsOnchainFee.
Import ListNotations.
Open Scope Z_scope.

Inductive c30_case :=
| CFloor (version : string) (obs_floor : Z) (obs_norm : string)
| CFee (est_err : bool) (est fallback floor size : Z) (obs_err : bool) (obs_fee : Z)
| CCmp (a b : string) (obs : option bool).

(* model (with the constants generated from the code) agrees with the observation *)
Definition c30_check (c : c30_case) : bool :=
  match c with
  | CFloor s f n =>
      let '(mf, mn) := determine_fee_floor modern_fee_floor_major modern_fee_floor_minor
                         legacy_fee_floor_sat_per_kw modern_fee_floor_sat_per_kw s in
      (mf =? f) && String.eqb mn n
  | CFee e est fb fl sz oe of_ =>
      negb oe && (get_fee e est fb fl sz =? of_) && (witness_scale_factor_gen =? witness_scale_factor)
  | CCmp a b o => opt_eqb Bool.eqb (compare_versions a b) o
  end.

(* the property itself, evaluated on what the implementation returned
   (numbers from the property text, not from the code) *)
Definition spec_floor (s : string) : Z :=
  match normalize_version s with
  | Some (major, minor, _) =>
      if (29 <? major) || ((major =? 29) && (2 <=? minor)) then 25 else 253
  | None => 253
  end.

Definition spec_rate (e : bool) (est fb fl : Z) : Z :=
  Z.max fl (if e || (est =? 0) then fb else est).

(* >= on numeric components with missing components as zero *)
Definition padz (n : nat) (l : list Z) : list Z := l ++ repeat 0 (n - List.length l).
Definition spec_ge (xs ys : list Z) : bool :=
  let n := Nat.max (List.length xs) (List.length ys) in lex_ge (padz n xs) (padz n ys).

Definition c30_monitor (c : c30_case) : bool :=
  match c with
  | CFloor s f _ => f =? spec_floor s
  | CFee e est fb fl sz oe of_ =>
      negb oe && (of_ =? fee_of_rate (spec_rate e est fb fl) sz) && (fee_of_rate fl sz <=? of_)
  | CCmp a b o =>
      match components a, components b with
      | Some xs, Some ys => opt_eqb Bool.eqb o (Some (spec_ge xs ys))
      | _, _ => opt_eqb Bool.eqb o None
      end
  end.
