(* C07 (a maker's locked funds are never abandoned): the property's own statement
   evaluated on OBSERVED scenarios of the real state machine, including the steps
   during which the process was killed (crash_obs: only a prefix of the step's
   effects happened; the next scenario step is the restart from the real store). *)
From Coq Require Import String ZArith Bool List.
From RecordUpdate Require Import RecordSet.
From PS Require Import Base.Corr Model.Data Model.Actions Model.Fsm Model.History Model.Eqb Model.FsmCorr
  Gen.Tables Gen.ConstsSwap.
Import ListNotations RecordSetNotations.
Open Scope Z_scope.

(* ---------- what is observed ---------- *)
Record crash_obs := mkCrash {
  cr_pre : machine; cr_input : input; cr_world : world;
  cr_k : nat;                      (* number of effects that happened before the process died *)
  cr_effects : list effect }.

(* a scenario plus, per recorded step, the crashed steps that precede it *)
Definition c07_case := (fsm_case * list (list crash_obs))%type.

(* ---------- the maker's record of a broadcast opening transaction ---------- *)
(* OpeningTxBroadcasted names the transaction and the announced output, OpeningTxHex is the transaction *)
Definition otb_matches (d : swap_data) (o : opening_result) : bool :=
  match d_otb d with
  | Some m => String.eqb (ob_txid m) (or_txid o) && (ob_vout m =? or_vout o)
  | None => false
  end && String.eqb (d_opening_hex d) (or_hex o).

Definition is_paid_input (i : input) : bool :=
  match i with InEvent ev _ => String.eqb ev "Event_OnClaimInvoicePaid" | _ => false end.

Definition is_terminal (s : string) : bool := existsb (String.eqb s) terminal_states.

(* ---------- correspondence of crashed steps ---------- *)
Definition crash_check (t : table) (dec : list (string * (string * Z * Z))) (cr : crash_obs) : bool :=
  let '(_, _, effs) := run_step tl_consts_gen (fun p => assoc_str p dec) t terminal_states
                                (cr_pre cr) (cr_input cr) (cr_world cr) in
  Nat.eqb (List.length (cr_effects cr)) (cr_k cr) &&
  list_eqb effect_eqb (firstn (cr_k cr) effs) (cr_effects cr).

(* the machine RecoverSwaps works on after a crash is the last durable record of the crashed step (when it wrote one) *)
Definition restart_check (crs : list crash_obs) (s : obs_step) : bool :=
  match rev crs with
  | [] => true
  | cr :: _ =>
      match last_persist (cr_effects cr) with
      | Some (st, d) => String.eqb (m_cur (os_pre s)) st && data_eqb (m_data (os_pre s)) d
      | None => true
      end
  end.

Fixpoint crashes_check (t : table) dec (steps : list obs_step) (obs : list (list crash_obs)) : bool :=
  match steps, obs with
  | s :: sr, crs :: cr => forallb (crash_check t dec) crs && restart_check crs s && crashes_check t dec sr cr
  | [], [] => true
  | _, _ => false
  end.

Definition c07_check (c : c07_case) : bool :=
  fsm_check (fst c) && crashes_check (sc_table (fst c)) (sc_decode (fst c)) (sc_steps (fst c)) (snd c).

(* ---------- the monitor ---------- *)
Record mon := mkMon {
  mn_bcs : list opening_result;            (* opening transactions the wallet has broadcast *)
  mn_dur : option (string * swap_data);    (* the last durable record observed *)
  mn_paid : bool;                          (* the claim-invoice-paid notification was delivered *)
  mn_spent : bool;                         (* a transaction spending the output was broadcast *)
  mn_watch : bool;                         (* this process registered the CSV watch on the announced outpoint *)
  mn_scriptfail : bool;                    (* this process saw GetOutputScript fail (environment failure) *)
  mn_storefail : bool;                     (* this process saw a store write fail (environment failure) *)
  mn_diag : list string }.

#[export] Instance eta_mon : Settable _ := settable! mkMon
  <mn_bcs; mn_dur; mn_paid; mn_spent; mn_watch; mn_scriptfail; mn_storefail; mn_diag>.

Definition mon0 : mon := mkMon [] None false false false false false [].

Definition flag (b : bool) (msg : string) (m : mon) : mon :=
  if b then m else m <| mn_diag := (mn_diag m ++ [msg])%list |>.

Definition mon_effect (m : mon) (e : effect) : mon :=
  match e with
  | EBroadcastOpening _ _ _ _ _ _ (Some o) =>
      flag (match mn_bcs m with [] => true | _ => false end) "second-opening-transaction"
           (m <| mn_bcs := o :: mn_bcs m |>)
  | EPersist s d true => m <| mn_dur := Some (s, d) |>
  | EPersist _ _ false => m <| mn_storefail := true |>
  | EBroadcastSpend _ (Some _) => m <| mn_spent := true |>
  | EWatchCsv txid vout _ _ =>
      match mn_bcs m with
      | [] => m
      | o :: _ =>
          flag (String.eqb txid (or_txid o) && (vout =? or_vout o)) "csv-watch-on-another-outpoint"
               (m <| mn_watch := true |>)
      end
  | _ => m
  end.

(* (a) durable record of every broadcast opening transaction; (b) finished only when paid or spent *)
Definition chk_record (m : mon) : bool :=
  forallb (fun o => match mn_dur m with Some (_, d) => otb_matches d o | None => false end) (mn_bcs m).

Definition chk_terminal (m : mon) : bool :=
  match mn_bcs m, mn_dur m with
  | _ :: _, Some (s, _) => if is_terminal s then mn_paid m || mn_spent m else true
  | _, _ => true
  end.

Definition mon_rest (m : mon) : mon :=
  flag (chk_terminal m) "finished-without-payment-or-spend" (flag (chk_record m) "no-durable-record-of-opening-tx" m).

Definition has_csv_spend (es : list effect) : bool :=
  existsb (fun e => match e with EBroadcastSpend SKCsv _ => true | _ => false end) es.

Definition first_persist_ok (es : list effect) : bool :=
  match es with EPersist _ _ true :: _ => true | _ => false end.

Definition accepts_csv (t : table) (s : string) : bool :=
  match next_state t s "Event_OnCsvPassed" with Some _ => true | None => false end.

Definition world_script_ok (w : world) : bool := forallb (fun b => b) (q_script w).

(* a step during which the process died *)
Definition mon_crash (m : mon) (cr : crash_obs) : mon :=
  let m1 := if is_recover (cr_input cr) then m <| mn_watch := false |> <| mn_scriptfail := false |> <| mn_storefail := false |> else m in
  let m2 := m1 <| mn_paid := mn_paid m1 || is_paid_input (cr_input cr) |> in
  let m3 := mon_rest (fold_left mon_effect (cr_effects cr) m2) in
  m3 <| mn_watch := false |> <| mn_scriptfail := false |> <| mn_storefail := false |>.

(* a step that ran to completion *)
Definition mon_step (t : table) (m : mon) (s : obs_step) : mon :=
  let m1 := if is_recover (os_input s) then m <| mn_watch := false |> <| mn_scriptfail := false |> <| mn_storefail := false |> else m in
  let m2 := m1 <| mn_paid := mn_paid m1 || is_paid_input (os_input s) |>
               <| mn_scriptfail := mn_scriptfail m1 || negb (world_script_ok (os_world s)) |> in
  let had_record := negb (match mn_bcs m2 with [] => true | _ => false end) && chk_record m2 in
  let m3 := mon_rest (fold_left mon_effect (os_effects s) m2) in
  (* (c) whenever the CSV watch fires while the swap is unfinished, unpaid and unspent, the refund is broadcast -
     whatever the state table says about the event (store failures of this process excepted) *)
  let m4 :=
    match os_input s with
    | InCsvPassed =>
        flag (negb (had_record && negb (is_terminal (m_cur (os_pre s))) && negb (mn_paid m2) && negb (mn_storefail m2) &&
                    negb (str_nonempty (d_claim_txid (m_data (os_pre s)))) && first_persist_ok (os_effects s))
              || has_csv_spend (os_effects s))
             "csv-passed-without-refund-broadcast" m3
    | _ => m3
    end in
  (* (c) while the node waits (a state that reacts to the CSV event), this process watches the announced outpoint *)
  flag (negb (negb (match mn_bcs m4 with [] => true | _ => false end) && chk_record m4 &&
              accepts_csv t (m_cur (os_post s)) && negb (mn_scriptfail m4))
        || mn_watch m4)
       "waiting-without-csv-watch" m4.

(* OnTxConfirmed is a callback of a confirmation watch; a maker never registers one (Props/C07.v:
   maker_table_ok), so the environment cannot deliver it to a maker (History.input_allowed).  The
   scenario generator delivers it anyway (it overwrites OpeningTxHex): monitoring stops there. *)
Definition unreachable_input (cw : bool) (i : input) : bool :=
  match i with InTxConfirmed _ _ => negb cw | _ => false end.

Fixpoint mon_run (t : table) (cw : bool) (m : mon) (steps : list obs_step) (obs : list (list crash_obs)) : mon :=
  match steps with
  | [] => m
  | s :: sr =>
      let crs := match obs with c :: _ => c | [] => [] end in
      let cw0 := if is_recover (os_input s) then false else
                 match crs with [] => cw | _ => false end in
      if unreachable_input cw0 (os_input s) || existsb (fun cr => unreachable_input false (cr_input cr)) crs then m else
      mon_run t (cw0 || existsb is_watch_conf (os_effects s))
              (mon_step t (fold_left mon_crash crs m) s) sr (tl obs)
  end.

Definition c07_diag (c : c07_case) : list string :=
  mn_diag (mon_run (sc_table (fst c)) false mon0 (sc_steps (fst c)) (snd c)).

Definition c07_monitor (c : c07_case) : bool :=
  match c07_diag c with [] => true | _ => false end.
