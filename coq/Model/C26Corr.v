(* C26: peers that forced a CSV refund are quarantined.
   Reflective table checks, and the monitor for the scenarios of harness/c26.go
   (real SwapService + real policy file + real peer-sync).  Executable definitions only. *)
From Coq Require Import String ZArith Bool List.
From PS Require Import Base.Wrap Base.Corr Model.Data Model.Actions Model.Fsm Model.History Model.FsmCorr
  Model.C17Corr Gen.ConstsSwap Gen.Tables.
Import ListNotations.
Open Scope Z_scope.

Definition c26_csv_state : string := "State_ClaimedCsv".
Definition c26_csv_claim_leaf : string := "ClaimSwapTransactionWithCsv".

(* ---------- table checks ---------- *)
(* the tree records the peer as suspicious on EVERY execution, before anything else can fail *)
Fixpoint spine_susp (fuel : nat) (a : action_tree) : bool :=
  match fuel with
  | O => false
  | S f =>
    let '(ANode name ch) := a in
    let next := match first_child ch with Some c => spine_susp f c | None => false end in
    if String.eqb name "AddSuspiciousPeerAction" then true
    else if (String.eqb name "StopSendMessageWithRetryWrapperAction" || String.eqb name "SetBlindingKeyActionWrapper")%bool then next
    else false
  end.

(* the leaf the wrappers of a tree lead to *)
Fixpoint tree_leaf (fuel : nat) (a : action_tree) : string :=
  match fuel with
  | O => ""
  | S f =>
    let '(ANode name ch) := a in
    match first_child ch with Some c => tree_leaf f c | None => name end
  end.

Definition state_tree26 (t : table) (s : string) : option action_tree :=
  match lookup_state t s with Some sd => st_action sd | None => None end.

Definition edges26 (t : table) : list (string * string * string) :=
  flat_map (fun e => map (fun ev => (fst e, fst ev, snd ev)) (st_events (snd e))) t.

(* (1) the CSV-claimed state marks the peer; (2) it is entered only by the success of the CSV spend *)
Definition c26_marks (t : table) : bool :=
  match state_tree26 t c26_csv_state with
  | Some a => spine_susp action_fuel a
  | None => true                     (* the role has no CSV refund (takers) *)
  end.

Definition c26_entered_by_csv_spend (t : table) : bool :=
  forallb (fun e => let '(s, ev, s') := e in
             if String.eqb s' c26_csv_state then
               String.eqb ev Ev_Succeeded &&
               match state_tree26 t s with
               | Some a => String.eqb (tree_leaf action_fuel a) c26_csv_claim_leaf
               | None => false
               end
             else true) (edges26 t).

(* (3) admission: the request event leads from the initial state to a state whose action is
   guarded by CheckRequestWrapperAction, and a failed admission is cancelled and the peer told *)
Definition root_is (t : table) (s name : string) : bool :=
  match state_tree26 t s with Some (ANode n _) => String.eqb n name | None => false end.

Definition c26_admission_ok (t : table) (terminal : list string) (req_event : string) : bool :=
  match next_state t "" req_event with
  | Some cs => root_is t cs "CheckRequestWrapperAction" && cancel_path t terminal cs Ev_Failed
  | None => false
  end.

(* effects that do not start or advance a swap *)
Definition harmless (e : effect) : bool :=
  match e with
  | EPersist _ _ _ | ERequestedSwapLog | ESend _ (MCancel _) => true
  | _ => false
  end.

(* ---------- monitor for harness/c26.go ---------- *)
Record c26_case := mkC26 {
  q_role : string; q_end : string; q_writable : bool; q_final : string;
  q_susp_effect : bool; q_in_file : bool; q_in_memory : bool; q_after_reload : bool;
  q_req_out : bool * bool;       (* swap-out request of the peer: (cancelled and told, an agreement went out) *)
  q_req_in : bool * bool;
  q_rpc : bool * bool;           (* SwapOut / SwapIn towards the peer refused *)
  q_rpc_sent : Z; q_rpc_active : Z;
  q_ps : Z * Z * bool * Z;       (* peer-sync: answers to request_poll, to poll, capability stored, poller messages *)
  q_other : Z * bool * Z }.      (* control peer: answers to request_poll, stored, poller messages *)

Definition c26_check (c : c26_case) : bool := true.

Definition ended_by_csv (c : c26_case) : bool := String.eqb (q_final c) c26_csv_state.

Definition c26_monitor (c : c26_case) : bool :=
  (* the scenario did what it was meant to do *)
  (if (String.eqb (q_end c) "csv" || String.eqb (q_end c) "cancel_csv")%bool then ended_by_csv c else negb (ended_by_csv c))
  (* a CSV refund always tries to record the peer; nothing else does *)
  && Bool.eqb (q_susp_effect c) (ended_by_csv c)
  && (if ended_by_csv c && q_writable c then
        (* recorded in the policy file, in memory and after a reload *)
        q_in_file c && q_in_memory c && q_after_reload c
        (* the peer cannot start swaps: both request types are cancelled, no agreement goes out *)
        && fst (q_req_out c) && negb (snd (q_req_out c)) && fst (q_req_in c) && negb (snd (q_req_in c))
        (* the node refuses to start swaps with it: error, nothing sent, nothing left active *)
        && fst (q_rpc c) && snd (q_rpc c) && (q_rpc_sent c =? 0) && (q_rpc_active c =? 0)
        (* peer-sync neither answers it nor stores its capabilities, and the poller skips it *)
        && (let '(a, b, st, p) := q_ps c in (a =? 0) && (b =? 0) && negb st && (p =? 0))
      else true)
  (* a peer that did not force a CSV refund is not quarantined by the swap: it is served as before
     (so the refusals above are due to the quarantine and to nothing else) *)
  && (if ended_by_csv c then true
      else negb (q_in_file c) && negb (q_in_memory c)
           && snd (q_req_out c) && snd (q_req_in c) && negb (fst (q_rpc c)) && negb (snd (q_rpc c))
           && (let '(a, b, st, p) := q_ps c in (1 <=? a) && st && (1 <=? p)))
  (* the innocent control peer is served: the guard is per peer *)
  && (let '(a, st, p) := q_other c in (1 <=? a) && st && (1 <=? p)).

(* ---------- monitor for the state-machine scenarios (fake policy: effects and flags) ---------- *)
Definition c26_fsm_step_ok (s : obs_step) : bool :=
  (* entering the CSV-claimed state calls AddToSuspiciousPeerList(peer) *)
  (if String.eqb (m_cur (os_post s)) c26_csv_state && negb (String.eqb (m_cur (os_pre s)) c26_csv_state)
   then existsb (fun e => match e with ESuspicious p => String.eqb p (d_peer (m_data (os_pre s))) | _ => false end) (os_effects s)
   else true)
  (* nothing else does *)
  && (if String.eqb (m_cur (os_post s)) c26_csv_state then true
      else negb (existsb (fun e => match e with ESuspicious _ => true | _ => false end) (os_effects s)))
  (* a request of a suspicious peer is cancelled, nothing else happens *)
  && (if String.eqb (m_cur (os_pre s)) "" && w_peer_suspicious (os_world s) && stores_ok (os_world s) then
        match os_input s with
        | InRequestIn _ | InEvent "Event_OnSwapOutRequestReceived" (Some _) =>
            forallb harmless (os_effects s) && os_removed s
            && (String.eqb (m_cur (os_post s)) "State_SwapCanceled" || String.eqb (m_cur (os_post s)) "")
        | _ => true
        end
      else true).

Definition c26_fsm_monitor (c : fsm_case) : bool := forallb c26_fsm_step_ok (sc_steps c).
