(* C22: retransmissions of opening_tx_broadcasted stop when the swap moves on.
   Reflective table check, the liveness fold over effect traces, and the monitors
   (state-machine scenarios; the real Manager/RedundantMessenger harness).
   Executable definitions only. *)
From Coq Require Import String ZArith Bool List.
From PS Require Import Base.Wrap Base.Corr Model.Data Model.Actions Model.Fsm Model.History Model.Eqb Model.FsmCorr
  Gen.ConstsSwap Gen.Tables.
Import ListNotations.
Open Scope Z_scope.

(* ---------- the retransmitter of one swap, as seen in the effect trace ---------- *)
(* ERetransStart: MessengerManager.AddSender succeeded (a retransmitter runs);
   ERetransStop: MessengerManager.RemoveSender (it is stopped and forgotten) *)
Definition live_step (b : bool) (e : effect) : bool :=
  match e with ERetransStart => true | ERetransStop => false | _ => b end.
Definition live_fold (b : bool) (es : list effect) : bool := fold_left live_step es b.

(* no retransmitter is started while one is live *)
Fixpoint starts_ok (b : bool) (es : list effect) : bool :=
  match es with
  | [] => true
  | e :: r => (match e with ERetransStart => negb b | _ => true end) && starts_ok (live_step b e) r
  end.

(* the message handed to a new retransmitter is opening_tx_broadcasted: every ERetransStart is
   directly followed by the first send of that retransmitter, and it carries an MOtb *)
Definition rm_step (st : bool * bool) (e : effect) : bool * bool :=
  let '(ok, pending) := st in
  if pending then (ok && match e with ESend _ (MOtb _) => true | _ => false end, false)
  else (ok, match e with ERetransStart => true | _ => false end).
Definition rm_fold (st : bool * bool) (es : list effect) : bool * bool := fold_left rm_step es st.
Definition retrans_msg_ok (es : list effect) : bool :=
  let '(ok, pending) := rm_fold (true, false) es in ok && negb pending.

(* ---------- what an action tree can do to the retransmitter ---------- *)
Definition retry_leaf : string := "SendMessageWithRetryAction".

(* may the tree start a retransmitter? *)
Fixpoint tree_may_start (a : action_tree) : bool :=
  let '(ANode name ch) := a in
  String.eqb name retry_leaf || existsb tree_may_start ch.

(* does EVERY execution of the tree stop the retransmitter? *)
Fixpoint tree_stops (fuel : nat) (a : action_tree) : bool :=
  match fuel with
  | O => false
  | S f =>
    let '(ANode name ch) := a in
    let next := match first_child ch with Some c => tree_stops f c | None => false end in
    if String.eqb name "CheckRequestWrapperAction" then false
    else if String.eqb name "SetBlindingKeyActionWrapper" then next
    else if String.eqb name "StopSendMessageWithRetryWrapperAction" then true
    else if String.eqb name "CheckPremiumAmount" then false
    else if String.eqb name "AddSuspiciousPeerAction" then next
    else String.eqb name "NoOpDoneAction"
  end.

Definition state_tree (t : table) (s : string) : option action_tree :=
  match lookup_state t s with Some sd => st_action sd | None => None end.

Definition state_may_start (t : table) (s : string) : bool :=
  match state_tree t s with Some a => tree_may_start a | None => false end.
Definition state_stops (t : table) (s : string) : bool :=
  match state_tree t s with Some a => tree_stops action_fuel a | None => false end.

Definition str_mem (s : string) (l : list string) : bool := existsb (String.eqb s) l.

(* the states in which a retransmitter may be live: the announcing states and the states the
   announcement's success leads to (the waits for the taker's reaction) *)
Definition announce_states (t : table) : list string :=
  map fst (filter (fun e => state_may_start t (fst e)) t).
Definition wait_states (t : table) : list string :=
  flat_map (fun s => match next_state t s Ev_Succeeded with Some x => [x] | None => [] end) (announce_states t).
Definition live_states (t : table) : list string := announce_states t ++ wait_states t.

Definition edges (t : table) : list (string * string * string) :=
  flat_map (fun e => map (fun ev => (fst e, fst ev, snd ev)) (st_events (snd e))) t.

(* every edge: an announcing state is entered only from states without a live retransmitter;
   leaving the live states, the target's action stops the retransmitter on every path *)
Definition c22_edge_ok (t : table) (e : string * string * string) : bool :=
  let '(s, _, s') := e in
  let l := live_states t in
  (if state_may_start t s' then negb (str_mem s l) else true)
  && (if str_mem s l && negb (str_mem s' l) then state_stops t s' else true).

Definition c22_table_ok (t : table) : bool := forallb (c22_edge_ok t) (edges t).

(* ---------- histories: the retransmitter lives in the memory of one process ---------- *)
Section Hist.
Variable tc : tl_consts.
Variable decode : string -> option (string * Z * Z).
Variable t : table.
Variable terminal : list string.

(* mirrors History.hist_step: (history state, retransmitter live?, no double start so far?) *)
Definition live_hist_step (st : hstate * bool * bool) (it : hitem) : hstate * bool * bool :=
  let '(h, b, ok) := st in
  let h' := hist_step tc decode t terminal h it in
  match hs_machine h with
  | None => (h', b, ok)
  | Some m0 =>
    let restartp := is_recover (item_input it) in
    match (if restartp then restore m0 (hs_trace h) else Some m0) with
    | None => (h', false, ok)
    | Some m =>
      let b0 := if restartp then false else b in
      match it with
      | HStep i w =>
          let '(_, _, es) := run_step tc decode t terminal m i w in
          (h', live_fold b0 es, ok && starts_ok b0 es)
      | HCrash i w k =>
          let '(_, _, es) := run_step tc decode t terminal m i w in
          (h', false, ok && starts_ok b0 (firstn k es))     (* the process died: no retransmitter *)
      end
    end
  end.

Definition live_hist (m0 : machine) (its : list hitem) : hstate * bool * bool :=
  fold_left live_hist_step its (init_hstate m0, false, true).
End Hist.

(* ---------- monitor on observed scenarios ---------- *)
(* the property's words: retransmission only while the swap waits for the taker's reaction *)
Definition c22_wait_names : list string :=
  ["State_SwapInSender_SendTxBroadcastedMessage"; "State_SwapInSender_AwaitClaimPayment";
   "State_SwapOutReceiver_SendTxBroadcastedMessage"; "State_SwapOutReceiver_AwaitClaimInvoicePayment"]%string.

Fixpoint c22_steps_ok (b : bool) (l : list obs_step) : bool :=
  match l with
  | [] => true
  | s :: r =>
      let b0 := match os_input s with InRecover => false | _ => b end in
      let b1 := live_fold b0 (os_effects s) in
      starts_ok b0 (os_effects s)
      && (if b1 then str_mem (m_cur (os_post s)) c22_wait_names && negb (os_removed s) else true)
      && c22_steps_ok b1 r
  end.

(* only opening_tx_broadcasted is ever retransmitted: the message of the announcing step *)
Definition announces_otb (s : obs_step) : bool := retrans_msg_ok (os_effects s).

Definition c22_monitor (c : fsm_case) : bool :=
  c22_steps_ok false (sc_steps c) && forallb announces_otb (sc_steps c).

(* ---------- the real Manager / RedundantMessenger (harness/c22_retrans.go) ---------- *)
(* manager operations on a few ids; observed: result of Add (error?), and for every id the
   number of sends seen (a) while its retransmitter was live, per live period, (b) after Remove *)
Inductive mgr_op := MAdd (id : nat) | MRemove (id : nat) | MWait (ticks : nat).

Record mgr_obs := mkMgrObs {
  mo_add_ok : list bool;          (* result of each MAdd, in order *)
  mo_after_stop : list Z;         (* for each MRemove of a live id: sends observed after it returned (until the end) *)
  mo_live_end : list nat }.       (* ids with a registered sender at the end *)

Definition mgr_case := (list mgr_op * mgr_obs)%type.

(* model of messages.Manager: a set of ids *)
Fixpoint mgr_run (live : list nat) (ops : list mgr_op) : list bool * list nat :=
  match ops with
  | [] => ([], live)
  | MAdd i :: r =>
      let ok := negb (existsb (Nat.eqb i) live) in
      let '(oks, l) := mgr_run (if ok then i :: live else live) r in (ok :: oks, l)
  | MRemove i :: r => mgr_run (filter (fun j => negb (Nat.eqb i j)) live) r
  | MWait _ :: r => mgr_run live r
  end.

Fixpoint sorted_ins (x : nat) (l : list nat) : list nat :=
  match l with [] => [x] | y :: r => if Nat.leb x y then x :: l else y :: sorted_ins x r end.
Definition sort_nat (l : list nat) : list nat := fold_right sorted_ins [] l.

Definition mgr_check (c : mgr_case) : bool :=
  let '(oks, l) := mgr_run [] (fst c) in
  list_eqb Bool.eqb oks (mo_add_ok (snd c)) && list_eqb Nat.eqb (sort_nat l) (sort_nat (mo_live_end (snd c))).

(* the property: a second sender for the same id is refused (never two per swap), and after a
   retransmitter is removed at most ONE already-due copy still goes out *)
Definition mgr_monitor (c : mgr_case) : bool :=
  forallb (fun n => (0 <=? n) && (n <=? 1)) (mo_after_stop (snd c))
  && (let '(oks, _) := mgr_run [] (fst c) in list_eqb Bool.eqb oks (mo_add_ok (snd c))).

(* end-to-end: the real SwapService with the real Manager and a 1 s retry interval *)
Record e2e_obs := mkE2E {
  e_role : string; e_move : string;      (* how the swap left the wait *)
  e_before : Z;                          (* copies of opening_tx_broadcasted sent while waiting (>= 2 s) *)
  e_after : Z;                           (* further copies after the swap moved on (>= 2.5 s observed) *)
  e_other_kinds : Z }.                   (* retransmitted messages that are not opening_tx_broadcasted *)

Definition e2e_check (c : e2e_obs) : bool := true.
Definition e2e_monitor (c : e2e_obs) : bool :=
  (2 <=? e_before c) && (e_after c <=? 1) && (e_other_kinds c =? 0).

(* ---------- which message a retransmitter gets (clause 3) ---------- *)
(* the swap data is consistent: once an opening_tx_broadcasted message is recorded, NextMessage is
   that message *)
Definition otb_msg_ok (d : swap_data) : bool :=
  match d_otb d with
  | None => true
  | Some o => match d_next_msg d with Some (MOtb o') => Eqb.otb_eqb o o' | _ => false end
  end.

Definition opening_leaf : string := "CreateAndBroadcastOpeningTransaction".
(* the leaves that overwrite NextMessage with something else *)
Definition builds_other_msg (name : string) : bool :=
  str_mem name ["CreateSwapRequestAction"; "CreateSwapOutFromRequestAction"; "SwapInReceiverInitAction";
                "TakerSendPrivkeyAction"]%string.

Fixpoint tree_any (p : string -> bool) (a : action_tree) : bool :=
  let '(ANode name ch) := a in p name || existsb (tree_any p) ch.

(* the leaf the wrappers lead to (mirrors the dispatch of Actions.exec) *)
Definition is_wrapper (name : string) : bool :=
  str_mem name ["CheckRequestWrapperAction"; "SetBlindingKeyActionWrapper"; "StopSendMessageWithRetryWrapperAction";
                "CheckPremiumAmount"; "AddSuspiciousPeerAction"]%string.
Fixpoint spine_leaf (fuel : nat) (a : action_tree) : string :=
  match fuel with
  | O => ""
  | S f => let '(ANode name ch) := a in
           if is_wrapper name then match first_child ch with Some c => spine_leaf f c | None => "" end
           else name
  end.

Definition state_any (t : table) (p : string -> bool) (s : string) : bool :=
  match state_tree t s with Some a => tree_any p a | None => false end.

(* states in which NextMessage may still be overwritten: no opening transaction can be recorded yet *)
Definition pre_state (t : table) (s : string) : bool := String.eqb s "" || state_any t builds_other_msg s.

Definition Ev_TxOpened : string := "Event_OnTxOpenedMessage".

Definition c22_msg_edge_ok (t : table) (e : string * string * string) : bool :=
  let '(s, ev, s') := e in
  (* the peer's opening_tx_broadcasted is never accepted by this role *)
  negb (String.eqb ev Ev_TxOpened)
  (* pre-states are entered only from pre-states *)
  && (if pre_state t s' then pre_state t s else true)
  (* an announcing state is entered only by the success of the state that builds the opening transaction *)
  && (if state_may_start t s' then
        String.eqb ev Ev_Succeeded &&
        match state_tree t s with Some a => String.eqb (spine_leaf action_fuel a) opening_leaf | None => false end
      else true).

Definition c22_msg_state_ok (t : table) (s : string) : bool :=
  (* pre-states neither build the opening transaction nor announce it; announcing states do neither
     build it nor overwrite NextMessage *)
  (if pre_state t s then negb (state_any t (String.eqb opening_leaf) s) && negb (state_may_start t s) else true)
  && (if state_may_start t s then negb (state_any t (String.eqb opening_leaf) s) && negb (state_any t builds_other_msg s) else true).

Definition c22_msg_table_ok (t : table) : bool :=
  forallb (c22_msg_edge_ok t) (edges t) && forallb (fun e => c22_msg_state_ok t (fst e)) t.

(* the invariant on stored / in-memory machines *)
Definition has_otb (d : swap_data) : bool := match d_otb d with Some _ => true | None => false end.

Definition msg_inv (t : table) (s : string) (d : swap_data) : bool :=
  otb_msg_ok d
  && (if pre_state t s then negb (has_otb d) else true)
  && (if state_may_start t s then has_otb d else true).

(* what the environment may send: a message of kind opening_tx_broadcasted comes only with its
   own event, and service events are never the internal Event_ActionSucceeded (History.service_event) *)
Definition msg_input_ok (i : input) : bool :=
  match i with
  | InEvent ev ctx =>
      negb (String.eqb ev Ev_Succeeded)
      && match ctx with Some (MOtb _) => String.eqb ev Ev_TxOpened | _ => true end
  | _ => true
  end.

(* all histories: every step's effects hand only opening_tx_broadcasted to a retransmitter
   (the full effect list of the step is judged also when the process dies inside it) *)
Section MsgHist.
Variable tc : tl_consts.
Variable decode : string -> option (string * Z * Z).
Variable t : table.
Variable terminal : list string.

Definition msg_hist_step (st : hstate * bool) (it : hitem) : hstate * bool :=
  let '(h, ok) := st in
  let h' := hist_step tc decode t terminal h it in
  match hs_machine h with
  | None => (h', ok)
  | Some m0 =>
    match (if is_recover (item_input it) then restore m0 (hs_trace h) else Some m0) with
    | None => (h', ok)
    | Some m =>
      let '(_, _, es) := run_step tc decode t terminal m (item_input it) (match it with HStep _ w | HCrash _ w _ => w end) in
      (h', ok && retrans_msg_ok es)
    end
  end.

Definition msg_hist (m0 : machine) (its : list hitem) : hstate * bool :=
  fold_left msg_hist_step its (init_hstate m0, true).
End MsgHist.
