(* Model of onchain/fee_floor.go (DetermineFeeFloor, normalizeBitcoinVersion)
   and of the rate selection + fee computation of BitcoinOnChain.GetFee
   (onchain/bitcoin.go).  Executable; no proofs here. *)
From Coq Require Import List String Ascii ZArith NArith Bool Floats.
From PS Require Import Base.Strs.
Import ListNotations.
Open Scope Z_scope.

(* constants: regenerated from the code in Gen/Consts.v; the model takes them as
   parameters so that theorems are stated over the generated values. *)

(* regexp (\d+)(?:\.(\d+))?(?:\.(\d+))? , leftmost match.  Returns the three
   captured digit runs (second/third possibly absent). *)
Fixpoint drop_to_digit (l : list ascii) : list ascii :=
  match l with
  | c :: r => if is_digit c then l else drop_to_digit r
  | [] => []
  end.

(* optional group "\.(\d+)" at the head of l *)
Definition opt_dot_group (l : list ascii) : option (list ascii) * list ascii :=
  match l with
  | c :: r =>
      if Ascii.eqb c "."%char then
        match span_digits r with
        | ([], _) => (None, l)
        | (d, rest) => (Some d, rest)
        end
      else (None, l)
  | [] => (None, l)
  end.

Definition version_groups (s : string)
  : option (list ascii * option (list ascii) * option (list ascii)) :=
  match drop_to_digit (chars s) with
  | [] => None
  | l =>
      let (major, r1) := span_digits l in
      let (minor, r2) := opt_dot_group r1 in
      match minor with
      | None => Some (major, None, None)      (* third group needs the second to have matched *)
      | Some _ => let (patch, _) := opt_dot_group r2 in Some (major, minor, patch)
      end
  end.

(* parseVersionSegment: missing or Atoi error -> 0 *)
Definition segment (g : option (list ascii)) : Z :=
  match g with
  | None => 0
  | Some d => match atoi_digits d with Some v => v | None => 0 end
  end.

Definition normalize_version (s : string) : option (Z * Z * Z) :=
  match version_groups s with
  | None => None
  | Some (mj, mi, pa) =>
      match atoi_digits mj with
      | None => None
      | Some major => Some (major, segment mi, segment pa)
      end
  end.

Definition render_version (v : Z * Z * Z) : string :=
  let '(a, b, c) := v in
  (dec_of_Z a ++ "." ++ dec_of_Z b ++ "." ++ dec_of_Z c)%string.

(* DetermineFeeFloor with the code's constants as parameters *)
Definition determine_fee_floor (modern_major modern_minor legacy_floor modern_floor : Z)
  (s : string) : Z * string :=
  match normalize_version s with
  | None => (legacy_floor, EmptyString)
  | Some (major, minor, patch) =>
      if (modern_major <? major) || ((major =? modern_major) && (modern_minor <=? minor))
      then (modern_floor, render_version (major, minor, patch))
      else (legacy_floor, render_version (major, minor, patch))
  end.

(* ---- GetFee ---- *)

(* estimator answer: error flag and value (sat/kw) *)
Definition effective_rate (est_err : bool) (est fallback floor : Z) : Z :=
  let r := if est_err || (est =? 0) then fallback else est in
  if r <? floor then floor else r.

(* float64 helpers (IEEE binary64 via Coq primitive floats) *)
Definition float_of_Z (z : Z) : float :=
  (* exact for |z| < 2^53; harness keeps inputs in that range *)
  if z <? 0 then PrimFloat.opp (PrimFloat.of_uint63 (Uint63.of_Z (- z)))
  else PrimFloat.of_uint63 (Uint63.of_Z z).

(* uint64(f) for a finite non-negative f: truncation *)
Definition trunc_float (f : float) : Z :=
  match Prim2SF f with
  | SpecFloat.S754_finite false m e =>
      if 0 <=? e then Z.pos m * 2 ^ e else Z.pos m / 2 ^ (- e)
  | _ => 0
  end.

Definition witness_scale_factor : Z := 4.

Definition fee_of_rate (rate tx_size : Z) : Z :=
  let sat_per_kb := rate * witness_scale_factor in
  let sat_per_vb := PrimFloat.div (float_of_Z sat_per_kb) (float_of_Z 1000) in
  trunc_float (PrimFloat.mul sat_per_vb (float_of_Z tx_size)).

Definition get_fee (est_err : bool) (est fallback floor tx_size : Z) : Z :=
  fee_of_rate (effective_rate est_err est fallback floor) tx_size.
