(* Executable model of premium/premium.go, premium/store.go and the premium part
   of peersync/guard.go + peersync/peersync.go:localCapabilityForPeer.  No proofs here.

   The bbolt bucket is a finite map from the code's string keys
   ("<peer>.<asset>.<operation>", fmt %s.%d.%d) to int64 rates; the value is
   written with %d and read back with Sscanf %d, which is the identity on int64
   (trusted; exercised by the correspondence run at the int64 boundaries). *)
From Coq Require Import String Ascii ZArith Bool DecimalString List.
Import ListNotations.
Open Scope Z_scope.

(* ---------- integers ---------- *)

(* two's complement int64 of an unbounded integer: Go's wrap-around on
   int64 multiplication and the conversion int64(uint64) *)
Definition i64_wrap (z : Z) : Z := (z + 2 ^ 63) mod 2 ^ 64 - 2 ^ 63.

(* fmt "%d" *)
Definition int_str (z : Z) : string := NilEmpty.string_of_int (Z.to_int z).

(* PPM.Compute:  int64(amtSat) * p.ppmValue / premiumRateParts
   (int64 multiplication wraps; int64 division truncates toward zero) *)
Definition ppm_compute (parts rate amt : Z) : Z :=
  Z.quot (i64_wrap (i64_wrap amt * rate)) parts.

(* ---------- the bucket ---------- *)

Definition store := list (string * Z).

Fixpoint st_get (s : store) (k : string) : option Z :=
  match s with
  | [] => None
  | (k', v) :: r => if String.eqb k' k then Some v else st_get r k
  end.

Fixpoint st_del (s : store) (k : string) : store :=
  match s with
  | [] => []
  | (k', v) :: r => if String.eqb k' k then st_del r k else (k', v) :: st_del r k
  end.

Definition st_put (s : store) (k : string) (v : Z) : store := (k, v) :: st_del s k.

(* fmt.Sprintf("%s.%d.%d", peer, asset, operation) *)
Definition rate_key (peer : string) (asset op : Z) : string :=
  (peer ++ "." ++ int_str asset ++ "." ++ int_str op)%string.

Definition strlen (s : string) : Z := Z.of_nat (String.length s).

(* ---------- results ---------- *)

Inductive rate_result :=
| ROk (rate : Z)
| RNotFound          (* ErrRateNotFound *)
| RErr.              (* any other error *)

(* NewPremiumRate succeeds iff neither enum is the zero value *)
Definition new_premium_rate_ok (asset op : Z) : bool := negb (asset =? 0) && negb (op =? 0).

(* BBoltPremiumStore.GetRate *)
Definition store_get_rate (st : store) (peer : string) (asset op : Z) : rate_result :=
  match st_get st (rate_key peer asset op) with
  | None => RNotFound
  | Some v => if new_premium_rate_ok asset op then ROk v else RErr
  end.

(* BBoltPremiumStore.SetRate: bucket.Put fails only for an oversized key
   (the key is never empty); returns (store, error?) *)
Definition store_set_rate (maxkey : Z) (st : store) (peer : string) (asset op rate : Z) : store * bool :=
  let k := rate_key peer asset op in
  if maxkey <? strlen k then (st, true) else (st_put st k rate, false).

(* BBoltPremiumStore.DeleteRate: bucket.Delete never fails on a writable bucket *)
Definition store_delete_rate (st : store) (peer : string) (asset op : Z) : store * bool :=
  (st_del st (rate_key peer asset op), false).

Section Setting.
  (* constants of the code, instantiated from Gen/ConstsPremium.v *)
  Variable parts : Z.                       (* premiumRateParts *)
  Variable default_peer : string.           (* defaultPeerID *)
  Variable table : list ((Z * Z) * Z).      (* DefaultPremiumRate *)
  Variable maxkey : Z.                      (* bbolt.MaxKeySize *)

  Fixpoint table_get (t : list ((Z * Z) * Z)) (asset op : Z) : option Z :=
    match t with
    | [] => None
    | ((a, o), v) :: r => if (a =? asset) && (o =? op) then Some v else table_get r asset op
    end.

  (* Setting.GetDefaultRate *)
  Definition get_default_rate (st : store) (asset op : Z) : rate_result :=
    match store_get_rate st default_peer asset op with
    | RNotFound =>
        match table_get table asset op with
        | None => RErr
        | Some v => if new_premium_rate_ok asset op then ROk v else RErr
        end
    | r => r
    end.

  (* Setting.GetRate *)
  Definition get_rate (st : store) (peer : string) (asset op : Z) : rate_result :=
    match store_get_rate st peer asset op with
    | RNotFound => get_default_rate st asset op
    | r => r
    end.

  Definition set_rate (st : store) (peer : string) (asset op rate : Z) : store * bool :=
    store_set_rate maxkey st peer asset op rate.

  Definition set_default_rate (st : store) (asset op rate : Z) : store * bool :=
    store_set_rate maxkey st default_peer asset op rate.

  Definition delete_rate (st : store) (peer : string) (asset op : Z) : store * bool :=
    store_delete_rate st peer asset op.

  (* Setting.Compute *)
  Definition compute (st : store) (peer : string) (asset op amt : Z) : option Z :=
    match get_rate st peer asset op with
    | ROk r => Some (ppm_compute parts r amt)
    | _ => None
    end.

  (* peersync.defaultPremiumRate *)
  Definition builtin_or_zero (asset op : Z) : Z :=
    match table_get table asset op with Some v => v | None => 0 end.

  (* peerGuard.PremiumRate with a configured premium.Setting *)
  Definition guard_premium_rate (st : store) (peer : string) (asset op : Z) : Z :=
    match get_rate st peer asset op with
    | ROk r => r
    | _ => builtin_or_zero asset op
    end.

  Variables a_btc a_lbtc o_in o_out : Z.

  (* PeerSync.localCapabilityForPeer: (btcIn, btcOut, lbtcIn, lbtcOut) *)
  Definition local_capability_rates (st : store) (peer : string) : Z * Z * Z * Z :=
    (guard_premium_rate st peer a_btc o_in, guard_premium_rate st peer a_btc o_out,
     guard_premium_rate st peer a_lbtc o_in, guard_premium_rate st peer a_lbtc o_out).

  (* ---------- updates (used by the sequence theorems) ---------- *)
  Inductive upd :=
  | USet (peer : string) (asset op rate : Z)
  | USetDefault (asset op rate : Z)
  | UDelete (peer : string) (asset op : Z)
  | UReopen.                                 (* close and reopen the database file *)

  Definition apply_upd (st : store) (u : upd) : store :=
    match u with
    | USet p a o r => fst (set_rate st p a o r)
    | USetDefault a o r => fst (set_default_rate st a o r)
    | UDelete p a o => fst (delete_rate st p a o)
    | UReopen => st
    end.

  Definition run_upds (st : store) (us : list upd) : store := fold_left apply_upd us st.
End Setting.
