(* Correspondence / monitor functions for C03 (evaluated on harness cases). *)
From Coq Require Import String ZArith NArith Bool List.
From PS Require Import Base.Corr Base.Wrap Base.ScriptOps Model.ScriptInterp Model.OpeningScript
  Model.FeeFloor Model.C02Corr Model.Tx Gen.ConstsC03.
Import ListNotations.
Open Scope Z_scope.

(* ---------- Bitcoin: wallet adapters of CLN (backend 0) and LND (backend 1) ---------- *)
Record btc_in := mk_btc_in {
  bi_backend : N; bi_kind : N;                 (* kind: 0 preimage claim, 1 csv refund, 2 coop *)
  bi_taker : string; bi_maker : string; bi_hash : string; bi_amount : Z;
  bi_opening : option (string * list txout);   (* None: hex does not deserialise; else txid, outputs *)
  bi_want : bytes;                             (* 0x00 0x20 sha256(opening script) *)
  bi_preimage : string;
  bi_pre_ok : bool;                            (* the string is 32 bytes of hex whose SHA-256 is the payment hash *)
  bi_addr : option bytes;                      (* wallet address: ScriptAddress(); None = newaddr fails *)
  bi_addr_script : bytes;                      (* its output script (btcd PayToAddrScript) *)
  bi_est_err : bool; bi_est : Z; bi_fb : Z; bi_floor : Z;   (* fee estimator answer, fallback, floor (sat/kw) *)
  bi_bcast_fail : bool;
  bi_claim_who : N; bi_taker_who : N
}.

Record btc_obs := mk_btc_obs {
  bo_result : N;                 (* 0 ok, 1 error, 2 panic *)
  bo_validated : bool;           (* BitcoinOnChain.ValidateTx = (true, nil) *)
  bo_txs : list tx;              (* transactions handed to the wallet for broadcast *)
  bo_calls : list sigcall;
  bo_ret_txid_ok : bool;         (* returned txid = id of the broadcast transaction *)
  bo_ret_hex_ok : bool;          (* returned hex = the broadcast bytes *)
  bo_ret_addr_ok : bool;
  bo_engine_ok : bool;           (* btcd txscript engine, standard flags, against the opening output spent *)
  bo_addr_type_ok : bool         (* the adapter asked the wallet for a segwit-v0 key-hash address *)
}.

(* ---------- Liquid ---------- *)
Record lbtc_in := mk_lbtc_in {
  li_kind : N; li_chain : N;                   (* chain: 1 = protocol 7 (csv 10080), 2 = legacy (csv 60), as in C02 *)
  li_taker : string; li_maker : string; li_hash : string; li_amount : Z; li_csv : Z;
  li_txid : string; li_outs : list lout; li_want : bytes;
  li_preimage : string; li_pre_ok : bool;
  li_addr : option (bytes * bool);
  li_fee : option Z;
  li_bcast_fail : bool;
  li_claim_who : N; li_taker_who : N
}.

(* an output of a broadcast Liquid transaction as the harness sees it *)
Record lo_obs := mk_lo {
  lob_script : bytes;
  lob_explicit : option (Z * bool);      (* unblinded output: value, asset is the policy asset *)
  lob_unblinded : option (Z * bool);     (* confidential output unblinded with the WALLET's blinding key *)
  lob_proofs : bool                      (* range proof and surjection proof verify *)
}.
Record ltx := mk_ltx { lt_version : Z; lt_ins : list txin; lt_outs : list lo_obs; lt_lock : Z;
                       lt_balanced : bool (* input and output commitments (with the explicit fee) sum to zero *) }.

Record lbtc_obs := mk_lbtc_obs {
  lb_result : N; lb_validated : bool; lb_txs : list ltx; lb_calls : list sigcall;
  lb_ret_txid_ok : bool; lb_ret_hex_ok : bool; lb_ret_addr_ok : bool
}.

Inductive c03_case :=
| C03Btc (i : btc_in) (o : btc_obs)
| C03Lbtc (i : lbtc_in) (o : lbtc_obs).

(* ---------- witness items -> the tags of C02's oracle world ---------- *)
(* 0 valid taker sig, 1 valid maker sig, 2 a signature that does not verify, 3 empty,
   4 garbage, 5 the 32-byte preimage of the payment hash, 6 other 32 bytes *)
Definition witem_tag (calls : list sigcall) (pre : option bytes) (it : witem) : N :=
  match it with
  | WSigCall i ht =>
      match nth_error calls i with
      | Some c => if N.eqb ht 1 && sc_consensus c then (if N.leb (sc_who c) 1 then sc_who c else 2%N) else 2%N
      | None => 2%N
      end
  | WData [] => 3%N
  | WData b =>
      match pre with
      | Some p => if bytes_eqb b p then 5%N else if Nat.eqb (length b) 32 then 6%N else 4%N
      | None => if Nat.eqb (length b) 32 then 6%N else 4%N
      end
  end.

(* witness = items below the witness script ++ [witness script] *)
Definition split_witness (w : list witem) : option (list witem * witem) :=
  match rev w with
  | [] => None
  | s :: r => Some (rev r, s)
  end.

Definition good_preimage (s : string) (ok : bool) : option bytes :=
  if ok then parse_preimage s else None.

(* ---------- model == observed ---------- *)
Definition bw_of (i : btc_in) : btc_wallet :=
  mk_bw (get_fee (bi_est_err i) (bi_est i) (bi_fb i) (bi_floor i)) (bi_addr i) (bi_bcast_fail i)
        (bi_claim_who i) (bi_taker_who i).
Definition sp_of (i : btc_in) : sparams := mk_sp (bi_taker i) (bi_maker i) (bi_hash i) (bi_amount i).

(* engine verdict predicted from the model: P2WSH program matches and the C02
   interpreter accepts the tagged stack (standard flags) *)
Definition predict_engine (chain : N) (want : bytes) (spent_script : option bytes) (redeem : option bytes)
  (calls : list sigcall) (pre : option bytes) (t : tx) : bool :=
  match t_ins t, spent_script, redeem with
  | [i], Some s, Some rs =>
      match split_witness (i_wit i) with
      | Some (items, WData ws) =>
          bytes_eqb s want && bytes_eqb ws rs &&
          model_accept chain 0 0 0 (i_seq i) (t_version t) (map (witem_tag calls pre) items)
      | _ => false
      end
  | _, _, _ => false
  end.

Definition c03_btc_check (i : btc_in) (o : btc_obs) : bool :=
  let p := sp_of i in
  let m := btc_spend (bi_backend i) (bi_kind i) p (bi_want i) (bi_opening i) (bi_preimage i) (bw_of i) in
  let valid := match bi_opening i with Some (_, outs) => btc_validate p (bi_want i) outs | None => false end in
  N.eqb (so_result m) (bo_result o)
  && Bool.eqb valid (bo_validated o)
  && list_eqb tx_eqb (so_txs m) (bo_txs o)
  && list_eqb sigcall_eqb (so_calls m) (bo_calls o)
  && (if N.eqb (so_result m) 0 then
        bo_ret_txid_ok o && bo_ret_hex_ok o && Bool.eqb (so_ret_addr m) (bo_ret_addr_ok o)
        && match so_txs m, bi_opening i with
           | [t], Some (_, outs) =>
               let spent := match t_ins t with [x] => option_map o_script (nth_z outs (i_vout x)) | _ => None end in
               Bool.eqb (predict_engine 0 (bi_want i) spent (redeem_script p gen_onchain_bitcoin_csv_c03)
                           (so_calls m) (good_preimage (bi_preimage i) (bi_pre_ok i)) t) (bo_engine_ok o)
           | _, _ => false
           end
      else true).

Definition lw_of (i : lbtc_in) : lbtc_wallet :=
  mk_lw (li_addr i) (li_fee i) (li_bcast_fail i) (li_claim_who i) (li_taker_who i).
Definition lsp_of (i : lbtc_in) : sparams := mk_sp (li_taker i) (li_maker i) (li_hash i) (li_amount i).

(* a broadcast Liquid transaction agrees with the model transaction *)
Definition lout_agrees (m : lspend_out) (o : lo_obs) : bool :=
  match m with
  | LReceiver script value =>
      bytes_eqb script (lob_script o) &&
      match lob_explicit o, lob_unblinded o with
      | None, Some (v, pol) => (v =? value) && pol && lob_proofs o
      | _, _ => false
      end
  | LFee value =>
      match lob_script o, lob_explicit o with
      | [], Some (v, pol) => (v =? value) && pol
      | _, _ => false
      end
  end.

Definition ltx_agrees (m : ltx_m) (o : ltx) : bool :=
  (lm_version m =? lt_version o) && list_eqb txin_eqb (lm_ins m) (lt_ins o)
  && (lm_lock m =? lt_lock o)
  && (fix go (a : list lspend_out) (b : list lo_obs) : bool :=
        match a, b with
        | [], [] => true
        | x :: a', y :: b' => lout_agrees x y && go a' b'
        | _, _ => false
        end) (lm_outs m) (lt_outs o).

Definition c03_lbtc_check (i : lbtc_in) (o : lbtc_obs) : bool :=
  let p := lsp_of i in
  let m := lbtc_spend (li_kind i) p (li_csv i) (li_want i) (li_txid i) (li_outs i) (li_preimage i) (lw_of i) in
  N.eqb (ls_result m) (lb_result o)
  && Bool.eqb (lbtc_validate p (li_csv i) (li_want i) (li_outs i)) (lb_validated o)
  && list_eqb sigcall_eqb (ls_calls m) (lb_calls o)
  && (fix go (a : list ltx_m) (b : list ltx) : bool :=
        match a, b with
        | [], [] => true
        | x :: a', y :: b' => ltx_agrees x y && lt_balanced y && go a' b'
        | _, _ => false
        end) (ls_txs m) (lb_txs o)
  && (if N.eqb (ls_result m) 0 then lb_ret_txid_ok o && lb_ret_hex_ok o && Bool.eqb (ls_ret_addr m) (lb_ret_addr_ok o) else true).

Definition c03_check (c : c03_case) : bool :=
  match c with
  | C03Btc i o => c03_btc_check i o
  | C03Lbtc i o => c03_lbtc_check i o
  end.

(* ---------- the property's own statement on the observed data ---------- *)

(* the signers hold the keys the roles require: the claimer of a preimage claim
   signs with the taker key, the maker signs csv refunds and its half of a coop
   claim, the coop counter-signature comes from the taker key *)
Definition signers_ok (kind claim_who taker_who : N) : bool :=
  match kind with
  | 0%N => N.eqb claim_who 0
  | 1%N => N.eqb claim_who 1
  | _ => N.eqb claim_who 1 && N.eqb taker_who 0
  end.

(* the fee the node's estimator yields for this transaction (plus the fixed margin
   the builder keeps); sizes and margin are the generated constants pinned in Props/C03.v *)
Definition btc_fee_total (i : btc_in) : Z :=
  let gf := get_fee (bi_est_err i) (bi_est i) (bi_fb i) (bi_floor i) in
  let by_size := gf (stripped_size (bi_addr_script i) + gen_btc_witness_allowance) in
  let fee := match bi_kind i with
             | 2%N => let rf := gf gen_btc_refund_fee_vsize in if rf =? 0 then by_size else rf
             | _ => by_size
             end in
  fee + gen_btc_spend_margin.

Definition is_witness_v0_script (s : bytes) : bool :=
  match s with
  | 0%N :: n :: prog => N.eqb n (N.of_nat (length prog)) && (N.eqb n 20 || N.eqb n 32)
  | _ => false
  end.

Definition btc_in_domain (i : btc_in) : bool :=
  match bi_opening i, bi_addr i with
  | Some (_, outs), Some _ =>
      btc_validate (sp_of i) (bi_want i) outs                       (* the validator accepts the opening transaction *)
      && (bi_amount i <? two63)
      && (if N.eqb (bi_kind i) 0 then bi_pre_ok i else true)
      && signers_ok (bi_kind i) (bi_claim_who i) (bi_taker_who i)
      && negb (bi_bcast_fail i)
      && is_witness_v0_script (bi_addr_script i)
      && (0 <=? btc_fee_total i) && (btc_fee_total i <? bi_amount i)  (* the fee leaves something to pay out *)
  | _, _ => false
  end.

Definition text_btc_csv : Z := 1008.

Definition c03_btc_monitor (i : btc_in) (o : btc_obs) : bool :=
  if negb (btc_in_domain i) then true else
  match bi_opening i, bo_txs o with
  | Some (txid, outs), [t] =>
      N.eqb (bo_result o) 0 && bo_ret_txid_ok o && bo_ret_hex_ok o && bo_addr_type_ok o
      && match t_ins t, t_outs t, btc_validated_index (sp_of i) (bi_want i) outs with
         | [x], [y], Some vi =>
             (* spends the validated swap output of the opening transaction *)
             String.eqb (i_txid x) txid && (i_vout x =? vi)
             (* satisfies the opening script: the real engine accepts, and the witness is one of the
                three shapes of C02 with signatures over the consensus digest *)
             && bo_engine_ok o
             && match split_witness (i_wit x) with
                | Some (items, WData ws) =>
                    opt_eqb bytes_eqb (Some ws) (redeem_script (sp_of i) text_btc_csv)
                    && spec_accept 0 0 0 0 (i_seq x) (t_version t)
                         (map (witem_tag (bo_calls o) (good_preimage (bi_preimage i) (bi_pre_ok i))) items)
                | _ => false
                end
             (* a single output, to the wallet's address, of the swap amount less the fee *)
             && bytes_eqb (o_script y) (bi_addr_script i)
             && (o_value y =? bi_amount i - btc_fee_total i)
             (* relative lock: the csv refund matures exactly 1008 blocks after confirmation, the others at once *)
             && opt_eqb Z.eqb (bip68_blocks (t_version t) (i_seq x))
                  (Some (if N.eqb (bi_kind i) 1 then text_btc_csv else 0))
             && (t_lock t =? 0)
         | _, _, _ => false
         end
  | _, _ => false
  end.

Definition lbtc_in_domain (i : lbtc_in) : bool :=
  match li_addr i, li_fee i with
  | Some (_, true), Some fee =>
      lbtc_validate (lsp_of i) (li_csv i) (li_want i) (li_outs i)
      && (if N.eqb (li_kind i) 0 then li_pre_ok i else true)
      && signers_ok (li_kind i) (li_claim_who i) (li_taker_who i)
      && negb (li_bcast_fail i)
      && (0 <? fee) && (fee <? li_amount i)
  | _, _ => false
  end.

Definition c03_lbtc_monitor (i : lbtc_in) (o : lbtc_obs) : bool :=
  if negb (lbtc_in_domain i) then true else
  match li_addr i, li_fee i, lb_txs o with
  | Some (addr_script, _), Some fee, [t] =>
      N.eqb (lb_result o) 0 && lb_ret_txid_ok o && lb_ret_hex_ok o && lb_ret_addr_ok o
      && match lt_ins t, lt_outs t, lbtc_validated_index (lsp_of i) (li_csv i) (li_want i) (li_outs i) with
         | [x], [y; f], Some vi =>
             String.eqb (i_txid x) (li_txid i) && (i_vout x =? vi)
             && match split_witness (i_wit x) with
                | Some (items, WData ws) =>
                    opt_eqb bytes_eqb (Some ws) (redeem_script (lsp_of i) (text_csv (li_chain i)))
                    && spec_accept (li_chain i) 0 0 0 (i_seq x) (lt_version t)
                         (map (witem_tag (lb_calls o) (good_preimage (li_preimage i) (li_pre_ok i))) items)
                | _ => false
                end
             (* one output to the wallet's address holding amount - fee of the policy asset, plus the explicit fee *)
             && bytes_eqb (lob_script y) addr_script
             && match lob_explicit y, lob_unblinded y with
                | None, Some (v, pol) => (v =? li_amount i - fee) && pol && lob_proofs y
                | _, _ => false
                end
             && match lob_script f, lob_explicit f with
                | [], Some (v, pol) => (v =? fee) && pol
                | _, _ => false
                end
             && lt_balanced t
             && opt_eqb Z.eqb (bip68_blocks (lt_version t) (i_seq x))
                  (Some (if N.eqb (li_kind i) 1 then text_csv (li_chain i) else 0))
             && (lt_lock t =? 0)
         | _, _, _ => false
         end
  | _, _, _ => false
  end.

Definition c03_monitor (c : c03_case) : bool :=
  match c with
  | C03Btc i o => c03_btc_monitor i o
  | C03Lbtc i o => c03_lbtc_monitor i o
  end.
