(* C06 — a taker never reveals its swap key once its claim payment may have gone out.
   Trace predicates (used by the theorems and by the monitor) and the monitor
   evaluated on observed scenarios of the real code.  Executable definitions only. *)
From Coq Require Import String ZArith Bool List.
From PS Require Import Base.Corr Model.Data Model.Actions Model.Fsm Model.History Model.FsmCorr Model.CrashCorr
  Gen.Tables.
Import ListNotations.
Open Scope Z_scope.

(* RebalancePayment returned the preimage: the claim payment has succeeded *)
Definition pay_ok (e : effect) : bool :=
  match e with EPayClaim _ _ _ _ (Some _) => true | _ => false end.
(* RebalancePayment returned an error (the HTLC may or may not have failed back) *)
Definition pay_failed (e : effect) : bool :=
  match e with EPayClaim _ _ _ _ None => true | _ => false end.
(* RecoverClaimPayment found the settled payment *)
Definition pay_recovered (e : effect) : bool :=
  match e with ERecoverPay _ (Some _) => true | _ => false end.
(* coop_close leaves the node (it carries the swap private key) *)
Definition coop_send (e : effect) : bool :=
  match e with ESend _ (MCoop _) => true | _ => false end.

(* [lab]: the environment's label of an effect: a failed payment attempt whose
   HTLC is still in flight.  An effect "may be out" when the payment succeeded or
   is labelled outstanding. *)
Definition may_be_out (e : effect) (lab : bool) : bool := pay_ok e || (pay_failed e && lab).

(* the property, first sentence, on a labelled trace: no coop_close once a claim
   payment may be out *)
Fixpoint no_coop_once_out (out : bool) (es : list (effect * bool)) : bool :=
  match es with
  | [] => true
  | (e, lab) :: r => negb (out && coop_send e) && no_coop_once_out (out || may_be_out e lab) r
  end.

(* the states of the "claiming" zone and what a taker may do there (second sentence):
   only store writes in the zone, preimage-spend attempts, and the end of retransmission *)
Definition mem_str (s : string) (l : list string) : bool := existsb (String.eqb s) l.

Definition claim_only (S : list string) (e : effect) : bool :=
  match e with
  | EPersist s _ _ => mem_str s S
  | EBroadcastSpend SKPreimage _ => true
  | ERetransStop => true
  | _ => false
  end.

(* everything after the first successful claim payment satisfies Q *)
Fixpoint after_pay (es : list effect) : option (list effect) :=
  match es with
  | [] => None
  | e :: r => if pay_ok e then Some r else after_pay r
  end.

Definition after_pay_all (Q : effect -> bool) (es : list effect) : bool :=
  match after_pay es with Some post => forallb Q post | None => true end.

(* ---------- reflective table check ---------- *)
Fixpoint tree_names (fuel : nat) (a : action_tree) : list string :=
  match fuel with
  | O => []
  | S f => let '(ANode n ch) := a in
           n :: match first_child ch with Some c => tree_names f c | None => [] end
  end.

Definition pay_action : string := "ValidateTxAndPayClaimInvoiceAction".
Definition may_pay (a : action_tree) : bool := mem_str pay_action (tree_names action_fuel a).

Definition safe_actions : list string := ["ClaimSwapTransactionWithPreimageAction"; "NoOpDoneAction"]%string.
Definition safe_tree (a : action_tree) : bool :=
  match a with ANode n _ => mem_str n safe_actions end.

(* S is closed: every state of S exists, runs a claim-with-preimage / done action and
   all its edges stay in S; and every state that can pay enters S on success *)
Definition zone_closed (t : table) (S : list string) : bool :=
  forallb (fun s =>
    match lookup_state t s with
    | Some sd =>
        match st_action sd with Some a => safe_tree a | None => false end
        && forallb (fun en => mem_str (snd en) S) (st_events sd)
    | None => false
    end) S.

Definition pay_enters_zone (t : table) (S : list string) : bool :=
  forallb (fun nsd =>
    match st_action (snd nsd) with
    | Some a => if may_pay a
                then match assoc_str Ev_Succeeded (st_events (snd nsd)) with
                     | Some nx => mem_str nx S
                     | None => false
                     end
                else true
    | None => true
    end) t.

Definition c06_table_ok (t : table) (S : list string) : bool := zone_closed t S && pay_enters_zone t S.

(* the zone of a table: everything reachable from the success edges of its paying states *)
Definition succ_states (t : table) (s : string) : list string :=
  match lookup_state t s with Some sd => map snd (st_events sd) | None => [] end.

Fixpoint add_new (l acc : list string) : list string :=
  match l with
  | [] => acc
  | x :: r => if mem_str x acc then add_new r acc else add_new r (acc ++ [x])
  end.

Fixpoint close_under (t : table) (fuel : nat) (acc : list string) : list string :=
  match fuel with
  | O => acc
  | S f => close_under t f (add_new (flat_map (succ_states t) acc) acc)
  end.

Definition pay_targets (t : table) : list string :=
  flat_map (fun nsd =>
    match st_action (snd nsd) with
    | Some a => if may_pay a then match assoc_str Ev_Succeeded (st_events (snd nsd)) with Some nx => [nx] | None => [] end else []
    | None => []
    end) t.

Definition claim_zone (t : table) : list string := close_under t (List.length t) (add_new (pay_targets t) []).

(* the states whose action can pay *)
Definition pay_states (t : table) : list string :=
  flat_map (fun nsd => match st_action (snd nsd) with
                       | Some a => if may_pay a then [fst nsd] else []
                       | None => [] end) t.

(* ---------- shape of a trace after the payment (used by the theorems) ---------- *)
Definition persist_ok (e : effect) : bool := match e with EPersist _ _ false => false | _ => true end.
Definition is_persist (e : effect) : bool := match e with EPersist _ _ _ => true | _ => false end.
Definition count_persist (es : list effect) : nat := List.length (filter is_persist es).
Definition durable_in (S : list string) (e : effect) : bool :=
  match e with EPersist s _ true => mem_str s S | _ => false end.

(* what follows the successful payment: durable store writes of the paying state, then only claim-zone
   effects, among them at least one durable store write of a zone state *)
Fixpoint tail_ok (S PS : list string) (post : list effect) : bool :=
  (forallb (claim_only S) post && existsb (durable_in S) post)
  || match post with
     | EPersist s _ true :: r => mem_str s PS && tail_ok S PS r
     | _ => false
     end.

(* ---------- the known pattern D4, as a condition on the environment ---------- *)
(* [calm_item before after crashed]: the item of the history during which the first claim payment succeeds
   runs to completion (no crash), all its store writes succeed, and the model's bounded loop is not exhausted *)
Definition calm_item (before after : list effect) (crashed : bool) : bool :=
  let new := skipn (List.length before) after in
  existsb pay_ok before || negb (existsb pay_ok new)
  || (negb crashed && forallb persist_ok new && Nat.ltb (count_persist new) loop_fuel).

Definition is_crash_item (it : hitem) : bool := match it with HCrash _ _ _ => true | HStep _ _ => false end.

Fixpoint c06_calm (tc : tl_consts) (dec : string -> option (string * Z * Z)) (t : table) (terminal : list string)
    (h : hstate) (its : list hitem) : bool :=
  match its with
  | [] => true
  | it :: r =>
      let h' := hist_step tc dec t terminal h it in
      calm_item (hs_trace h) (hs_trace h') (is_crash_item it) && c06_calm tc dec t terminal h' r
  end.

(* labels by position in the whole trace *)
Fixpoint label_from (pend : nat -> bool) (i : nat) (es : list effect) : list (effect * bool) :=
  match es with
  | [] => []
  | e :: r => (e, pend i) :: label_from pend (Datatypes.S i) r
  end.

(* every non-final state of the zone re-runs the preimage claim when the node recovers *)
Definition claim_action : string := "ClaimSwapTransactionWithPreimageAction".
Definition zone_recovers (t : table) (terminal zs : list string) : bool :=
  forallb (fun s =>
    mem_str s terminal ||
    match lookup_state t s with
    | Some sd => negb (st_fail_on_recover sd) &&
                 match st_action sd with Some (ANode n _) => String.eqb n claim_action | None => false end
    | None => false
    end) zs.

Definition taker_tables : list table := [table_swap_out_sender; table_swap_in_receiver].

(* ---------- the monitor: the property's statement on OBSERVED scenarios ---------- *)
(* labels of one step: the pend flags are consumed by the EPayClaim effects in order *)
Fixpoint label_effects (es : list effect) (pend : list bool) : list (effect * bool) :=
  match es with
  | [] => []
  | e :: r =>
      match e with
      | EPayClaim _ _ _ _ _ =>
          match pend with
          | p :: pr => (e, p) :: label_effects r pr
          | [] => (e, false) :: label_effects r []
          end
      | _ => (e, false) :: label_effects r pend
      end
  end.

Definition spend_preimage_only (e : effect) : bool :=
  match e with EBroadcastSpend SKPreimage _ => true | EBroadcastSpend _ _ => false | _ => true end.
Definition is_spend_preimage (e : effect) : bool :=
  match e with EBroadcastSpend SKPreimage _ => true | _ => false end.

Definition claimed_state : string := "State_ClaimedPreimage".

(* one observed step, given that the claim payment had succeeded (or was found settled) before it *)
Definition step_after_paid (s : obs_step) (o : crash_obs) : bool :=
  forallb (fun e => negb (coop_send e) && spend_preimage_only e) (os_effects s)
  (* it never ends in another final state *)
  && (negb (mem_str (m_cur (os_post s)) terminal_states) || String.eqb (m_cur (os_post s)) claimed_state)
  (* every recovery from a record that holds the preimage tries the preimage claim again unless it is already done *)
  && (negb (is_recover_input (os_input s)) || mem_str (m_cur (os_pre s)) terminal_states
      || negb (str_nonempty (d_claim_preimage (m_data (os_pre s))))
      || existsb is_spend_preimage (os_effects s) || str_nonempty (d_claim_txid (m_data (os_post s)))
      || match co_crash o with Some _ => true | None => false end).

Fixpoint c06_steps (paid out : bool) (ss : list obs_step) (os : list crash_obs) : bool :=
  match ss with
  | [] => true
  | s :: sr =>
      let o := match os with o :: _ => o | [] => mkCObs None [] end in
      let labelled := label_effects (os_effects s) (co_pend o) in
      no_coop_once_out out labelled
      && (if paid then step_after_paid s o else after_pay_all (fun e => negb (coop_send e) && spend_preimage_only e) (os_effects s))
      && c06_steps (paid || existsb (fun e => pay_ok e || pay_recovered e) (os_effects s))
                   (out || existsb (fun el => may_be_out (fst el) (snd el) || pay_recovered (fst el)) labelled)
                   sr (tl os)
  end.

Definition c06_monitor (c : crash_case) : bool := c06_steps false false (sc_steps (fst c)) (snd c).
