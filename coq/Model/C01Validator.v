(* C01, validator side: the REAL opening-transaction validators (BitcoinOnChain.ValidateTx, LiquidOnChain.ValidateTx)
   accept a transaction only if ONE output carries exactly the negotiated amount (Liquid: unblinds, with the swap's
   blinding key, to that amount of the policy asset under a matching commitment) AND pays to the script built from the
   swap's parameters.  Monitor on the cases of the C03 harness (real validators on generated opening transactions,
   among them the amount and the script on different outputs). *)
From Coq Require Import String ZArith NArith Bool List.
From PS Require Import Base.Corr Base.Wrap Base.ScriptOps Model.ScriptInterp Model.Tx Model.C03Corr.
Import ListNotations.
Open Scope Z_scope.

Definition c01_btc_validator_ok (i : btc_in) (o : btc_obs) : bool :=
  if bo_validated o then
    match bi_opening i with
    | Some (_, outs) =>
        (* the validator compares int64 values: an amount >= 2^63 (no such output can exist on chain) is
           compared through the same conversion *)
        existsb (fun x => (o_value x =? i64 (bi_amount i)) && bytes_eqb (o_script x) (bi_want i)) outs
    | None => false
    end
  else true.

Definition c01_lbtc_validator_ok (i : lbtc_in) (o : lbtc_obs) : bool :=
  if lb_validated o then
    existsb (fun x => bytes_eqb (lo_script x) (li_want i) &&
                      match lbtc_validate_output x (li_amount i) with Some _ => true | None => false end)
            (li_outs i)
  else true.

Definition c01_validator_monitor (c : c03_case) : bool :=
  match c with
  | C03Btc i o => c01_btc_validator_ok i o
  | C03Lbtc i o => c01_lbtc_validator_ok i o
  end.
