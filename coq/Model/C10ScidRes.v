(* C10, channel-id spellings, adapter side: the Lightning adapters (lnd.Client / ClightningClient SpendableMsat,
   ReceivableMsat) resolve a spelling to a channel of the node exactly when it equals the channel's own spelling after
   the separator normalisation - the same equivalence lockSwap (sameChannel, Model/Service.v norm_scid) uses. If an
   adapter resolved MORE spellings (numeric parsing: leading zeros, signs, blanks) a request naming a busy channel
   by such a spelling would pass the channel look-up and not collide in lockSwap. *)
From Coq Require Import String Ascii Bool List.
From PS Require Import Base.Corr Model.Data Model.Actions Model.Fsm Model.History Model.Service.
Import ListNotations.

Record scidres_case := mkScidRes {
  sr_backend : string;   (* "lnd" | "cln" *)
  sr_fn : string;        (* SpendableMsat | ReceivableMsat *)
  sr_id : string;        (* the spelling asked for *)
  sr_chan : string;      (* the node's only channel, canonical x spelling *)
  sr_resolved : bool     (* observed: the call found the channel *)
}.

(* model of the adapters' look-up *)
Definition adapter_resolves (id chan : string) : bool := String.eqb (norm_scid id) chan.

Definition scidres_check (c : scidres_case) : bool :=
  Bool.eqb (adapter_resolves (sr_id c) (sr_chan c)) (sr_resolved c).

(* on observed data: a spelling the adapter resolves to the channel is one lockSwap takes for that channel *)
Definition scidres_monitor (c : scidres_case) : bool :=
  implb (sr_resolved c) (String.eqb (norm_scid (sr_id c)) (norm_scid (sr_chan c))).
