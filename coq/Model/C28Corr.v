(* Correspondence / monitor functions for C28 (evaluated on harness cases).

   A case is one operation sequence run against the real peersync code from an
   empty store; after every operation the harness records the messages handed to
   the lightning node, the result of the call and the raw content of the bucket.
   Stored timestamps are observed as ages in whole seconds (floor) at the time of
   the dump. Clock discipline of the harness: operation number i of a case runs at
   virtual time V_i seconds + i milliseconds where V_i is the sum of the whole-second
   clock advances so far; the real run stays below one second per case, so every
   real age lies strictly between k and k+1 seconds exactly when the model's does. *)
From Coq Require Import List String Ascii ZArith Bool.
From PS Require Import Base.Corr Gen.ConstsPeerSync Model.PeerSync.
Import ListNotations.
Open Scope Z_scope.

Record obs_rec := ORec {
  o_key : string; o_badjson : bool; o_address : string; o_status : string;
  o_poll_age : option Z; o_seen_age : option Z; o_snap : snapshot }.

Record c28_step := Step {
  cs_now : Z; cs_op : op; cs_sent : list sent; cs_result : Z; cs_store : list obs_rec }.

Definition c28_case := list c28_step.

(* ---------- equality of projected observables ---------- *)
Definition snap_eqb (a b : snapshot) : bool :=
  (sn_version a =? sn_version b) && list_eqb String.eqb (sn_assets a) (sn_assets b) &&
  Bool.eqb (sn_allowed a) (sn_allowed b) &&
  (sn_bi a =? sn_bi b) && (sn_bo a =? sn_bo b) && (sn_li a =? sn_li b) && (sn_lo a =? sn_lo b).

Definition obs_rec_eqb (a b : obs_rec) : bool :=
  String.eqb (o_key a) (o_key b) && Bool.eqb (o_badjson a) (o_badjson b) &&
  String.eqb (o_address a) (o_address b) && String.eqb (o_status a) (o_status b) &&
  opt_eqb Z.eqb (o_poll_age a) (o_poll_age b) && opt_eqb Z.eqb (o_seen_age a) (o_seen_age b) &&
  snap_eqb (o_snap a) (o_snap b).

Definition sent_eqb (a b : sent) : bool :=
  String.eqb (fst (fst a)) (fst (fst b)) && (snd (fst a) =? snd (fst b)) && Bool.eqb (snd a) (snd b).

Definition sent_le (a b : sent) : bool :=
  if String.eqb (fst (fst a)) (fst (fst b)) then snd (fst a) <=? snd (fst b)
  else String.leb (fst (fst a)) (fst (fst b)).

Fixpoint insert_sent (x : sent) (l : list sent) : list sent :=
  match l with
  | [] => [x]
  | y :: r => if sent_le x y then x :: l else y :: insert_sent x r
  end.
Definition sort_sent (l : list sent) : list sent := fold_right insert_sent [] l.

Definition ns_per_s : Z := 1000000000.
Definition age_sec (now : Z) (t : option Z) : option Z :=
  match t with None => None | Some s => Some ((now - s) / ns_per_s) end.

Definition proj_rec (now : Z) (kv : string * record) : obs_rec :=
  let r := snd kv in
  ORec (fst kv) false (r_address r) (r_status r) (age_sec now (r_last_poll r)) (age_sec now (r_last_seen r)) (r_snap r).

(* ---------- model == observed ---------- *)
Fixpoint c28_check_from (s : state) (c : c28_case) : bool :=
  match c with
  | [] => true
  | x :: rest =>
      let '(s', ms, res) := step (cs_now x) s (cs_op x) in
      list_eqb sent_eqb (sort_sent ms) (sort_sent (cs_sent x)) &&
      (res =? cs_result x) &&
      list_eqb obs_rec_eqb (map (proj_rec (cs_now x)) (s_store s')) (cs_store x) &&
      c28_check_from s' rest
  end.

Definition c28_check (c : c28_case) : bool :=
  c28_check_from init_state c &&
  (* the poller and the service were wired with the same constants *)
  (ps_poller_timeout =? ps_cleanup_timeout) && (ps_poller_request_interval =? ps_request_poll_interval) &&
  (ps_local_version =? ps_protocol_version).

(* ---------- the property evaluated on the OBSERVED data only ---------- *)
Fixpoint obs_get (k : string) (l : list obs_rec) : option obs_rec :=
  match l with
  | [] => None
  | r :: rest => if String.eqb k (o_key r) then Some r else obs_get k rest
  end.

(* the capability a stored record carries: Some None = none, None = unreadable *)
Definition obs_cap (r : obs_rec) : option (option capability) :=
  if o_badjson r then None
  else if has_capability_data (o_snap r) then
    match to_capability (o_snap r) with None => None | Some c => Some (Some c) end
  else Some None.

Definition cap_eqb (a b : capability) : bool := snap_eqb (snapshot_of_cap a) (snapshot_of_cap b).

(* "reflects its most recent poll unless that poll advertises a lower version" *)
Definition spec_capability (prev : option capability) (polled : capability) : capability :=
  match prev with
  | Some old => if c_version polled <? c_version old then old else polled
  | None => polled
  end.

Record mon_state := Mon {
  m_now : Z;                       (* clock at the previous operation *)
  m_store : list obs_rec;          (* bucket content observed after the previous operation *)
  m_conn : list string;
  m_susp : list string;
  m_req : list (string * Z) }.     (* time of the last request poll to an unknown connected peer *)

(* same keys carrying the same capability (a rewrite may canonicalise the asset tickers) *)
Definition same_cap (x y : obs_rec) : bool :=
  match obs_cap x, obs_cap y with
  | Some (Some c), Some (Some c') => cap_eqb c c'
  | Some None, Some None => true
  | None, None => Bool.eqb (o_badjson x) (o_badjson y) && snap_eqb (o_snap x) (o_snap y)
  | _, _ => false
  end.
Definition same_caps (a b : list obs_rec) : bool :=
  list_eqb (fun x y => String.eqb (o_key x) (o_key y) && same_cap x y) a b.

Definition unchanged (a b : list obs_rec) : bool := list_eqb obs_rec_eqb a b.

Definition others_unchanged (k : string) (before after : list obs_rec) : bool :=
  forallb (fun r => String.eqb k (o_key r) ||
                    match obs_get (o_key r) after with Some r' => obs_rec_eqb r r' | None => false end) before &&
  forallb (fun r => String.eqb k (o_key r) ||
                    match obs_get (o_key r) before with Some _ => true | None => false end) after.

Definition no_key_lost (before after : list obs_rec) : bool :=
  forallb (fun r => match obs_get (o_key r) after with Some _ => true | None => false end) before.

(* a removed record must be expired w.r.t. [timeout] (real age < observed whole seconds + 1) and not kept *)
Definition removal_justified (timeout : Z) (keep : list string) (before after : list obs_rec) : bool :=
  forallb (fun r =>
    match obs_get (o_key r) after with
    | Some _ => true
    | None =>
        negb (mem (o_key r) keep) &&
        match o_seen_age r with
        | Some a => timeout <? (a + 1) * ns_per_s
        | None => false
        end
    end) before.

Fixpoint nodup_to (l : list sent) : bool :=
  match l with
  | [] => true
  | m :: r => negb (existsb (fun m' => String.eqb (fst (fst m)) (fst (fst m'))) r) && nodup_to r
  end.

(* check the request polls of one poll round against the remembered request times *)
Fixpoint mon_requests (now : Z) (force : bool) (known : list obs_rec) (ms : list sent)
  (rq : list (string * Z)) : bool * list (string * Z) :=
  match ms with
  | [] => (true, rq)
  | m :: rest =>
      let k := fst (fst m) in
      if (snd (fst m) =? ps_msgtype_request_poll) &&
         match obs_get k known with None => true | Some _ => false end then
        let ok := force || match req_get k rq with
                           | Some last => ps_request_poll_interval <=? now - last
                           | None => true
                           end in
        let '(ok', rq') := mon_requests now force known rest (req_set k now rq) in
        (ok && ok', rq')
      else mon_requests now force known rest rq
  end.

(* the previous observation seen at the current clock: ages grow by the whole seconds elapsed *)
Definition age_obs (d : Z) (r : obs_rec) : obs_rec :=
  ORec (o_key r) (o_badjson r) (o_address r) (o_status r)
       (option_map (Z.add d) (o_poll_age r)) (option_map (Z.add d) (o_seen_age r)) (o_snap r).

Definition mon_step (m : mon_state) (x : c28_step) : bool * mon_state :=
  let now := cs_now x in
  let before := map (age_obs (now / ns_per_s - m_now m / ns_per_s)) (m_store m) in
  let after := cs_store x in
  let keep_all := Mon now after (m_conn m) (m_susp m) (m_req m) in
  match cs_op x with
  | OMsg from ty payload =>
      let is_cap_msg := (ty =? ps_msgtype_poll) || (ty =? ps_msgtype_request_poll) in
      let sends_ok :=
        match cs_sent x with
        | [] => true
        | [(to, t, _)] => String.eqb to from && (t =? ps_msgtype_poll) && (ty =? ps_msgtype_request_poll)
        | _ => false
        end in
      let stored_ok :=
        match payload with
        | Some sn =>
            match to_capability sn with
            | Some polled =>
                if is_cap_msg && negb (mem from (m_susp m)) then
                  let prev := match obs_get from before with
                              | None => Some None
                              | Some r => obs_cap r
                              end in
                  match prev with
                  | None => true                      (* stored record unreadable: nothing is claimed *)
                  | Some pc =>
                      match obs_get from after with
                      | None => false
                      | Some r' =>
                          match obs_cap r' with
                          | Some (Some c') => cap_eqb c' (spec_capability pc polled)
                          | _ => (* an all-zero capability is stored as "no capability data" *)
                              negb (has_capability_data (snapshot_of_cap (spec_capability pc polled))) &&
                              negb (o_badjson r')
                          end
                      end
                  end
                else unchanged before after
            | None => unchanged before after
            end
        | None => unchanged before after
        end in
      (sends_ok && stored_ok && others_unchanged from before after && no_key_lost before after, keep_all)
  | OPoll force =>
      let conn := m_conn m in
      let rq := prune_req conn (m_req m) in
      let '(ok, rq') := mon_requests now force before (cs_sent x) rq in
      let types_ok := forallb (fun s => (snd (fst s) =? ps_msgtype_poll) || (snd (fst s) =? ps_msgtype_request_poll)) (cs_sent x) in
      (* request polls to unknown peers go to connected, non-suspicious peers only *)
      let targets_ok := forallb (fun s => match obs_get (fst (fst s)) before with
                                          | Some _ => true
                                          | None => mem (fst (fst s)) conn && (snd (fst s) =? ps_msgtype_request_poll)
                                          end && negb (mem (fst (fst s)) (m_susp m))) (cs_sent x) in
      (ok && types_ok && targets_ok && nodup_to (cs_sent x) && same_caps before after && no_key_lost before after &&
       (List.length before =? List.length after)%nat,
       Mon now after conn (m_susp m) rq')
  | OCleanup =>
      ((if cs_result x =? 0 then removal_justified ps_cleanup_timeout (m_conn m) before after
        else list_eqb obs_rec_eqb before after) &&
       forallb (fun r => match obs_get (o_key r) before with Some _ => true | None => false end) after &&
       match cs_sent x with [] => true | _ => false end, keep_all)
  | OCleanupDirect timeout keep =>
      ((if 0 <=? cs_result x then (0 <? timeout) && removal_justified timeout keep before after
        else list_eqb obs_rec_eqb before after), keep_all)
  | OConnect p on => (list_eqb obs_rec_eqb before after, Mon now after (set_toggle p on (m_conn m)) (m_susp m) (m_req m))
  | OSusp p on => (list_eqb obs_rec_eqb before after, Mon now after (m_conn m) (set_toggle p on (m_susp m)) (m_req m))
  | OSendFail _ _ | OListFail _ => (list_eqb obs_rec_eqb before after, keep_all)
  | OReload =>
      (* stored peer records reload unchanged *)
      (list_eqb obs_rec_eqb before after, Mon now after (m_conn m) (m_susp m) [])
  | OCompat id =>
      (* compatible only if the stored capability has this node's protocol version *)
      ((if cs_result x =? 1 then
          match obs_get id before with
          | Some r => match obs_cap r with
                      | Some (Some c) => c_version c =? ps_protocol_version
                      | _ => false
                      end
          | None => false
          end
        else true) && list_eqb obs_rec_eqb before after, keep_all)
  | OPutRaw _ _ | ORemove _ => (true, keep_all)
  end.

Fixpoint c28_monitor_from (m : mon_state) (c : c28_case) : bool :=
  match c with
  | [] => true
  | x :: rest => let '(ok, m') := mon_step m x in ok && c28_monitor_from m' rest
  end.

Definition c28_monitor (c : c28_case) : bool := c28_monitor_from (Mon 0 [] [] [] []) c.
