(* Correspondence / monitor functions for C27 (evaluated on harness cases). *)
From Coq Require Import String Ascii ZArith NArith Bool List.
From PS Require Import Base.Corr Model.Premium Gen.ConstsPremium.
Import ListNotations.
Open Scope Z_scope.

(* ---------- the code's functions with the constants generated from the code ---------- *)
Definition code_ppm_compute := ppm_compute premium_rate_parts.
Definition code_get_rate := get_rate premium_default_peer_id premium_default_table.
Definition code_get_default_rate := get_default_rate premium_default_peer_id premium_default_table.
Definition code_set_rate := set_rate bbolt_max_key_size.
Definition code_set_default_rate := set_default_rate premium_default_peer_id bbolt_max_key_size.
Definition code_delete_rate := delete_rate.
Definition code_compute := compute premium_rate_parts premium_default_peer_id premium_default_table.
Definition code_local_capability_rates :=
  local_capability_rates premium_default_peer_id premium_default_table
    premium_asset_btc premium_asset_lbtc premium_op_swap_in premium_op_swap_out.
Definition code_apply_upd := apply_upd premium_default_peer_id bbolt_max_key_size.
Definition code_run_upds := run_upds premium_default_peer_id bbolt_max_key_size.

(* ---------- cases: an operation sequence on a fresh database, each op with what the code answered ---------- *)
Inductive c27_op :=
| OSet (peer : string) (asset op rate : Z) (obs_err : bool)
| OSetDefault (asset op rate : Z) (obs_err : bool)
| ODelete (peer : string) (asset op : Z) (obs_err : bool)
| OGet (peer : string) (asset op : Z) (obs : option Z)
| OGetDefault (asset op : Z) (obs : option Z)
| OCompute (peer : string) (asset op amt : Z) (obs : option Z)
| OPPM (rate amt : Z) (obs : Z)
| ONew (asset op : Z) (obs_err : bool)
| OAdvert (peer : string) (obs_cap obs_payload : Z * Z * Z * Z)
| OGuard (peer : string) (asset op : Z) (obs : Z)      (* peerGuard.PremiumRate *)
| OReopen
| ODump (obs : list (string * string)).

Definition c27_case := list c27_op.

(* n copies of one character (the harness writes very long peer ids this way) *)
Definition rep_str (c : string) (n : N) : string :=
  match c with
  | String ch _ => N.iter n (fun s => String ch s) EmptyString
  | EmptyString => EmptyString
  end.

Definition res_opt (r : rate_result) : option Z := match r with ROk v => Some v | _ => None end.

Definition z4_eqb (x y : Z * Z * Z * Z) : bool :=
  let '(a, b, c, d) := x in let '(a', b', c', d') := y in
  (a =? a') && (b =? b') && (c =? c') && (d =? d').

Definition dump_matches (st : store) (obs : list (string * string)) : bool :=
  (Nat.eqb (List.length obs) (List.length st)) &&
  forallb (fun kv => match st_get st (fst kv) with
                     | Some v => String.eqb (int_str v) (snd kv)
                     | None => false
                     end) obs.

(* model step: new store and "model agrees with the observation" *)
Definition c27_step (st : store) (o : c27_op) : store * bool :=
  match o with
  | OSet p a op r e => let '(st', me) := code_set_rate st p a op r in (st', Bool.eqb me e)
  | OSetDefault a op r e => let '(st', me) := code_set_default_rate st a op r in (st', Bool.eqb me e)
  | ODelete p a op e => let '(st', me) := code_delete_rate st p a op in (st', Bool.eqb me e)
  | OGet p a op obs => (st, opt_eqb Z.eqb (res_opt (code_get_rate st p a op)) obs)
  | OGetDefault a op obs => (st, opt_eqb Z.eqb (res_opt (code_get_default_rate st a op)) obs)
  | OCompute p a op amt obs => (st, opt_eqb Z.eqb (code_compute st p a op amt) obs)
  | OPPM r amt obs => (st, code_ppm_compute r amt =? obs)
  | ONew a op e => (st, Bool.eqb (negb (new_premium_rate_ok a op)) e)
  | OAdvert p cap pay =>
      let m := code_local_capability_rates st p in (st, z4_eqb m cap && z4_eqb m pay)
  | OGuard p a op obs =>
      (st, guard_premium_rate premium_default_peer_id premium_default_table st p a op =? obs)
  | OReopen => (st, true)
  | ODump obs => (st, dump_matches st obs)
  end.

Fixpoint c27_run (st : store) (ops : list c27_op) : bool :=
  match ops with
  | [] => true
  | o :: r => let '(st', ok) := c27_step st o in ok && c27_run st' r
  end.

Definition c27_check (c : c27_case) : bool := c27_run [] c.

(* ---------- the property's own statement, evaluated on the observed data ----------
   A plain map keyed by (scope, asset, operation), scope = global row or one peer;
   rate = peer row, else global row, else the built-in default; premium =
   amount * rate / 10^6 truncated toward zero (the number of the property text). *)
Definition skey := (option string * Z * Z)%type.       (* None = the global rate *)
Definition smap := list (skey * Z).

Definition skey_eqb (x y : skey) : bool :=
  let '(s, a, o) := x in let '(s', a', o') := y in
  opt_eqb String.eqb s s' && (a =? a') && (o =? o').

Fixpoint sm_get (m : smap) (k : skey) : option Z :=
  match m with
  | [] => None
  | (k', v) :: r => if skey_eqb k' k then Some v else sm_get r k
  end.
Fixpoint sm_del (m : smap) (k : skey) : smap :=
  match m with
  | [] => []
  | (k', v) :: r => if skey_eqb k' k then sm_del r k else (k', v) :: sm_del r k
  end.
Definition sm_put (m : smap) (k : skey) (v : Z) : smap := (k, v) :: sm_del m k.

Definition spec_valid (a o : Z) : bool := negb (a =? 0) && negb (o =? 0).

(* the rate the node charges [scope] for (asset, operation); None = no rate exists *)
Definition spec_rate (m : smap) (scope : option string) (a o : Z) : option Z :=
  if spec_valid a o then
    match sm_get m (scope, a, o) with
    | Some r => Some r
    | None =>
        match sm_get m (None, a, o) with
        | Some r => Some r
        | None => table_get premium_default_table a o
        end
    end
  else None.

Definition spec_premium (rate amt : Z) : Z := Z.quot (amt * rate) 1000000.

Definition spec_four (m : smap) (scope : option string) : Z * Z * Z * Z :=
  let g a o := match spec_rate m scope a o with Some r => r | None => 0 end in
  (g 1 1, g 1 2, g 2 1, g 2 2).   (* BTC/LBTC = 1/2, swap-in/swap-out = 1/2; pinned to the code in Proofs/C27.v *)

Definition c27_mon_step (m : smap) (o : c27_op) : smap * bool :=
  match o with
  | OSet p a op r e => (if e then m else sm_put m (Some p, a, op) r, true)
  | OSetDefault a op r e => (if e then m else sm_put m (None, a, op) r, true)
  | ODelete p a op e => (if e then m else sm_del m (Some p, a, op), true)
  | OGet p a op obs =>
      (m, if spec_valid a op then opt_eqb Z.eqb obs (spec_rate m (Some p) a op) else true)
  | OGetDefault a op obs =>
      (m, if spec_valid a op then opt_eqb Z.eqb obs (spec_rate m None a op) else true)
  | OCompute p a op amt obs =>
      (m, if spec_valid a op
          then opt_eqb Z.eqb obs (option_map (fun r => spec_premium r amt) (spec_rate m (Some p) a op))
          else true)
  | OPPM r amt obs => (m, obs =? spec_premium r amt)
  | ONew _ _ _ => (m, true)
  | OAdvert p cap pay => (m, z4_eqb cap (spec_four m (Some p)) && z4_eqb pay (spec_four m (Some p)))
  | OGuard p a op obs =>
      (* the guard's rate is the rate charged, wherever the node has one *)
      (m, match spec_rate m (Some p) a op with Some r => obs =? r | None => true end)
  | OReopen => (m, true)
  | ODump obs => (m, Nat.eqb (List.length obs) (List.length m))
  end.

Fixpoint c27_mon_run (m : smap) (ops : list c27_op) : bool :=
  match ops with
  | [] => true
  | o :: r => let '(m', ok) := c27_mon_step m o in ok && c27_mon_run m' r
  end.

Definition c27_monitor (c : c27_case) : bool := c27_mon_run [] c.
