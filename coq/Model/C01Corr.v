(* C01: the taker pays the claim invoice only for a validated, confirmed opening output.
   Guards and monitors (executable, evaluated on OBSERVED scenarios of the real state machine
   and used as the statement of the theorems in Proofs/C01.v). *)
From Coq Require Import String ZArith Bool List.
From PS Require Import Base.Wrap Base.Corr Model.Data Model.Actions Model.Fsm Model.History Model.FsmCorr
  Model.TableChecks Gen.ConstsSwap.
Import ListNotations.
Open Scope Z_scope.

Definition pay_action : string := "ValidateTxAndPayClaimInvoiceAction".
Definition create_out_action : string := "CreateSwapOutFromRequestAction".
Definition blind_wrapper : string := "SetBlindingKeyActionWrapper".

(* ---------- ghost: what the trace shows since the last store write ---------- *)
Record vrec := mkV {
  v_taker : string; v_maker : string; v_hash : string; v_amount : Z; v_csv : Z;
  v_blind : string; v_hex : string; v_res : option bool }.

Record c01_ghost := mkG {
  g_watch : bool;            (* a confirmation watch was registered (proof ghost: in the current process) *)
  g_val : option vrec }.     (* the last ValidateTx call since the last store write (= in the same action) *)

Definition c01_gy (y : c01_ghost) (e : effect) : c01_ghost :=
  match e with
  | EWatchConf _ _ _ _ => mkG true (g_val y)
  | EValidate t m h a c b x r => mkG (g_watch y) (Some (mkV t m h a c b x r))
  | EPersist _ _ _ => mkG (g_watch y) None
  | _ => y
  end.

Definition c01_y0 : c01_ghost := mkG false None.

(* boolean trace monitor with a ghost: every effect is checked against the record that was
   durable when it happened and the ghost accumulated so far *)
Fixpoint trace_okgb {Y : Type} (gy : Y -> effect -> Y) (Pb : swap_data -> Y -> effect -> bool)
    (lp : swap_data) (y : Y) (es : list effect) : bool :=
  match es with
  | [] => true
  | e :: r => Pb lp y e && trace_okgb gy Pb (lp_step lp e) (gy y e) r
  end.

(* ---------- the invoice check of AwaitTxConfirmationAction, as a fact about the record ---------- *)
(* the CODE's check, constants from the code (tc), invoice decoder dec *)
Definition invoice_okb (tc : tl_consts) (dec : string -> option (string * Z * Z)) (d : swap_data) : bool :=
  match d_otb d, timelock_policy tc d, get_claim_amount d with
  | Some o, Some pol, Some claim =>
      match dec (ob_payreq o) with
      | Some (hash, msat, cltv) =>
          p_allow_new pol && (msat =? u64_mul claim 1000) &&
          (if String.eqb (get_chain d) btc_chain then cltv <=? csv_height tc d / 2
           else (0 <=? cltv) && (cltv <=? p_final_cltv pol)) &&
          String.eqb (d_claim_hash d) hash
      | None => false
      end
  | _, _, _ => false
  end.

(* legacy (protocol 6 Liquid) swaps: never a new payment, only recovery of an existing one *)
Definition legacyb (tc : tl_consts) (d : swap_data) : bool :=
  match timelock_policy tc d with Some pol => negb (p_allow_new pol) | None => false end.

Definition colb tc dec d : bool := invoice_okb tc dec d || legacyb tc d.

(* ---------- what holds at every RebalancePayment call ---------- *)
Definition c01_pay_guard tc dec (lp : swap_data) (y : c01_ghost) (payreq : string) : bool :=
  match d_otb lp, timelock_policy tc lp, get_opening_amount lp with
  | Some o, Some pol, Some amt =>
      String.eqb payreq (ob_payreq o) && invoice_okb tc dec lp &&
      match g_val y with
      | Some v =>
          String.eqb (v_taker v) (get_taker_pubkey lp) && String.eqb (v_maker v) (get_maker_pubkey lp) &&
          String.eqb (v_hash v) (d_claim_hash lp) && (v_amount v =? amt) && (v_csv v =? p_csv pol) &&
          String.eqb (v_blind v) (blinding_of lp) && String.eqb (v_hex v) (d_opening_hex lp) &&
          match v_res v with Some true => true | _ => false end
      | None => false
      end
  | _, _, _ => false
  end.

Definition c01_pb tc dec (t : table) (lp : swap_data) (y : c01_ghost) (e : effect) : bool :=
  match e with
  | EPayClaim payreq scid mx tip res => c01_pay_guard tc dec lp y payreq
  | EWatchConf txid vout start win =>
      match d_otb lp with Some o => String.eqb txid (ob_txid o) && (vout =? ob_vout o) | None => false end
  | EPersist s d ok => state_avoids t pay_action s || colb tc dec d
  | _ => true
  end.

(* ---------- the same in the property's own words and numbers ---------- *)
(* the invoice: amount = negotiated claim amount (sat*1000, as the code compares it: mod 2^64),
   final CLTV within the chain's bound (Bitcoin <= 504, Liquid 0..29), its hash bound to the swap *)
Definition c01_spec_invoice (dec : string -> option (string * Z * Z)) (lp : swap_data) (payreq : string) : bool :=
  match dec payreq, get_claim_amount lp with
  | Some (hash, msat, cltv), Some claim =>
      (msat =? (claim * 1000) mod 18446744073709551616) &&
      (if String.eqb (get_chain lp) btc_chain then cltv <=? 504 else (0 <=? cltv) && (cltv <=? 29)) &&
      String.eqb (d_claim_hash lp) hash
  | _, _ => false
  end.

(* the validator was asked, in the same action, about exactly the negotiated output: both swap
   pubkeys, the invoice's hash, the negotiated on-chain amount, the chain's CSV (1008 / 10080),
   the blinding key announced by the peer (own key if none), and the transaction the watcher
   delivered - and answered "valid" *)
Definition c01_spec_validated (lp : swap_data) (y : c01_ghost) : bool :=
  match g_val y, get_opening_amount lp with
  | Some v, Some amt =>
      String.eqb (v_taker v) (get_taker_pubkey lp) && String.eqb (v_maker v) (get_maker_pubkey lp) &&
      String.eqb (v_hash v) (d_claim_hash lp) && (v_amount v =? amt) &&
      (v_csv v =? (if String.eqb (get_chain lp) btc_chain then 1008 else 10080)) &&
      String.eqb (v_blind v) (blinding_of lp) && String.eqb (v_hex v) (d_opening_hex lp) &&
      match v_res v with Some true => true | _ => false end
  | _, _ => false
  end.

Definition c01_spec_pb dec (t : table) (lp : swap_data) (y : c01_ghost) (e : effect) : bool :=
  match e with
  | EPayClaim payreq scid mx tip res =>
      match d_otb lp with
      | Some o =>
          String.eqb payreq (ob_payreq o) &&
          (String.eqb (get_chain lp) btc_chain || (String.eqb (get_chain lp) lbtc_chain && (get_version lp =? 7))) &&
          c01_spec_invoice dec lp payreq && c01_spec_validated lp y
      | None => false
      end
  | EWatchConf txid vout start win =>
      match d_otb lp with Some o => String.eqb txid (ob_txid o) && (vout =? ob_vout o) | None => false end
  | _ => true
  end.

(* ---------- monitor on observed scenarios ---------- *)
Definition has_pay (es : list effect) : bool :=
  existsb (fun e => match e with EPayClaim _ _ _ _ _ => true | _ => false end) es.

Definition watches_otb (d : swap_data) (es : list effect) : bool :=
  existsb (fun e => match e, d_otb d with
                    | EWatchConf txid vout _ _, Some o => String.eqb txid (ob_txid o) && (vout =? ob_vout o)
                    | _, _ => false end) es.

(* The environment assumption of the theorems (hist_ok): a confirmation callback is delivered only
   for a watch registered in the current process.  The scenario generator also fires the callback
   at other times (a real watcher cannot); when the machine REACTS to such a callback (changes
   state) the rest of the scenario is outside the assumption and is not judged. *)
Definition has_watch (es : list effect) : bool :=
  existsb (fun e => match e with EWatchConf _ _ _ _ => true | _ => false end) es.

Fixpoint allowed_prefix (watched : bool) (steps : list obs_step) : list obs_step :=
  match steps with
  | [] => []
  | s :: r =>
      match os_input s with
      | InTxConfirmed _ _ =>
          if watched || String.eqb (m_cur (os_post s)) (m_cur (os_pre s))
          then s :: allowed_prefix (watched || has_watch (os_effects s)) r
          else []
      | InRecover => s :: allowed_prefix (has_watch (os_effects s)) r
      | _ => s :: allowed_prefix (watched || has_watch (os_effects s)) r
      end
  end.

(* a claim payment happens only in a confirmation callback without error, for a watch on the
   announced outpoint registered since the last restart, or when a restart finds the swap in
   the paying state *)
Fixpoint c01_steps_ok (t : table) (watched : list effect) (steps : list obs_step) : bool :=
  match steps with
  | [] => true
  | s :: r =>
      let watched' := match os_input s with InRecover => os_effects s | _ => (watched ++ os_effects s)%list end in
      (if has_pay (os_effects s) then
         match os_input s with
         | InTxConfirmed _ false => watches_otb (m_data (os_post s)) watched
         | InRecover => negb (state_avoids t pay_action (m_cur (os_pre s)))
         | _ => false
         end
       else true) && c01_steps_ok t watched' r
  end.

Definition c01_monitor (c : fsm_case) : bool :=
  let dec := fun p => assoc_str p (sc_decode c) in
  let steps := allowed_prefix false (sc_steps c) in
  forallb (fun s =>
    trace_okgb c01_gy (c01_spec_pb dec (sc_table c)) (m_data (os_pre s)) c01_y0 (os_effects s) &&
    trace_okgb c01_gy (c01_pb tl_consts_gen dec (sc_table c)) (m_data (os_pre s)) c01_y0 (os_effects s))
    steps
  && c01_steps_ok (sc_table c) [] steps.

(* the reflective table check behind the theorems: either the table never runs the paying
   action (maker roles), or (taker roles) no state overwrites the agreement or the blinding key
   and the paying state is entered by the confirmation event only, and nothing leads back into
   the Default state *)
Definition c01_table_ok (t : table) : bool :=
  table_avoids t pay_action ||
  (table_avoids t create_out_action && table_avoids t blind_wrapper && entries_by t pay_action Ev_TxConfirmed &&
   default_inert t).
