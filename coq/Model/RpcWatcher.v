(* Model of txwatcher/rpctxwatcher.go (observationLoop, AddWaitForConfirmationTx kick-off,
   AddWaitForCsvTx / checkTxAboveCsvHight, HandleCsvTx) and txwatcher/blockchainRpc.go
   (IsTxInMempoolOrRange, IsTxInRange).  Executable; no proofs here.

   Heights are uint32 in the Go code: every + and - that can wrap is written with
   [add32]/[sub32] (mod 2^32).  Block hashes and raw transactions are opaque tokens
   (Z); raw token 0 is the empty string.  One [view] holds the answers the
   bitcoind/elementsd RPC gives during ONE observation step (a function of the
   question, not of the call order). *)
From Coq Require Import ZArith Bool List.
Import ListNotations.
Open Scope Z_scope.

Definition two32 : Z := 4294967296.
Definition u32 (z : Z) : Z := z mod two32.
Definition add32 (a b : Z) : Z := u32 (a + b).
Definition sub32 (a b : Z) : Z := u32 (a - b).

Inductive txout_ans :=
| TxoErr                       (* gettxout failed *)
| TxoNil                       (* null: unknown or spent output *)
| TxoSome (best conf : Z).     (* bestblock hash token, confirmations (uint32) *)

Inductive raw_ans :=
| RawErr                       (* getrawtransaction <txid> <blockhash> failed *)
| RawStr (r : Z).              (* returned string; 0 = "" *)

Record view := mkView {
  v_height : option Z;         (* GetBlockHeight: None = error, Some h = uint64 answer *)
  v_hashes : list (Z * Z);     (* GetBlockHash: height -> hash token; absent = error *)
  v_txout  : txout_ans;        (* GetTxOut(txid, vout) *)
  v_raws   : list (Z * raw_ans)  (* GetRawtransactionWithBlockHash by block hash; absent = error *)
}.

Fixpoint assocZ {A} (k : Z) (l : list (Z * A)) : option A :=
  match l with
  | [] => None
  | (k', a) :: r => if k =? k' then Some a else assocZ k r
  end.

Definition hash_at (v : view) (h : Z) : option Z := assocZ h (v_hashes v).
Definition raw_at (v : view) (bh : Z) : raw_ans :=
  match assocZ bh (v_raws v) with Some a => a | None => RawErr end.

Inductive lookup_res :=
| LFound (raw first : Z)
| LNotFound
| LUnconfirmed
| LOutOfSync
| LErr.

(* IsTxInRange: for i := start; i <= end; i++ (fuel = number of iterations; the Go
   loop does not terminate for end = 2^32-1, which the harness never generates) *)
Fixpoint range_scan (v : view) (fuel : nat) (i : Z) : lookup_res :=
  match fuel with
  | O => LNotFound
  | S f =>
      match hash_at v i with
      | None => LErr
      | Some h =>
          match raw_at v h with
          | RawStr r => if r =? 0 then range_scan v f (i + 1) else LFound r i
          | RawErr => range_scan v f (i + 1)       (* rtx, _ := ... ; error ignored *)
          end
      end
  end.

Definition is_tx_in_range (v : view) (start end_ : Z) : lookup_res :=
  if end_ <? start then LErr
  else range_scan v (Z.to_nat (end_ - start + 1)) start.

Definition is_tx_in_mempool_or_range (v : view) (start : Z) : lookup_res :=
  match v_height v with
  | None => LErr
  | Some ct =>
      let current := u32 ct in                       (* uint32(ctmp) *)
      match hash_at v current with
      | None => LErr
      | Some bh =>
          match v_txout v with
          | TxoErr => LErr
          | TxoSome best conf =>
              if negb (best =? bh) then LOutOfSync
              else if conf =? 0 then LUnconfirmed
              else if conf =? 1 then
                match raw_at v bh with
                | RawErr => LErr                      (* ErrBlockHashMismatch *)
                | RawStr r => LFound r current
                end
              else
                let cur' := sub32 (add32 current 1) conf in   (* current + 1 - conf, uint32 *)
                match hash_at v cur' with
                | None => LErr
                | Some th =>
                    match raw_at v th with
                    | RawErr => LErr
                    | RawStr r => LFound r cur'
                    end
                end
          | TxoNil => is_tx_in_range v start current
          end
      end
  end.

Inductive step_out :=
| SContinue
| SCbErr                 (* txCallback(swapId, "", err) ; loop returns *)
| SCbOk (raw : Z).       (* txCallback(swapId, rawTx, nil) ; loop returns *)

(* the decision taken once the transaction has been located (the code after
   IsTxInMempoolOrRange returned without error) *)
Definition confirm_decision (req start limit current raw first : Z) : step_out :=
  if add32 start limit <? first then SCbErr
  else if current <? first then SContinue      (* first seen above the notified height: wait *)
  else if req <=? sub32 current (sub32 first 1) then SCbOk raw
  else SContinue.

(* one iteration of the select-case "height := <-newBlock" of observationLoop;
   returns the new lastHeight and what happened *)
Definition observation_step (req start limit : Z) (last height : Z) (v : view)
  : Z * step_out :=
  let current := height in
  if current <=? last then (last, SContinue)
  else
    if add32 start limit <=? current then (current, SCbErr)
    else
      match is_tx_in_mempool_or_range v start with
      | LNotFound | LUnconfirmed | LOutOfSync => (current, SContinue)
      | LErr => (current, SCbErr)
      | LFound raw first => (current, confirm_decision req start limit current raw first)
      end.

Definition is_cb (o : step_out) : bool :=
  match o with SContinue => false | _ => true end.

(* the loop: consumes notifications until a callback was issued (then it returns) *)
Fixpoint run_loop (req start limit : Z) (last : Z) (steps : list (Z * view)) : list step_out :=
  match steps with
  | [] => []
  | (h, v) :: r =>
      let '(last', o) := observation_step req start limit last h v in
      if is_cb o then [o] else o :: run_loop req start limit last' r
  end.

(* AddWaitForConfirmationTx: height, _ := GetBlockHeight(); newBlock <- uint32(height) *)
Definition kick_height (kick : option Z) : Z :=
  match kick with Some h => u32 h | None => 0 end.

(* ---- CSV ---- *)

(* checkTxAboveCsvHight *)
Definition above_csv (csv : Z) (a : txout_ans) : bool :=
  match a with
  | TxoSome _ conf => csv <=? conf
  | _ => false
  end.

(* AddWaitForCsvTx: returns (callback issued, registered in csvtxWatchList) *)
Definition add_wait_for_csv (csv : Z) (a : txout_ans) (cb_fails : bool) : bool * bool :=
  if above_csv csv a then
    if cb_fails then (true, true) else (true, false)
  else (false, true).

(* HandleCsvTx for one watch-list entry: (callback issued, still registered) *)
Definition handle_csv_entry (csv : Z) (a : txout_ans) (cb_fails : bool) : bool * bool :=
  match a with
  | TxoErr => (false, true)
  | TxoNil => (false, true)
  | TxoSome _ conf =>
      if conf <? csv then (false, true)          (* v.Csv > res.Confirmations *)
      else if cb_fails then (true, true) else (true, false)
  end.

(* a registration followed by block notifications; output: per operation
   (callback issued, registered afterwards) *)
Fixpoint csv_blocks (csv : Z) (registered : bool) (steps : list (txout_ans * bool))
  : list (bool * bool) :=
  match steps with
  | [] => []
  | (a, f) :: r =>
      if registered then
        let '(cb, reg') := handle_csv_entry csv a f in (cb, reg') :: csv_blocks csv reg' r
      else (false, false) :: csv_blocks csv false r
  end.

Definition csv_run (csv : Z) (a0 : txout_ans) (f0 : bool) (steps : list (txout_ans * bool))
  : list (bool * bool) :=
  let '(cb, reg) := add_wait_for_csv csv a0 f0 in
  (cb, reg) :: csv_blocks csv reg steps.
