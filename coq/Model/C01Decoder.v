(* C01 / C12, decoder side: the adapters' DecodePayreq returns exactly what the node decoded - payment hash, amount in
   millisatoshi (no rounding to whole satoshi), final CLTV delta.  The "model" is the identity; the monitor states the
   same on the observed data, so that a truncating or mixed-up adapter is a concrete violation. *)
From Coq Require Import String ZArith NArith Bool List.
From PS Require Import Base.Corr.
Import ListNotations.
Open Scope Z_scope.

Record dec_case := mkDec {
  dc_backend : N;                       (* 0 CLN, 1 LND *)
  dc_hash : string; dc_msat : Z; dc_cltv : Z;     (* what the node's decode RPC answered *)
  dc_returned : option (string * Z * Z) (* what DecodePayreq returned (None = error) *) }.

Definition decode_model (hash : string) (msat cltv : Z) : option (string * Z * Z) := Some (hash, msat, cltv).

Definition ret_eqb (a b : option (string * Z * Z)) : bool :=
  match a, b with
  | Some (h, m, c), Some (h', m', c') => String.eqb h h' && (m =? m') && (c =? c')
  | None, None => true
  | _, _ => false
  end.

Definition dec_check (c : dec_case) : bool :=
  ret_eqb (decode_model (dc_hash c) (dc_msat c) (dc_cltv c)) (dc_returned c).

Definition dec_monitor (c : dec_case) : bool :=
  match dc_returned c with
  | Some (h, m, cl) => String.eqb h (dc_hash c) && (m =? dc_msat c) && (cl =? dc_cltv c)
  | None => false
  end.
