(* The state-machine engine of swap/fsm.go (SendEvent, Recover) and the
   per-swap entry points of swap/service.go, over tables generated from the
   code (Gen/Tables.v).  Executable definitions only. *)
From Coq Require Import String Ascii ZArith Bool List.
From RecordUpdate Require Import RecordSet.
From PS Require Import Base.Wrap Base.Strs Model.Data Model.Actions.
Import ListNotations RecordSetNotations.
Open Scope Z_scope.

Record state_def := mkState {
  st_action : option action_tree;          (* None: nil Action (the Default state) *)
  st_events : list (string * string);      (* event -> next state *)
  st_fail_on_recover : bool }.

Definition table := list (string * state_def).

Record machine := mkMachine {
  m_id : string; m_type : Z; m_role : Z;
  m_cur : string; m_prev : string;
  m_data : swap_data;
  m_retries : Z }.

#[export] Instance eta_machine : Settable _ := settable! mkMachine
  <m_id; m_type; m_role; m_cur; m_prev; m_data; m_retries>.

Definition lookup_state (t : table) (s : string) : option state_def := assoc_str s t.

Definition next_state (t : table) (cur ev : string) : option string :=
  match lookup_state t cur with
  | Some sd => assoc_str ev (st_events sd)
  | None => None
  end.

Inductive err_kind := ErrNone | ErrRejected | ErrFsmConfig | ErrStore | ErrApply | ErrUnknownState | ErrPanic | ErrFuel.

Definition err_eqb (a b : err_kind) : bool :=
  match a, b with
  | ErrNone, ErrNone | ErrRejected, ErrRejected | ErrFsmConfig, ErrFsmConfig | ErrStore, ErrStore
  | ErrApply, ErrApply | ErrUnknownState, ErrUnknownState | ErrPanic, ErrPanic | ErrFuel, ErrFuel => true
  | _, _ => false
  end.

(* ---------- event-context validation (swap/messages.go Validate) ---------- *)
Definition hex_len_ok (s : string) (nbytes : nat) : bool :=
  is_hex s && Nat.eqb (String.length s) (2 * nbytes).

Definition valid_network (s : string) : bool :=
  existsb (String.eqb s) ["mainnet"; "testnet"; "testnet3"; "testnet4"; "signet"; "regtest"]%string.

(* strconv.Atoi succeeds: optional sign, at least one digit, all digits, within int64 *)
Definition atoi_ok (s : string) : bool :=
  let l := chars s in
  let body := match l with
              | c :: r => if Ascii.eqb c "+"%char || Ascii.eqb c "-"%char then r else l
              | [] => [] end in
  let neg := match l with c :: _ => Ascii.eqb c "-"%char | [] => false end in
  match body with
  | [] => false
  | _ => forallb is_digit body &&
         (if neg then dec_value body <=? max_int64 + 1 else dec_value body <=? max_int64)
  end.

Fixpoint contains_char (c : ascii) (s : string) : bool :=
  match s with EmptyString => false | String x r => Ascii.eqb x c || contains_char c r end.

(* strings.Split on a single-character separator *)
Fixpoint split_on (c : ascii) (s : string) (cur : string) : list string :=
  match s with
  | EmptyString => [cur]
  | String x r => if Ascii.eqb x c then cur :: split_on c r EmptyString
                  else split_on c r (cur ++ String x EmptyString)
  end.

(* validateScid: only the LAST Atoi error is looked at (the code overwrites err) *)
Definition valid_scid (s : string) : bool :=
  let sep := if contains_char "x"%char s then Some "x"%char
             else if contains_char ":"%char s then Some ":"%char else None in
  match sep with
  | None => false
  | Some c =>
      match split_on c s EmptyString with
      | [_; _; p3] => atoi_ok p3
      | _ => false
      end
  end.

Definition valid_asset_network (asset network : string) : bool :=
  let a := str_nonempty asset in
  let n := str_nonempty network in
  if (negb a && negb n) || (a && n) then false
  else (if a then hex_len_ok asset 33 else true) && (if n then valid_network network else true).

Definition validate_ctx (d : swap_data) (m : wire_msg) : bool :=
  match m with
  | MInReq r | MOutReq r =>
      hex_len_ok (rq_pubkey r) 33 && valid_asset_network (rq_asset r) (rq_network r) && valid_scid (rq_scid r)
  | MInAgr a => hex_len_ok (ia_pubkey a) 33
  | MOutAgr a => hex_len_ok (oa_pubkey a) 33
  | MOtb o =>
      (if String.eqb (get_chain d) lbtc_chain then hex_len_ok (ob_blinding o) 32 else true)
      && hex_len_ok (ob_txid o) 32
  | MCancel _ => true
  | MCoop c => hex_len_ok (cc_privkey c) 32
  end.

(* ApplyToSwapData: None = AlreadyExistsError *)
Definition apply_ctx (d : swap_data) (m : wire_msg) : option swap_data :=
  match m with
  | MInReq r => match d_in_req d with Some _ => None | None => Some (d <| d_in_req := Some r |>) end
  | MOutReq r => match d_out_req d with Some _ => None | None => Some (d <| d_out_req := Some r |>) end
  | MInAgr a => match d_in_agr d with Some _ => None | None => Some (d <| d_in_agr := Some a |>) end
  | MOutAgr a => match d_out_agr d with Some _ => None | None => Some (d <| d_out_agr := Some a |>) end
  | MOtb o => match d_otb d with Some _ => None | None => Some (d <| d_otb := Some o |>) end
  | MCoop c => match d_coop d with Some _ => None | None => Some (d <| d_coop := Some c |>) end
  | MCancel c => Some (d <| d_cancel := Some c |>)
  end.

Record result := mkResult { r_done : bool; r_err : err_kind }.

Definition persist (m : machine) : M bool :=
  ok <- pop_store ;;
  emit (EPersist (m_cur m) (m_data m) ok) ;;;
  ret ok.

Section Engine.
Variable tc : tl_consts.
Variable decode : string -> option (string * Z * Z).
Variable t : table.
Variable terminal : list string.     (* states for which IsFinished holds *)

Definition is_finished (s : string) : bool := existsb (String.eqb s) terminal.

Definition action_fuel : nat := 8.

(* the for-loop of SendEvent; [fuel] bounds the number of transitions *)
Fixpoint event_loop (fuel : nat) (m : machine) (ev : string) : M (machine * result) :=
  match fuel with
  | O => ret (m, mkResult false ErrFuel)
  | S fuel' =>
    match next_state t (m_cur m) ev with
    | None => ret (m, mkResult false ErrRejected)
    | Some nxt =>
      match lookup_state t nxt with
      | None => ret (m, mkResult false ErrFsmConfig)
      | Some sd =>
        match st_action sd with
        | None => ret (m, mkResult false ErrFsmConfig)
        | Some act =>
          let m1 := m <| m_prev := m_cur m |> <| m_cur := nxt |>
                      <| m_data := (m_data m) <| d_fsm_state := nxt |> |> in
          r <- exec tc decode action_fuel act (m_data m1) ;;
          let '(ev', d') := r in
          let m2 := m1 <| m_data := d' |> in
          if String.eqb ev' Ev_Panic then ret (m2, mkResult false ErrPanic) else
          ok <- persist m2 ;;
          if negb ok then ret (m2, mkResult false ErrStore) else
          if String.eqb ev' Ev_Done then ret (m2, mkResult true ErrNone)
          else if String.eqb ev' Ev_NoOp then ret (m2, mkResult false ErrNone)
          else if String.eqb ev' Ev_Retry then
            let m3 := m2 <| m_retries := m_retries m2 + 1 |> in
            if 20 <? m_retries m3 then ret (m3 <| m_retries := 0 |>, mkResult false ErrNone)
            else event_loop fuel' m3 ev'
          else event_loop fuel' m2 ev'
        end
      end
    end
  end.

Definition loop_fuel : nat := 64.

(* UpdateData, then the transition loop *)
Definition persist_then_loop (m : machine) (ev : string) : M (machine * result) :=
  ok <- persist m ;;
  if negb ok then ret (m, mkResult false ErrStore) else event_loop loop_fuel m ev.

(* the recursive SendEvent(Event_OnInvalid_Message, nil): acceptance check, UpdateData, loop *)
Definition accepted_then_loop (m : machine) (ev : string) : M (machine * result) :=
  match next_state t (m_cur m) ev with
  | None => ret (m, mkResult false ErrRejected)
  | Some _ => persist_then_loop m ev
  end.

(* SendEvent(event, ctx): an event the current state does not accept is rejected before
   its context is validated, applied or stored *)
Definition send_event (m : machine) (ev : string) (ctx : option wire_msg) : M (machine * result) :=
  if String.eqb ev Ev_Done then ret (m, mkResult true ErrNone) else
  match next_state t (m_cur m) ev with
  | None => ret (m, mkResult false ErrRejected)
  | Some _ =>
    match ctx with
    | Some c =>
        if negb (validate_ctx (m_data m) c) then
          (* recursive SendEvent(Event_OnInvalid_Message, nil) *)
          accepted_then_loop m Ev_Invalid
        else
          match apply_ctx (m_data m) c with
          | None =>
              ret (m, mkResult (String.eqb ev "Event_OnSwapOutStarted" ||
                                String.eqb ev "Event_SwapInSender_OnSwapInRequested") ErrApply)
          | Some d' => persist_then_loop (m <| m_data := d' |>) ev
          end
    | None => persist_then_loop m ev
    end
  end.

(* Recover() *)
Definition recover (m : machine) : M (machine * result) :=
  match lookup_state t (m_cur m) with
  | None => ret (m, mkResult false ErrUnknownState)
  | Some sd =>
    match st_action sd with
    | None => ret (m, mkResult false ErrFsmConfig)
    | Some act =>
      if st_fail_on_recover sd then send_event m Ev_Failed None else
      r <- exec tc decode action_fuel act (m_data m) ;;
      let '(ev', d') := r in
      let m1 := m <| m_data := d' |> in
      if String.eqb ev' Ev_Panic then ret (m1, mkResult false ErrPanic) else
      ok <- persist m1 ;;
      if negb ok then ret (m1, mkResult false ErrStore) else
      if String.eqb ev' Ev_NoOp then ret (m1, mkResult false ErrNone)
      else send_event m1 ev' None
    end
  end.

(* ---------- per-swap entry points of SwapService ---------- *)
Inductive input :=
| InEvent (ev : string) (ctx : option wire_msg)   (* handlers of the form: SendEvent; err -> return; done -> remove *)
| InRequestIn (r : req)                           (* OnSwapInRequestReceived after admission: done -> remove even on error *)
| InTxConfirmed (hex : string) (err : bool)       (* OnTxConfirmed *)
| InCsvPassed                                     (* OnCsvPassed: rejected is swallowed *)
| InTimeout                                       (* timeout callback *)
| InRecover.                                      (* RecoverSwaps for this swap (after lockSwap) *)

(* observable outcome of one entry point: the machine afterwards, whether the
   swap was removed from the active set, and the result of the LAST SendEvent *)
Record outcome := mkOutcome { o_machine : machine; o_removed : bool; o_result : result }.

Definition step (m : machine) (i : input) : M outcome :=
  match i with
  | InEvent ev ctx =>
      r <- send_event m ev ctx ;;
      let '(m', res) := r in
      ret (mkOutcome m' (err_eqb (r_err res) ErrNone && r_done res) res)
  | InRequestIn rq =>
      r <- send_event m "Event_SwapInReceiver_OnRequestReceived" (Some (MInReq rq)) ;;
      let '(m', res) := r in
      ret (mkOutcome m' (r_done res) res)
  | InTxConfirmed hex err =>
      r0 <- (if err then
               r <- send_event m Ev_Failed None ;;
               ret (fst r, r_done (snd r))
             else ret (m, false)) ;;
      let '(m0, removed0) := r0 in
      let m1 := m0 <| m_data := (m_data m0) <| d_opening_hex := hex |> |> in
      r <- send_event m1 Ev_TxConfirmed None ;;
      let '(m', res) := r in
      ret (mkOutcome m' (removed0 || (err_eqb (r_err res) ErrNone && r_done res)) res)
  | InCsvPassed =>
      r <- send_event m "Event_OnCsvPassed" None ;;
      let '(m', res) := r in
      ret (mkOutcome m' (err_eqb (r_err res) ErrNone && r_done res) res)
  | InTimeout =>
      r <- send_event m Ev_Timeout None ;;
      let '(m', res) := r in
      ret (mkOutcome m' (err_eqb (r_err res) ErrNone && r_done res) res)
  | InRecover =>
      (* RecoverSwaps skips finished swaps (they are never put into the active set) *)
      if is_finished (m_cur m) then ret (mkOutcome m true (mkResult false ErrNone)) else
      r <- recover m ;;
      let '(m', res) := r in
      ret (mkOutcome m' (err_eqb (r_err res) ErrNone && r_done res) res)
  end.

Definition run_step (m : machine) (i : input) (w : world) : outcome * world * list effect :=
  step m i w.

End Engine.

