(* encoding/json Marshal / Unmarshal for the Go types that make up a persisted swap record,
   driven by a type description dumped by reflection (Gen/SwapSchema.v).
   Executable model, no proofs. *)
From Coq Require Import String Ascii ZArith NArith Bool List.
From PS Require Import Model.Json.
Import ListNotations.
Open Scope Z_scope.

(* one struct field as reflect / encoding/json see it *)
Record fmeta := FM {
  f_go : string;        (* Go field name *)
  f_json : string;      (* effective JSON key: tag name, or the Go name when the tag has none *)
  f_exported : bool;
  f_skip : bool;        (* tag is exactly "-" *)
  f_omit : bool;        (* ,omitempty *)
  f_quoted : bool;      (* ,string  (unsupported by the model) *)
  f_embedded : bool     (* anonymous field (unsupported by the model) *)
}.

Inductive gty :=
| TBool
| TInt (signed : bool) (bits : Z)
| TStr
| TBytes                              (* []byte : base64 string / null *)
| TPtr (t : gty)
| TStruct (name : string) (fs : list (fmeta * gty))
| TIface (name : string)              (* interface type with methods *)
| TSwapId                             (* [32]byte with the pointer-receiver hex codec *)
| TOpaque (d : string).               (* anything else (map, func, mutex, ...) *)

Inductive gval :=
| VBool (b : bool)
| VInt (z : Z)
| VStr (s : string)
| VBytes (o : option string)          (* None = nil slice *)
| VPtr (o : option gval)
| VStruct (vs : list gval)            (* one value per field of the type, in order *)
| VIface (o : option json)            (* None = nil; Some j = dynamic value, given by its own encoding *)
| VSwapId (s : string)
| VOpaque.

(* encoding/json looks at a field iff it is exported and not tagged "-" *)
Definition active (m : fmeta) : bool := f_exported m && negb (f_skip m).

Definition zero_id : string := string_of_bytes (repeat 0%N 32).

Fixpoint zero (t : gty) : gval :=
  match t with
  | TBool => VBool false
  | TInt _ _ => VInt 0
  | TStr => VStr EmptyString
  | TBytes => VBytes None
  | TPtr _ => VPtr None
  | TStruct _ fs =>
      VStruct ((fix go (l : list (fmeta * gty)) : list gval :=
                  match l with [] => [] | (_, t') :: r => zero t' :: go r end) fs)
  | TIface _ => VIface None
  | TSwapId => VSwapId zero_id
  | TOpaque _ => VOpaque
  end.

(* isEmptyValue *)
Definition is_empty (v : gval) : bool :=
  match v with
  | VBool b => negb b
  | VInt z => z =? 0
  | VStr s => String.eqb s EmptyString
  | VBytes None => true
  | VBytes (Some s) => String.eqb s EmptyString
  | VPtr None => true
  | VIface None => true
  | _ => false
  end.

(* ---------- Marshal ---------- *)
Fixpoint enc (t : gty) (v : gval) {struct t} : json :=
  match t, v with
  | TBool, VBool b => JBool b
  | TInt _ _, VInt z => JNum z
  | TStr, VStr s => JStr (sanitize s)
  | TBytes, VBytes None => JNull
  | TBytes, VBytes (Some s) => JStr (b64_encode s)
  | TPtr _, VPtr None => JNull
  | TPtr t', VPtr (Some v') => enc t' v'
  | TStruct _ fs, VStruct vs =>
      JObj ((fix go (l : list (fmeta * gty)) (ws : list gval) : list (string * json) :=
               match l, ws with
               | (m, t') :: r, w :: wr =>
                   if active m && negb (f_omit m && is_empty w)
                   then (f_json m, enc t' w) :: go r wr
                   else go r wr
               | _, _ => []
               end) fs vs)
  | TIface _, VIface (Some j) => j
  | TSwapId, VSwapId s => JStr (hex_encode s)
  | _, _ => JNull
  end.

(* ---------- Unmarshal into a value that currently holds [cur] ---------- *)
Definition in_range (signed : bool) (bits : Z) (z : Z) : bool :=
  if signed then (- 2 ^ (bits - 1) <=? z) && (z <? 2 ^ (bits - 1))
  else (0 <=? z) && (z <? 2 ^ bits).

Definition key_match (exact : bool) (m : fmeta) (k : string) : bool :=
  active m && (if exact then String.eqb (f_json m) k else String.eqb (lower (f_json m)) (lower k)).

Fixpoint has_exact (k : string) (fs : list (fmeta * gty)) : bool :=
  match fs with
  | [] => false
  | (m, _) :: r => key_match true m k || has_exact k r
  end.

(* a JSON array stored into a []byte: element-wise uint8 *)
Fixpoint dec_byte_elems (l : list json) : option string :=
  match l with
  | [] => Some EmptyString
  | e :: r =>
      match dec_byte_elems r with
      | None => None
      | Some t =>
          match e with
          | JNull => Some (String (ascii_of_N 0) t)
          | JNum z => if in_range false 8 z then Some (String (ascii_of_N (Z.to_N z)) t) else None
          | _ => None
          end
      end
  end.

Fixpoint dec (t : gty) (cur : gval) (j : json) {struct t} : option gval :=
  match t with
  | TBool => match j with JNull => Some cur | JBool b => Some (VBool b) | _ => None end
  | TInt sg bits =>
      match j with
      | JNull => Some cur
      | JNum z => if in_range sg bits z then Some (VInt z) else None
      | _ => None
      end
  | TStr => match j with JNull => Some cur | JStr s => Some (VStr s) | _ => None end
  | TBytes =>
      match j with
      | JNull => Some (VBytes None)
      | JStr s => match b64_decode s with Some b => Some (VBytes (Some b)) | None => None end
      | JArr l => match dec_byte_elems l with Some b => Some (VBytes (Some b)) | None => None end
      | _ => None
      end
  | TPtr t' =>
      match j with
      | JNull => Some (VPtr None)
      | _ =>
          let c := match cur with VPtr (Some c) => c | _ => zero t' end in
          match dec t' c j with Some v => Some (VPtr (Some v)) | None => None end
      end
  | TStruct _ fs =>
      match j with
      | JNull => Some cur
      | JObj kvs =>
          match cur with
          | VStruct vs0 =>
              let set_field (exact : bool) (k : string) (jv : json) :=
                (fix go (l : list (fmeta * gty)) (ws : list gval) : option (list gval) :=
                   match l, ws with
                   | (m, t') :: r, w :: wr =>
                       if key_match exact m k
                       then match dec t' w jv with Some w' => Some (w' :: wr) | None => None end
                       else match go r wr with Some wr' => Some (w :: wr') | None => None end
                   | _, _ => Some ws
                   end) fs in
              match
                (fix steps (l : list (string * json)) (ws : list gval) : option (list gval) :=
                   match l with
                   | [] => Some ws
                   | (k, jv) :: r =>
                       match set_field (has_exact k fs) k jv ws with
                       | Some ws' => steps r ws'
                       | None => None
                       end
                   end) kvs vs0
              with
              | Some ws => Some (VStruct ws)
              | None => None
              end
          | _ => None
          end
      | _ => None
      end
  | TIface _ => match j with JNull => Some (VIface None) | _ => None end
  | TSwapId =>
      match j with
      | JStr s =>
          match hex_decode s with
          | Some b => if (String.length b =? 32)%nat then Some (VSwapId b) else None
          | None => None
          end
      | _ => None
      end
  | TOpaque _ => None
  end.

(* json.Unmarshal(bytes, &T{}) *)
Definition decode (t : gty) (j : json) : option gval := dec t (zero t) j.

(* ---------- what a reload is allowed to change ----------
   view erases (sets to the zero value) every field encoding/json does not look at, and maps an
   omitempty []byte that is empty-but-not-nil to nil. Everything else is kept. *)
Fixpoint view (t : gty) (v : gval) {struct t} : gval :=
  match t, v with
  | TPtr t', VPtr (Some v') => VPtr (Some (view t' v'))
  | TStruct _ fs, VStruct vs =>
      VStruct ((fix go (l : list (fmeta * gty)) (ws : list gval) : list gval :=
                  match l, ws with
                  | (m, t') :: r, w :: wr =>
                      (if active m && negb (f_omit m && is_empty w) then view t' w else zero t') :: go r wr
                  | _, _ => []
                  end) fs vs)
  | _, _ => v
  end.

(* ---------- values a Go program can hold in a variable of type t, that the model covers ---------- *)
Fixpoint wf (t : gty) (v : gval) {struct t} : bool :=
  match t, v with
  | TBool, VBool _ => true
  | TInt sg bits, VInt z => in_range sg bits z
  | TStr, VStr s => utf8_ok s
  | TBytes, VBytes _ => true
  | TPtr _, VPtr None => true
  | TPtr t', VPtr (Some v') => wf t' v'
  | TStruct _ fs, VStruct vs =>
      (fix go (l : list (fmeta * gty)) (ws : list gval) : bool :=
         match l, ws with
         | [], [] => true
         | (m, t') :: r, w :: wr => (if active m then wf t' w else true) && go r wr
         | _, _ => false
         end) fs vs
  | TIface _, VIface None => true
  | TSwapId, VSwapId s => (String.length s =? 32)%nat
  | TOpaque _, VOpaque => true
  | _, _ => false
  end.

(* ---------- description supported by the model (checked on the generated schema) ---------- *)
Fixpoint names_of (fs : list (fmeta * gty)) : list string :=
  match fs with
  | [] => []
  | (m, _) :: r => if active m then f_json m :: names_of r else names_of r
  end.

Fixpoint nodupb (l : list string) : bool :=
  match l with
  | [] => true
  | x :: r => negb (existsb (String.eqb x) r) && nodupb r
  end.

(* under_ptr: TSwapId's codec is attached to *SwapId, so it must sit directly under a pointer *)
Fixpoint supported (under_ptr : bool) (t : gty) {struct t} : bool :=
  match t with
  | TPtr t' =>
      (* a pointer whose target can itself encode as null would not reload as the same pointer *)
      match t' with
      | TStruct _ _ | TSwapId | TBool | TInt _ _ | TStr => supported true t'
      | _ => false
      end
  | TStruct _ fs =>
      nodupb (names_of fs) &&
      (fix go (l : list (fmeta * gty)) : bool :=
         match l with
         | [] => true
         | (m, t') :: r =>
             negb (f_embedded m) &&
             (if active m
              then negb (f_quoted m) && utf8_ok (f_json m) && supported false t'
              else true) && go r
         end) fs
  | TSwapId => under_ptr
  | TOpaque _ => false
  | TInt _ bits => (bits =? 8) || (bits =? 16) || (bits =? 32) || (bits =? 64)
  | _ => true
  end.

(* the nested loops above as separate functions (convertible; used to state lemmas) *)
Fixpoint zero_fields (l : list (fmeta * gty)) : list gval :=
  match l with [] => [] | (_, t') :: r => zero t' :: zero_fields r end.

Fixpoint enc_fields (l : list (fmeta * gty)) (ws : list gval) : list (string * json) :=
  match l, ws with
  | (m, t') :: r, w :: wr =>
      if active m && negb (f_omit m && is_empty w)
      then (f_json m, enc t' w) :: enc_fields r wr
      else enc_fields r wr
  | _, _ => []
  end.

Section SetField.
  Variables (exact : bool) (k : string) (jv : json).
  Fixpoint set_field (l : list (fmeta * gty)) (ws : list gval) : option (list gval) :=
    match l, ws with
    | (m, t') :: r, w :: wr =>
        if key_match exact m k
        then match dec t' w jv with Some w' => Some (w' :: wr) | None => None end
        else match set_field r wr with Some wr' => Some (w :: wr') | None => None end
    | _, _ => Some ws
    end.
End SetField.

Section Steps.
  Variable fs : list (fmeta * gty).
  Fixpoint steps (kvs : list (string * json)) (ws : list gval) : option (list gval) :=
    match kvs with
    | [] => Some ws
    | (k, jv) :: r =>
        match set_field (has_exact k fs) k jv fs ws with
        | Some ws' => steps r ws'
        | None => None
        end
    end.
End Steps.

Fixpoint view_fields (l : list (fmeta * gty)) (ws : list gval) : list gval :=
  match l, ws with
  | (m, t') :: r, w :: wr =>
      (if active m && negb (f_omit m && is_empty w) then view t' w else zero t') :: view_fields r wr
  | _, _ => []
  end.

Fixpoint wf_fields (l : list (fmeta * gty)) (ws : list gval) : bool :=
  match l, ws with
  | [], [] => true
  | (m, t') :: r, w :: wr => (if active m then wf t' w else true) && wf_fields r wr
  | _, _ => false
  end.

Fixpoint supported_fields (l : list (fmeta * gty)) : bool :=
  match l with
  | [] => true
  | (m, t') :: r =>
      negb (f_embedded m) &&
      (if active m then negb (f_quoted m) && utf8_ok (f_json m) && supported false t' else true)
      && supported_fields r
  end.

(* field access by Go name (used by the monitor and by derived getters) *)
Fixpoint field_of (go_name : string) (fs : list (fmeta * gty)) (vs : list gval) : option (fmeta * gty * gval) :=
  match fs, vs with
  | (m, t) :: r, v :: vr => if String.eqb (f_go m) go_name then Some (m, t, v) else field_of go_name r vr
  | _, _ => None
  end.

(* structural equality of values *)
Fixpoint gval_eqb (a b : gval) {struct a} : bool :=
  match a, b with
  | VBool x, VBool y => Bool.eqb x y
  | VInt x, VInt y => x =? y
  | VStr x, VStr y => String.eqb x y
  | VBytes None, VBytes None => true
  | VBytes (Some x), VBytes (Some y) => String.eqb x y
  | VPtr None, VPtr None => true
  | VPtr (Some x), VPtr (Some y) => gval_eqb x y
  | VStruct x, VStruct y =>
      (fix go (l1 l2 : list gval) : bool :=
         match l1, l2 with
         | [], [] => true
         | p :: r, q :: s => gval_eqb p q && go r s
         | _, _ => false
         end) x y
  | VIface None, VIface None => true
  | VIface (Some x), VIface (Some y) => json_eqb x y
  | VSwapId x, VSwapId y => String.eqb x y
  | VOpaque, VOpaque => true
  | _, _ => false
  end.
