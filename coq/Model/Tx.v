(* Executable model of the transaction builders the node uses for a swap output:
     onchain/bitcoin.go   ValidateTx, GetVoutAndVerify, PrepareSpendingTransaction
     onchain/utils.go     Get{Preimage,Csv,Cooperative}Witness
     clightning/clightning_wallet.go, lnd/lnd_wallet.go
                          Create{Opening,Preimage,Csv,Coop}SpendingTransaction
     onchain/liquid.go    FindVout, validateOpeningOutput, ValidateTx,
                          createSpendingTransaction and the three Create*SpendingTransaction,
                          CreateOpeningTransaction
   followed line by line (error paths, panics and integer wrap-around included).
   Cryptography is not modelled: a signature is the abstract item "the i-th call
   of a Signer, with this hash-type byte appended"; what each call was asked to
   sign is recorded beside the transaction (which key, and whether the digest is
   the consensus digest of the transaction being built).  SHA-256 of the witness
   script (P2WSH program), address decoding, blinding / unblinding and the fee
   estimators are inputs (oracle answers).  No proofs here. *)
From Coq Require Import String Ascii ZArith NArith Bool List.
From PS Require Import Base.Corr Base.Wrap Base.ScriptOps Model.ScriptInterp Model.OpeningScript
  Gen.ConstsC03.
Import ListNotations.
Open Scope Z_scope.

(* ---------- transactions ---------- *)
Record txout := mk_out { o_value : Z (* int64 *); o_script : bytes }.

Inductive witem :=
| WSigCall (call : nat) (hashtype : N)   (* DER signature returned by the call-th Sign call ++ [hashtype] *)
| WData (b : bytes).

Record txin := mk_in { i_txid : string; i_vout : Z; i_seq : Z; i_wit : list witem }.
Record tx := mk_tx { t_version : Z; t_ins : list txin; t_outs : list txout; t_lock : Z }.

(* one call of a swap.Signer: whose key signs (0 = the key behind the params'
   taker pubkey, 1 = maker, 2 = some other key); whether the digest is the
   BIP-143 SIGHASH_ALL digest of input 0 of the final transaction with the
   opening script as script code and the SWAP AMOUNT (Liquid: the value
   commitment of the validated output) as amount; whether it is the digest
   consensus verification will compute (amount = value of the output really
   spent) *)
Record sigcall := mk_call { sc_who : N; sc_swap_amount : bool; sc_consensus : bool }.

Inductive res (A : Type) := ROk (x : A) | RErr | RPanic.
Arguments ROk {A} x. Arguments RErr {A}. Arguments RPanic {A}.

Definition rbind {A B} (r : res A) (f : A -> res B) : res B :=
  match r with ROk x => f x | RErr => RErr | RPanic => RPanic end.

Definition witem_eqb (a b : witem) : bool :=
  match a, b with
  | WSigCall i h, WSigCall j k => Nat.eqb i j && N.eqb h k
  | WData x, WData y => bytes_eqb x y
  | _, _ => false
  end.
Definition txout_eqb (a b : txout) : bool := (o_value a =? o_value b) && bytes_eqb (o_script a) (o_script b).
Definition txin_eqb (a b : txin) : bool :=
  String.eqb (i_txid a) (i_txid b) && (i_vout a =? i_vout b) && (i_seq a =? i_seq b)
  && list_eqb witem_eqb (i_wit a) (i_wit b).
Definition tx_eqb (a b : tx) : bool :=
  (t_version a =? t_version b) && list_eqb txin_eqb (t_ins a) (t_ins b)
  && list_eqb txout_eqb (t_outs a) (t_outs b) && (t_lock a =? t_lock b).
Definition sigcall_eqb (a b : sigcall) : bool :=
  N.eqb (sc_who a) (sc_who b) && Bool.eqb (sc_swap_amount a) (sc_swap_amount b)
  && Bool.eqb (sc_consensus a) (sc_consensus b).

Fixpoint nth_z {A} (l : list A) (i : Z) : option A :=
  match l with
  | [] => None
  | x :: r => if i =? 0 then Some x else if i <? 0 then None else nth_z r (i - 1)
  end.

(* ---------- onchain/bitcoin.go ---------- *)

(* `for i, out := range TxOut { if out.Value == int64(params.Amount) {...; break} }` *)
Fixpoint find_amount (amt : Z) (i : Z) (outs : list txout) : option (Z * txout) :=
  match outs with
  | [] => None
  | o :: r => if o_value o =? amt then Some (i, o) else find_amount amt (i + 1) r
  end.

(* the three parameter strings of swap.OpeningParams that enter the script *)
Record sparams := mk_sp { sp_taker : string; sp_maker : string; sp_hash : string; sp_amount : Z (* uint64 *) }.

Definition redeem_script (p : sparams) (csv : Z) : option bytes :=
  params_to_tx_script (sp_taker p) (sp_maker p) (sp_hash p) csv.

(* BitcoinOnChain.ValidateTx on a transaction that deserialises; [want] is the
   P2WSH output script 0x00 0x20 sha256(redeem script) (the hash is an oracle answer).
   true = (true, nil); false = (false, _) *)
Definition btc_validate (p : sparams) (want : bytes) (outs : list txout) : bool :=
  match find_amount (i64 (sp_amount p)) 0 outs with
  | None => false
  | Some (_, o) =>
      match redeem_script p gen_onchain_bitcoin_csv_c03 with
      | None => false
      | Some _ => bytes_eqb want (o_script o)
      end
  end.

(* `for i, out := range TxOut { if out.Value == int64(params.Amount) && bytes.Equal(wantScript, out.PkScript) {...} }` *)
Fixpoint find_swap_out (amt : Z) (want : bytes) (i : Z) (outs : list txout) : option (Z * txout) :=
  match outs with
  | [] => None
  | o :: r => if (o_value o =? amt) && bytes_eqb want (o_script o) then Some (i, o)
              else find_swap_out amt want (i + 1) r
  end.

(* BitcoinOnChain.GetVoutAndVerify on a transaction that deserialises:
   (ok, vout) or an error *)
Definition btc_get_vout (p : sparams) (want : bytes) (outs : list txout) : res (bool * Z) :=
  match redeem_script p gen_onchain_bitcoin_csv_c03 with       (* GetOutputScript *)
  | None => RErr
  | Some _ =>
      match find_swap_out (i64 (sp_amount p)) want 0 outs with
      | Some (i, _) => ROk (true, i)
      | None => ROk (false, 0)
      end
  end.

(* the same function before the repair of finding F_C08_2: the first output with the
   amount decides, whatever its script *)
Definition btc_get_vout_unrepaired (p : sparams) (want : bytes) (outs : list txout) : res (bool * Z) :=
  match find_amount (i64 (sp_amount p)) 0 outs with
  | None => ROk (false, 0)
  | Some (i, o) =>
      match redeem_script p gen_onchain_bitcoin_csv_c03 with
      | None => RErr
      | Some _ => if bytes_eqb want (o_script o) then ROk (true, i) else ROk (false, 0)
      end
  end.

(* the index GetVoutAndVerify yields when it succeeds with ok = true *)
Definition btc_validated_index (p : sparams) (want : bytes) (outs : list txout) : option Z :=
  match btc_get_vout p want outs with
  | ROk (true, i) => Some i
  | _ => None
  end.

(* txscript.NewScriptBuilder().AddData([]byte{0x00}).AddData(addr.ScriptAddress()) *)
Definition witness_v0_script (prog : bytes) : sb := add_data (add_data sb_new [0%N]) prog.

(* MsgTx.SerializeSizeStripped of a version-2 transaction with one input (empty
   signature script) and one output with [script] (shorter than 253 bytes) *)
Definition stripped_size (script : bytes) : Z := 60 + Z.of_nat (length script).

(* BitcoinOnChain.PrepareSpendingTransaction.  [getfee] is BitcoinOnChain.GetFee
   as a function of the size; [opening] = None when the hex does not
   deserialise, else (txid, outputs).  Result: the transaction without witness,
   the redeem script, and the amount the signature digest commits to. *)
Definition btc_prepare (getfee : Z -> Z) (p : sparams) (opening : option (string * list txout))
  (addr_prog : bytes) (vout csv prepared_fee : Z) : res (tx * bytes * Z) :=
  match opening with
  | None => RErr
  | Some (txid, outs) =>
      let sbd := witness_v0_script addr_prog in
      if sb_err sbd then RErr else
      let script := sb_script sbd in
      match nth_z outs vout with
      | None => RPanic                                   (* openingMsgTx.TxOut[vout] *)
      | Some o =>
          let v0 := i64 (o_value o - gen_btc_spend_margin) in
          match redeem_script p gen_onchain_bitcoin_csv_c03 with
          | None => RErr
          | Some redeem =>
              let fee := if prepared_fee =? 0
                         then getfee (stripped_size script + gen_btc_witness_allowance)
                         else prepared_fee in
              let v := i64 (v0 - i64 fee) in
              ROk (mk_tx 2 [mk_in txid vout (u32 csv) []] [mk_out v script] 0, redeem, i64 (sp_amount p))
          end
      end
  end.

(* lightning.MakePreimageFromStr: 64 hex characters *)
Definition parse_preimage (s : string) : option bytes :=
  if Nat.eqb (String.length s) 64 then hex_decode s else None.

(* onchain/utils.go witness builders, over abstract signatures *)
Definition preimage_witness (sig : nat) (pre redeem : bytes) : list witem :=
  [WSigCall sig 1; WData pre; WData []; WData []; WData redeem].
Definition csv_witness (sig : nat) (redeem : bytes) : list witem := [WSigCall sig 1; WData redeem].
Definition coop_witness (taker_sig maker_sig : nat) (redeem : bytes) : list witem :=
  [WSigCall taker_sig 1; WSigCall maker_sig 1; WData []; WData redeem].

Definition set_witness (t : tx) (w : list witem) : tx :=
  match t_ins t with
  | i :: r => mk_tx (t_version t) (mk_in (i_txid i) (i_vout i) (i_seq i) w :: r) (t_outs t) (t_lock t)
  | [] => t
  end.

(* what a wallet adapter call leaves behind *)
Record spend_out := mk_so {
  so_result : N;                 (* 0 ok, 1 error, 2 panic *)
  so_txs : list tx;              (* handed to the wallet for broadcast *)
  so_calls : list sigcall;       (* Signer calls, in order *)
  so_ret_addr : bool             (* the returned address is the wallet address *)
}.

Definition so_err (calls : list sigcall) := mk_so 1 [] calls false.
Definition so_panic := mk_so 2 [] [] false.
Definition blank (c : sigcall) : sigcall := mk_call (sc_who c) false false.

Record btc_wallet := mk_bw {
  bw_getfee : Z -> Z;               (* BitcoinOnChain.GetFee *)
  bw_addr : option bytes;           (* wallet's new address: its ScriptAddress(), None = RPC error *)
  bw_bcast_fail : bool;
  bw_claim_who : N;                 (* key behind claimParams.Signer *)
  bw_taker_who : N                  (* key behind the takerSigner argument (coop) *)
}.

(* Create{Preimage,Csv,Coop}SpendingTransaction of clightning_wallet.go (backend 0)
   and lnd_wallet.go (backend 1); kind 0 preimage, 1 csv, 2 coop.  The [ok]
   flag of GetVoutAndVerify is dropped exactly as in the code. *)
Definition btc_spend (backend kind : N) (p : sparams) (want : bytes)
  (opening : option (string * list txout)) (preimage : string) (w : btc_wallet) : spend_out :=
  let get_vout : res Z :=
    match opening with
    | None => RErr                                     (* hex / deserialisation error *)
    | Some (_, outs) => rbind (btc_get_vout p want outs) (fun r => ROk (snd r))
    end in
  let consensus (vout amt : Z) : bool :=
    match opening with
    | Some (_, outs) => match nth_z outs vout with Some o => o_value o =? amt | None => false end
    | None => false
    end in
  let finish (t : tx) (calls : list sigcall) (ret_addr : bool) : spend_out :=
    if bw_bcast_fail w then so_err (map blank calls) else mk_so 0 [t] calls ret_addr in
  match kind with
  | 0%N =>
      match get_vout with
      | RErr => so_err [] | RPanic => so_panic
      | ROk vout =>
          match bw_addr w with
          | None => so_err []
          | Some prog =>
              match btc_prepare (bw_getfee w) p opening prog vout 0 0 with
              | RErr => so_err [] | RPanic => so_panic
              | ROk (t, redeem, amt) =>
                  let c := mk_call (bw_claim_who w) true (consensus vout amt) in
                  match parse_preimage preimage with
                  | None => so_err [blank c]
                  | Some pre => finish (set_witness t (preimage_witness 0 pre redeem)) [c] true
                  end
              end
          end
      end
  | 1%N =>
      match bw_addr w with
      | None => so_err []
      | Some prog =>
          match get_vout with
          | RErr => so_err [] | RPanic => so_panic
          | ROk vout =>
              match btc_prepare (bw_getfee w) p opening prog vout gen_onchain_bitcoin_csv_c03 0 with
              | RErr => so_err [] | RPanic => so_panic
              | ROk (t, redeem, amt) =>
                  let c := mk_call (bw_claim_who w) true (consensus vout amt) in
                  finish (set_witness t (csv_witness 0 redeem)) [c] (N.eqb backend 1)
              end
          end
      end
  | _ =>
      match bw_addr w with
      | None => so_err []
      | Some prog =>
          let refund_fee := bw_getfee w gen_btc_refund_fee_vsize in
          match get_vout with
          | RErr => so_err [] | RPanic => so_panic
          | ROk vout =>
              match btc_prepare (bw_getfee w) p opening prog vout 0 refund_fee with
              | RErr => so_err [] | RPanic => so_panic
              | ROk (t, redeem, amt) =>
                  let ct := mk_call (bw_taker_who w) true (consensus vout amt) in
                  let cm := mk_call (bw_claim_who w) true (consensus vout amt) in
                  finish (set_witness t (coop_witness 0 1 redeem)) [ct; cm] (N.eqb backend 1)
              end
          end
      end
  end.

(* ---------- BIP 68: relative lock of an input, in blocks ---------- *)
(* None = the input carries a time-based lock (not used by the node) *)
Definition bip68_blocks (txver sq : Z) : option Z :=
  if (txver mod 4294967296) <? 2 then Some 0
  else if Z.testbit sq 31 then Some 0
  else if Z.testbit sq 22 then None
  else Some (sq mod 65536).

(* a transaction spending an output confirmed at height [conf] may be included in
   a block of height [h] (BIP 68: h - conf >= lock) *)
Definition includable (txver sq conf h : Z) : bool :=
  match bip68_blocks txver sq with
  | Some l => conf + l <=? h
  | None => false
  end.

(* ---------- onchain/liquid.go ---------- *)
(* result of confidential.UnblindOutputWithKey with the swap's blinding key, as far
   as validateOpeningOutput looks at it *)
Record unb := mk_unb {
  ub_value : Z;               (* uint64 *)
  ub_asset_policy : bool;     (* unblinded.Asset == policy asset *)
  ub_commit_ok : bool         (* AssetCommitment(asset, abf) == output.Asset (confidential outputs) *)
}.
Record lout := mk_lout {
  lo_script : bytes;
  lo_conf : bool;             (* output.IsConfidential() *)
  lo_explicit_policy : bool;  (* output.Asset == 0x01 || policy asset *)
  lo_unblind : option unb     (* None = unblinding fails *)
}.

(* FindVout: first output whose script is the unconfidential P2WSH script *)
Fixpoint lbtc_find_vout (want : bytes) (i : Z) (outs : list lout) : option (Z * lout) :=
  match outs with
  | [] => None
  | o :: r => if bytes_eqb (lo_script o) want then Some (i, o) else lbtc_find_vout want (i + 1) r
  end.

(* validateOpeningOutput: the unblinded value, or an error *)
Definition lbtc_validate_output (o : lout) (amount : Z) : option Z :=
  match lo_unblind o with
  | None => None
  | Some u =>
      if negb (ub_asset_policy u) then None
      else if negb (if lo_conf o then ub_commit_ok u else lo_explicit_policy o) then None
      else if negb (ub_value u =? amount) then None
      else Some (ub_value u)
  end.

(* LiquidOnChain.ValidateTx (script built with params.CSV) *)
Definition lbtc_validate (p : sparams) (csv : Z) (want : bytes) (outs : list lout) : bool :=
  match redeem_script p csv with
  | None => false
  | Some _ =>
      match lbtc_find_vout want 0 outs with
      | None => false
      | Some (_, o) => match lbtc_validate_output o (sp_amount p) with Some _ => true | None => false end
      end
  end.

Definition lbtc_validated_index (p : sparams) (csv : Z) (want : bytes) (outs : list lout) : option Z :=
  if lbtc_validate p csv want outs then
    match lbtc_find_vout want 0 outs with Some (i, _) => Some i | None => None end
  else None.

(* outputs of a Liquid spending transaction as the model builds them *)
Inductive lspend_out :=
| LReceiver (script : bytes) (value : Z)   (* confidential output of [value] of the spent asset to [script] *)
| LFee (value : Z).                        (* explicit policy-asset output with empty script *)

Record ltx_m := mk_ltxm { lm_version : Z; lm_ins : list txin; lm_outs : list lspend_out; lm_lock : Z }.

Record lbtc_wallet := mk_lw {
  lw_addr : option (bytes * bool);  (* GetAddress: (output script, address is confidential); None = error *)
  lw_fee : option Z;                (* GetFee answer; None = error *)
  lw_bcast_fail : bool;
  lw_claim_who : N;
  lw_taker_who : N
}.

(* createSpendingTransaction; [csvseq] is the sequence argument *)
Definition lbtc_create_spending (want : bytes) (txid : string) (outs : list lout) (amount : Z)
  (csvseq : Z) (addr : bytes * bool) (fee : Z) : res (ltx_m * bool) :=
  if fee =? 0 then RErr else
  match lbtc_find_vout want 0 outs with
  | None => RErr
  | Some (vout, o) =>
      match lbtc_validate_output o amount with
      | None => RErr
      | Some value =>
          let out_value := u64 (value - fee) in
          (* FinalValueBlindingFactor, commitments, surjection proof: succeed; a wrapped
             difference (>= 2^63) makes confidential.RangeProof fail further down *)
          if negb (snd addr) then RErr else            (* address.FromConfidential *)
          if two63 <=? out_value then RErr else        (* confidential.RangeProof: value above INT64_MAX *)
          (* an unblinded input and a zero output value make the final value blinding factor the
             zero scalar, which the commitment / range proof code rejects *)
          if (out_value =? 0) && negb (lo_conf o) then RErr else
          ROk (mk_ltxm 2 [mk_in txid vout (u32 csvseq) []] [LReceiver (fst addr) out_value; LFee fee] 0, true)
      end
  end.

Record lspend := mk_ls { ls_result : N; ls_txs : list ltx_m; ls_calls : list sigcall; ls_ret_addr : bool }.
Definition ls_err (calls : list sigcall) := mk_ls 1 [] calls false.

Definition lset_witness (t : ltx_m) (w : list witem) : ltx_m :=
  match lm_ins t with
  | i :: r => mk_ltxm (lm_version t) (mk_in (i_txid i) (i_vout i) (i_seq i) w :: r) (lm_outs t) (lm_lock t)
  | [] => t
  end.

(* LiquidOnChain.Create{Preimage,Csv,Coop}SpendingTransaction *)
Definition lbtc_spend (kind : N) (p : sparams) (csv : Z) (want : bytes) (txid : string) (outs : list lout)
  (preimage : string) (w : lbtc_wallet) : lspend :=
  let fee := match lw_fee w with Some f => f | None => gen_lbtc_fee_placeholder end in
  match lw_addr w with
  | None => ls_err []
  | Some addr =>
      match redeem_script p csv with
      | None => ls_err []
      | Some redeem =>
          let seq := match kind with 1%N => csv | _ => 0 end in
          match lbtc_create_spending want txid outs (sp_amount p) seq addr fee with
          | RErr | RPanic => ls_err []
          | ROk (t, cns) =>
              let finish (t : ltx_m) (calls : list sigcall) :=
                if lw_bcast_fail w then ls_err (map blank calls) else mk_ls 0 [t] calls true in
              match kind with
              | 0%N =>
                  let c := mk_call (lw_claim_who w) true cns in
                  match parse_preimage preimage with
                  | None => ls_err [blank c]
                  | Some pre => finish (lset_witness t (preimage_witness 0 pre redeem)) [c]
                  end
              | 1%N =>
                  let c := mk_call (lw_claim_who w) true cns in
                  finish (lset_witness t (csv_witness 0 redeem)) [c]
              | _ =>
                  let ct := mk_call (lw_taker_who w) true cns in
                  let cm := mk_call (lw_claim_who w) true cns in
                  finish (lset_witness t (coop_witness 0 1 redeem)) [ct; cm]
              end
          end
      end
  end.
