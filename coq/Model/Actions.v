(* Hand translation of every Action.Execute of swap/actions.go into a total
   function over (swap_data, world).  Early returns become nested matches, the
   payment retry loop is recursion over the world's per-attempt answers.
   Executable definitions only; no proofs here. *)
From Coq Require Import String ZArith Bool List.
From RecordUpdate Require Import RecordSet.
From PS Require Import Base.Wrap Model.Data.
Import ListNotations RecordSetNotations.
Open Scope Z_scope.

#[export] Instance eta_data : Settable _ := settable! mkData
  <d_in_req; d_in_agr; d_out_req; d_out_agr; d_otb; d_coop; d_cancel; d_peer; d_initiator;
   d_privkey; d_fee_preimage; d_opening_fee; d_opening_hex; d_start_height; d_start_set;
   d_claim_txid; d_claim_hash; d_claim_preimage; d_blinding_hex; d_next_msg; d_fsm_state>.

#[export] Instance eta_world : Settable _ := settable! mkWorld
  <w_swaps_allowed; w_liquid_enabled; w_bitcoin_enabled; w_min_amount_msat; w_peer_allowed;
   w_peer_suspicious; w_wallet_asset; w_wallet_network; w_premium; w_own_pubkey; w_hashes;
   q_height; q_send; q_store; q_pay; q_recover_pay; q_payfee; q_mkinvoice; q_fee_est; q_balance;
   q_spendable; q_probe; q_create_opening; q_spend; q_script; q_validate; q_addsender;
   q_addsusp; q_preimage; q_blind; w_overrun>.

(* ---------- event names (swap/states.go) ---------- *)
Definition Ev_Succeeded : string := "Event_ActionSucceeded".
Definition Ev_Failed : string := "Event_ActionFailed".
Definition Ev_Done : string := "Event_Done".
Definition Ev_NoOp : string := "NoOp".
Definition Ev_Retry : string := "Event_OnRetry".
Definition Ev_TxConfirmed : string := "Event_OnTxConfirmed".
Definition Ev_Invalid : string := "Event_Invalid_Message".
Definition Ev_Timeout : string := "Event_OnTimeout".
(* not a Go event: the action dereferenced nil (Go would panic) *)
Definition Ev_Panic : string := "PANIC".
(* not a Go event: the generated table names an action the model does not know *)
Definition Ev_Unknown : string := "UNKNOWN_ACTION".

(* ---------- the step monad: the world's queues are consumed, effects are emitted ---------- *)
Definition M (A : Type) : Type := world -> A * world * list effect.
Definition ret {A} (a : A) : M A := fun w => (a, w, []).
Definition bind {A B} (m : M A) (f : A -> M B) : M B :=
  fun w => let '(a, w1, e1) := m w in let '(b, w2, e2) := f a w1 in (b, w2, e1 ++ e2).
Notation "x <- m ;; f" := (bind m (fun x => f)) (at level 61, m at next level, right associativity).
Notation "m ;;; f" := (bind m (fun _ => f)) (at level 61, right associativity).
Definition emit (e : effect) : M unit := fun w => (tt, w, [e]).
Definition ask {A} (f : world -> A) : M A := fun w => (f w, w, []).

Definition overrun (w : world) : world := w <| w_overrun := true |>.

(* pop the head of a queue; an empty queue yields the default and sets w_overrun *)
Definition pop {A} (get : world -> list A) (put : list A -> world -> world) (dflt : A) : M A :=
  fun w => match get w with
           | x :: r => (x, put r w, [])
           | [] => (dflt, overrun w, [])
           end.

Definition pop_height : M (option Z) := pop q_height (fun r w => w <| q_height := r |>) None.
Definition pop_send : M bool := pop q_send (fun r w => w <| q_send := r |>) false.
Definition pop_store : M bool := pop q_store (fun r w => w <| q_store := r |>) true.
Definition pop_recover_pay : M (option string) := pop q_recover_pay (fun r w => w <| q_recover_pay := r |>) None.
Definition pop_payfee : M (option string) := pop q_payfee (fun r w => w <| q_payfee := r |>) None.
Definition pop_mkinvoice : M (option string) := pop q_mkinvoice (fun r w => w <| q_mkinvoice := r |>) None.
Definition pop_fee_est : M (option Z) := pop q_fee_est (fun r w => w <| q_fee_est := r |>) None.
Definition pop_balance : M (option Z) := pop q_balance (fun r w => w <| q_balance := r |>) None.
Definition pop_spendable : M (option Z) := pop q_spendable (fun r w => w <| q_spendable := r |>) None.
Definition pop_probe : M (option bool) := pop q_probe (fun r w => w <| q_probe := r |>) None.
Definition pop_create_opening : M (option opening_result) :=
  pop q_create_opening (fun r w => w <| q_create_opening := r |>) None.
Definition pop_spend : M (option string) := pop q_spend (fun r w => w <| q_spend := r |>) None.
Definition pop_script : M bool := pop q_script (fun r w => w <| q_script := r |>) false.
Definition pop_validate : M (option bool) := pop q_validate (fun r w => w <| q_validate := r |>) None.
Definition pop_premium : M (option Z) := ask w_premium.
Definition pop_addsender : M bool := pop q_addsender (fun r w => w <| q_addsender := r |>) false.
Definition pop_addsusp : M bool := pop q_addsusp (fun r w => w <| q_addsusp := r |>) true.
Definition pop_preimage : M (string * string) :=
  pop q_preimage (fun r w => w <| q_preimage := r |>) (EmptyString, EmptyString).
Definition pop_blind : M string := pop q_blind (fun r w => w <| q_blind := r |>) EmptyString.

Fixpoint assoc_str {A} (k : string) (l : list (string * A)) : option A :=
  match l with
  | [] => None
  | (k', v) :: r => if String.eqb k k' then Some v else assoc_str k r
  end.


(* ---------- derived getters that need the world (crypto is not modelled) ---------- *)
Definition payment_hash (w : world) (d : swap_data) : string :=
  if str_nonempty (d_claim_hash d) then d_claim_hash d
  else if str_nonempty (d_claim_preimage d) then
         match assoc_str (d_claim_preimage d) (w_hashes w) with Some h => h | None => EmptyString end
  else EmptyString.

Definition blinding_of (d : swap_data) : string :=
  match d_otb d with
  | Some o => if str_nonempty (ob_blinding o) then ob_blinding o else d_blinding_hex d
  | None => d_blinding_hex d
  end.

Record opening_params := mkParams {
  op_taker : string; op_maker : string; op_hash : string; op_amount : Z; op_csv : Z; op_blinding : string }.

(* GetOpeningParams; None = the Go code would dereference a nil agreement *)
Definition get_opening_params (tc : tl_consts) (w : world) (d : swap_data) : option opening_params :=
  match get_opening_amount d with
  | None => None
  | Some amt =>
      let pol := match timelock_policy tc d with Some p => p | None => zero_policy end in
      Some (mkParams (get_taker_pubkey d) (get_maker_pubkey d) (payment_hash w d) amt (p_csv pol) (blinding_of d))
  end.

Definition chain_known (d : swap_data) : bool :=
  String.eqb (get_chain d) btc_chain || String.eqb (get_chain d) lbtc_chain.

Definition is_lbtc_v7 (tc : tl_consts) (d : swap_data) : bool :=
  String.eqb (get_chain d) lbtc_chain && (get_version d =? tc_current_version tc).

Definition fail (d : swap_data) : M (string * swap_data) := ret (Ev_Failed, d).
Definition succeed (d : swap_data) : M (string * swap_data) := ret (Ev_Succeeded, d).
Definition panic (d : swap_data) : M (string * swap_data) := ret (Ev_Panic, d).

(* ---------- helpers shared by actions ---------- *)

(* setLiquidPaymentWindowAnchor: None = error *)
Definition set_anchor (tc : tl_consts) (d : swap_data) : M (option swap_data) :=
  if negb (is_lbtc_v7 tc d) then ret (Some d)
  else h <- pop_height ;;
       match h with
       | None => ret None
       | Some height => ret (Some (d <| d_start_height := height |> <| d_start_set := true |>))
       end.

(* checkPaymentWindow: true = inside the window *)
Definition check_payment_window (d : swap_data) (height : Z) (pol : tl_policy) : bool :=
  d_start_set d && negb (height <? d_start_height d) && (height <? d_start_height d + p_window pol).

(* validateClaimInvoice (Liquid branch) *)
Definition validate_claim_invoice (msat cltv claim : Z) (pol : tl_policy) : bool :=
  negb (cltv <? 0) && negb (p_final_cltv pol <? cltv) && (msat =? u64_mul claim 1000).

Definition invoice_expiry (d : swap_data) : Z :=
  if String.eqb (get_chain d) btc_chain then 86400
  else if String.eqb (get_chain d) lbtc_chain then 3600 else 0.

Definition invoice_cltv (tc : tl_consts) (d : swap_data) : Z :=
  match timelock_policy tc d with Some p => p_final_cltv p | None => 0 end.

Definition watch_csv (tc : tl_consts) (d : swap_data) : M (string * swap_data) :=
  if negb (chain_known d) then fail d else
  match timelock_policy tc d with
  | None => fail d
  | Some pol =>
    match d_otb d with
    | None => panic d
    | Some o =>
      ok <- pop_script ;;
      if negb ok then fail d else
      emit (EWatchCsv (ob_txid o) (ob_vout o) (d_start_height d) (p_csv pol)) ;;;
      ret (Ev_NoOp, d)
    end
  end.

Definition log_rejected (d : swap_data) : M (string * swap_data) :=
  emit ERequestedSwapLog ;;; fail d.

Definition spend (k : spend_kind) (d : swap_data) (on_err : string) : M (string * swap_data) :=
  if str_nonempty (d_claim_txid d) then succeed d else
  r <- pop_spend ;;
  emit (EBroadcastSpend k r) ;;;
  match r with
  | None => ret (on_err, d)
  | Some txid => succeed (d <| d_claim_txid := txid |>)
  end.

(* the retry loop of ValidateTxAndPayClaimInvoiceAction: one iteration per ticker
   tick (which first polls the height); the context timeout fires when the world
   records no further tick *)
Fixpoint pay_loop (n : nat) (csvh : Z) (pol : tl_policy) (payreq : string) (d : swap_data) : M (string * swap_data) :=
  match n with
  | O => fail d
  | S n' =>
    more <- ask (fun w => match q_height w with [] => false | _ => true end) ;;
    if negb more then fail d (* timeout *) else
    h <- pop_height ;;
    match h with
    | None => fail d
    | Some now =>
      if String.eqb (get_chain d) btc_chain && (csvh / 2 <? u32_sub now (d_start_height d)) then fail d
      else if String.eqb (get_chain d) lbtc_chain && negb (check_payment_window d now pol) then fail d
      else
        r <- pop q_pay (fun r w => w <| q_pay := r |>) None ;;
        emit (EPayClaim payreq (get_scid d) (p_max_total pol) now r) ;;;
        match r with
        | None => pay_loop n' csvh pol payreq d
        | Some pre => succeed (d <| d_claim_preimage := pre |>)
        end
    end
  end.

(* ---------- action trees as generated from the code ---------- *)
Inductive action_tree := ANode (name : string) (children : list action_tree).

Definition first_child (l : list action_tree) : option action_tree :=
  match l with c :: _ => Some c | [] => None end.

Section Exec.
Variable tc : tl_consts.
(* BOLT-11 decoding is a pure function of the invoice string: (hash, msat, final cltv); None = error *)
Variable decode : string -> option (string * Z * Z).

Definition act_create_swap_request (d : swap_data) : M (string * swap_data) :=
  a <- set_anchor tc d ;;
  match a with
  | None => fail d
  | Some d1 =>
    match d_in_req d1, d_out_req d1 with
    | Some r, _ => emit EArmTimer ;;; succeed (d1 <| d_next_msg := Some (MInReq r) |>)
    | None, Some r => emit EArmTimer ;;; succeed (d1 <| d_next_msg := Some (MOutReq r) |>)
    | None, None => panic d1
    end
  end.

Definition act_send_message (d : swap_data) : M (string * swap_data) :=
  match d_next_msg d with
  | None => fail d
  | Some m =>
    ok <- pop_send ;;
    emit (ESend (d_peer d) m) ;;;
    if ok then succeed d else fail d
  end.

Definition act_send_message_retry (d : swap_data) : M (string * swap_data) :=
  match d_next_msg d with
  | None => fail d
  | Some m =>
    ok <- pop_addsender ;;
    if negb ok then fail d else
    emit ERetransStart ;;;
    _ok <- pop_send ;;
    emit (ESend (d_peer d) m) ;;; succeed d
  end.

Definition act_send_cancel (d : swap_data) : M (string * swap_data) :=
  ok <- pop_send ;;
  emit (ESend (d_peer d) (MCancel (mkCancel (match get_id d with Some i => i | None => EmptyString end) EmptyString))) ;;;
  if ok then succeed d else fail d.

Definition act_taker_send_privkey (d : swap_data) : M (string * swap_data) :=
  succeed (d <| d_next_msg := Some (MCoop (mkCoop (match get_id d with Some i => i | None => EmptyString end)
                                              EmptyString (d_privkey d))) |>).

Definition act_swap_in_receiver_init (d : swap_data) : M (string * swap_data) :=
  a <- set_anchor tc d ;;
  match a with
  | None => fail d
  | Some d1 =>
    p <- pop_premium ;;
    match p with
    | None => fail d1
    | Some prem =>
      pk <- ask w_own_pubkey ;;
      let agr := mkInAgr (tc_current_version tc) (match get_id d1 with Some i => i | None => EmptyString end) pk prem in
      emit EArmTimer ;;;
      succeed (d1 <| d_in_agr := Some agr |> <| d_next_msg := Some (MInAgr agr) |>)
    end
  end.

Definition act_create_swap_out_from_request (d : swap_data) : M (string * swap_data) :=
  if negb (chain_known d) then fail d else
  f <- pop_fee_est ;;
  match f with
  | None => fail d
  | Some fee =>
    b <- pop_balance ;;
    match b with
    | None => fail d
    | Some bal =>
      if bal <? u64_add (get_amount d) fee then fail d else
      pre <- pop_preimage ;;
      inv <- pop_mkinvoice ;;
      emit (EMkInvoice PKFee (u64_mul fee 1000) (fst pre) 600 0) ;;;
      match inv with
      | None => fail d
      | Some payreq =>
        p <- pop_premium ;;
        match p with
        | None => fail d
        | Some prem =>
          pk <- ask w_own_pubkey ;;
          let agr := mkOutAgr (tc_current_version tc)
                       (match get_id d with Some i => i | None => EmptyString end) pk payreq prem in
          emit EArmTimer ;;;
          succeed (d <| d_out_agr := Some agr |> <| d_next_msg := Some (MOutAgr agr) |>)
        end
      end
    end
  end.

Definition act_create_and_broadcast_opening (d : swap_data) : M (string * swap_data) :=
  if negb (chain_known d) then fail d else
  match d_otb d with
  | Some _ => succeed d
  | None =>
    pre <- pop_preimage ;;
    let d1 := d <| d_claim_preimage := fst pre |> in
    match timelock_policy tc d1 with
    | None => fail d1
    | Some pol =>
      match get_claim_amount d1 with
      | None => panic d1
      | Some claim =>
        inv <- pop_mkinvoice ;;
        emit (EMkInvoice PKClaim (u64_mul claim 1000) (fst pre) (invoice_expiry d1) (invoice_cltv tc d1)) ;;;
        match inv with
        | None => fail d1
        | Some payreq =>
          let lb := String.eqb (get_chain d1) lbtc_chain in
          if lb && negb (str_nonempty (blinding_of d1)) then panic d1 else
          match get_opening_amount d1 with
          | None => panic d1
          | Some amt =>
            (* the starting height is looked up BEFORE the wallet call (repo commit "fix: swap: look up the
               starting block height before broadcasting the opening transaction"): nothing fallible stands
               between the broadcast and the record of it *)
            h <- pop_height ;;
            match h with
            | None => fail d1
            | Some height =>
              r <- pop_create_opening ;;
              emit (EBroadcastOpening (get_taker_pubkey d1) (get_maker_pubkey d1) (snd pre) amt (p_csv pol) lb r) ;;;
              match r with
              | None => fail d1
              | Some o =>
                let d2 := d1 <| d_start_height := height |>
                             <| d_start_set := (if is_lbtc_v7 tc d1 then true else d_start_set d1) |>
                             <| d_opening_hex := or_hex o |> in
                let msg := mkOtb (match get_id d2 with Some i => i | None => EmptyString end) payreq
                                 (or_txid o) (or_vout o) (if lb then blinding_of d1 else EmptyString) in
                succeed (d2 <| d_otb := Some msg |> <| d_next_msg := Some (MOtb msg) |>)
              end
            end
          end
        end
      end
    end
  end.

Definition act_await_payment_or_csv (d : swap_data) : M (string * swap_data) :=
  if negb (chain_known d) then fail d else
  match d_otb d with
  | None => panic d
  | Some o => emit (ENotifier (ob_payreq o) PKClaim) ;;; watch_csv tc d
  end.

Definition act_await_fee_invoice_payment (d : swap_data) : M (string * swap_data) :=
  match d_out_agr d with
  | None => panic d
  | Some a => emit (ENotifier (oa_payreq a) PKFee) ;;; ret (Ev_NoOp, d)
  end.

Definition act_claim_preimage (d : swap_data) : M (string * swap_data) :=
  if negb (chain_known d) then fail d else spend SKPreimage d Ev_Retry.

Definition act_claim_csv (d : swap_data) : M (string * swap_data) :=
  if negb (chain_known d) then ret (Ev_Retry, d) else spend SKCsv d Ev_Retry.

Fixpoint is_hex (s : string) : bool :=
  match s with
  | EmptyString => true
  | String c r =>
      let n := Ascii.nat_of_ascii c in
      ((Nat.leb 48 n && Nat.leb n 57) || (Nat.leb 97 n && Nat.leb n 102) || (Nat.leb 65 n && Nat.leb n 70))%bool
      && is_hex r
  end.
Definition is_hex_bytes (s : string) : bool := is_hex s && Nat.even (String.length s).

Definition act_claim_coop (d : swap_data) : M (string * swap_data) :=
  if negb (chain_known d) then fail d else
  match d_coop d with
  | None => panic d
  | Some c => if negb (is_hex_bytes (cc_privkey c)) then fail d else spend SKCoop d Ev_Failed
  end.

Definition act_pay_fee_invoice (d : swap_data) : M (string * swap_data) :=
  if negb (chain_known d) then fail d else
  match d_out_agr d, d_out_req d with
  | Some a, Some r =>
    match decode (oa_payreq a) with
    | None => fail d
    | Some (_, msat, _) =>
      s <- pop_spendable ;;
      match s with
      | None => fail d
      | Some sp =>
        let required := u64_add (u64_mul (rq_amount r) 1000) msat in
        if sp <? required then fail d else
        pr <- pop_probe ;;
        match pr with
        | None => fail d
        | Some false => fail d
        | Some true =>
          let d1 := d <| d_opening_fee := msat / 1000 |> in
          f <- pop_fee_est ;;
          match f with
          | None => fail d1
          | Some expected =>
            if 3 * expected <? d_opening_fee d1 then fail d1 else
            p <- pop_payfee ;;
            emit (EPayFee (oa_payreq a) (get_scid d1) p) ;;;
            match p with
            | None => fail d1
            | Some pre => succeed (d1 <| d_fee_preimage := pre |>)
            end
          end
        end
      end
    end
  | _, _ => panic d
  end.

Definition act_await_tx_confirmation (d : swap_data) : M (string * swap_data) :=
  if negb (chain_known d) then fail d else
  match timelock_policy tc d with
  | None => fail d
  | Some pol =>
    if negb (p_allow_new pol) then
      if negb (str_nonempty (d_opening_hex d)) then fail d else
      match d_otb d with
      | None => panic d
      | Some o =>
        r <- pop_recover_pay ;;
        emit (ERecoverPay (ob_payreq o) r) ;;;
        match r with
        | None => fail d
        | Some pre => ret (Ev_TxConfirmed, d <| d_claim_preimage := pre |>)
        end
      end
    else
    match d_otb d with
    | None => panic d
    | Some o =>
      match decode (ob_payreq o) with
      | None => fail d
      | Some (hash, msat, cltv) =>
        match get_claim_amount d with
        | None => panic d
        | Some claim =>
          let csvh := csv_height tc d in
          let invoice_ok :=
            if String.eqb (get_chain d) btc_chain
            then negb (csvh / 2 <? cltv) && (msat =? u64_mul claim 1000)
            else validate_claim_invoice msat cltv claim pol in
          if negb invoice_ok then fail d else
          let d1 := d <| d_claim_hash := hash |> in
          h <- pop_height ;;
          match h with
          | None => fail d1
          | Some height =>
            let window_ok :=
              if String.eqb (get_chain d1) btc_chain
              then negb (d_start_height d1 =? 0) && (height <? u32_add (d_start_height d1) (csvh / 2))
              else check_payment_window d1 height pol in
            if negb window_ok then fail d1 else
            ok <- pop_script ;;
            if negb ok then fail d1 else
            emit (EWatchConf (ob_txid o) (ob_vout o) (d_start_height d1) (p_window pol)) ;;;
            ret (Ev_NoOp, d1)
          end
        end
      end
    end
  end.

Definition act_validate_and_pay (d : swap_data) : M (string * swap_data) :=
  if negb (chain_known d) then fail d else
  match timelock_policy tc d with
  | None => fail d
  | Some pol =>
    params <- ask (fun w => get_opening_params tc w d) ;;
    match params with
    | None => panic d
    | Some p =>
      v <- pop_validate ;;
      emit (EValidate (op_taker p) (op_maker p) (op_hash p) (op_amount p) (op_csv p) (op_blinding p) (d_opening_hex d) v) ;;;
      match v with
      | None => fail d
      | Some false => fail d
      | Some true =>
        match d_otb d with
        | None => panic d
        | Some o =>
          if negb (p_allow_new pol) then
            if str_nonempty (d_claim_preimage d) then succeed d else
            r <- pop_recover_pay ;;
            emit (ERecoverPay (ob_payreq o) r) ;;;
            match r with
            | None => fail d
            | Some pre => succeed (d <| d_claim_preimage := pre |>)
            end
          else
            n <- ask (fun w => S (List.length (q_height w))) ;;
            pay_loop n (csv_height tc d) pol (ob_payreq o) d
        end
      end
    end
  end.

Definition act_set_starting_height (d : swap_data) : M (string * swap_data) :=
  if negb (chain_known d) then fail d else
  h <- pop_height ;;
  match h with
  | None => fail d
  | Some now =>
    if is_lbtc_v7 tc d then
      match timelock_policy tc d with
      | None => fail d
      | Some pol => if check_payment_window d now pol then ret (Ev_NoOp, d) else fail d
      end
    else
      let csvh := csv_height tc d in
      if d_start_height d =? 0 then ret (Ev_NoOp, d <| d_start_height := now |>)
      else if negb (now <? u32_add (d_start_height d) (csvh / 2)) then fail d
      else ret (Ev_NoOp, d)
  end.

Definition check_premium (d : swap_data) : option bool :=   (* Some true = ok; None = nil deref *)
  match d_in_agr d with
  | Some a => match d_in_req d with
              | Some r => Some (negb (rq_limit r <? ia_premium a))
              | None => None end
  | None =>
    match d_out_agr d with
    | Some a => match d_out_req d with
                | Some r => Some (negb (rq_limit r <? oa_premium a))
                | None => None end
    | None => Some false
    end
  end.

(* CheckRequestWrapperAction guards; true = admitted *)
Definition check_request (d : swap_data) : M (option bool) :=   (* Some true: next; Some false: logged reject; None: reject without log *)
  w <- ask (fun w => w) ;;
  if negb (w_swaps_allowed w) then ret (Some false)
  else if String.eqb (get_chain d) lbtc_chain && negb (w_liquid_enabled w) then ret (Some false)
  else if String.eqb (get_chain d) btc_chain && negb (w_bitcoin_enabled w) then ret (Some false)
  else if negb (get_version d =? tc_current_version tc) then ret (Some false)
  else if u64_mul (get_amount d) 1000 <? w_min_amount_msat w then ret (Some false)
  else if negb (chain_known d) then ret None
  else if str_nonempty (get_asset d) && negb (String.eqb (get_asset d) (w_wallet_asset w)) then ret (Some false)
  else if str_nonempty (get_network d) && negb (String.eqb (get_network d) (w_wallet_network w)) then ret (Some false)
  else if negb (w_peer_allowed w) then ret (Some false)
  else if w_peer_suspicious w then ret (Some false)
  else ret (Some true).

(* the actions that do not wrap another action, by Go type name *)
Definition leaf_actions : list (string * (swap_data -> M (string * swap_data))) :=
  [ ("CreateSwapRequestAction", act_create_swap_request);
    ("SendMessageAction", act_send_message);
    ("SendMessageWithRetryAction", act_send_message_retry);
    ("SendCancelAction", act_send_cancel);
    ("TakerSendPrivkeyAction", act_taker_send_privkey);
    ("SwapInReceiverInitAction", act_swap_in_receiver_init);
    ("CreateSwapOutFromRequestAction", act_create_swap_out_from_request);
    ("CreateAndBroadcastOpeningTransaction", act_create_and_broadcast_opening);
    ("AwaitPaymentOrCsvAction", act_await_payment_or_csv);
    ("AwaitFeeInvoicePayment", act_await_fee_invoice_payment);
    ("AwaitCsvAction", watch_csv tc);
    ("ClaimSwapTransactionWithPreimageAction", act_claim_preimage);
    ("ClaimSwapTransactionWithCsv", act_claim_csv);
    ("ClaimSwapTransactionCoop", act_claim_coop);
    ("PayFeeInvoiceAction", act_pay_fee_invoice);
    ("AwaitTxConfirmationAction", act_await_tx_confirmation);
    ("ValidateTxAndPayClaimInvoiceAction", act_validate_and_pay);
    ("SetStartingBlockHeightAction", act_set_starting_height);
    ("NoOpAction", fun d => ret (Ev_NoOp, d));
    ("NoOpDoneAction", fun d => emit ERetransStop ;;; ret (Ev_Done, d));
    ("CancelAction", fun d => ret (Ev_Done, d)) ]%string.

Fixpoint exec (fuel : nat) (a : action_tree) (d : swap_data) : M (string * swap_data) :=
  match fuel with
  | O => ret (Ev_Unknown, d)
  | S fuel' =>
    let '(ANode name ch) := a in
    let next (d' : swap_data) : M (string * swap_data) :=
      match first_child ch with Some c => exec fuel' c d' | None => ret (Ev_Unknown, d') end in
    if String.eqb name "CheckRequestWrapperAction" then
      r <- check_request d ;;
      match r with
      | Some true => next d
      | Some false => log_rejected d
      | None => fail d
      end
    else if String.eqb name "SetBlindingKeyActionWrapper" then
      if String.eqb (get_chain d) lbtc_chain
      then k <- pop_blind ;; next (d <| d_blinding_hex := k |>)
      else next d
    else if String.eqb name "StopSendMessageWithRetryWrapperAction" then
      emit ERetransStop ;;; next d
    else if String.eqb name "CheckPremiumAmount" then
      match check_premium d with
      | None => panic d
      | Some true => next d
      | Some false => fail d
      end
    else if String.eqb name "AddSuspiciousPeerAction" then
      _ok <- pop_addsusp ;; emit (ESuspicious (d_peer d)) ;;; next d
    else
      match assoc_str name leaf_actions with
      | Some f => f d
      | None => ret (Ev_Unknown, d)
      end
  end.

End Exec.
