(* Executable model of the code that creates the opening transaction and reports
   it: CreateOpeningTransaction of clightning_wallet.go / lnd_wallet.go (over
   BitcoinOnChain.GetVoutAndVerify and GetFeeSatsFromTx) and of onchain/liquid.go.
   The wallet's funding result is an input: the funded transaction (id, outputs),
   the sum of its input values, failure switches.  No proofs here. *)
From Coq Require Import String ZArith NArith Bool List.
From PS Require Import Base.Corr Base.Wrap Base.ScriptOps Model.ScriptInterp Model.OpeningScript
  Gen.ConstsC03 Model.Tx.
Import ListNotations.
Open Scope Z_scope.

Record open_res := mk_or {
  op_result : N;                        (* 0 ok, 1 error, 2 panic *)
  op_txid : string; op_vout : Z; op_fee : Z;
  op_bcast : list (string * list txout) (* transactions the wallet was told to broadcast *)
}.
Definition op_err := mk_or 1 "" 0 0 [].

Fixpoint sum_values (outs : list txout) : Z :=
  match outs with [] => 0 | o :: r => o_value o + sum_values r end.   (* int64 additions; no wrap below 2^63 *)

(* CreateOpeningTransaction (CLN backend 0, LND backend 1).
   [funded] = None: the wallet cannot fund; else the funded transaction.  The
   [ok] flag of GetVoutAndVerify is dropped exactly as in the code. *)
Definition btc_create_opening (backend : N) (p : sparams) (want : bytes)
  (funded : option (string * list txout)) (in_sum : Z) (bcast_fail : bool) : open_res :=
  match redeem_script p gen_onchain_bitcoin_csv_c03 with       (* CreateOpeningAddress *)
  | None => op_err
  | Some _ =>
      match funded with
      | None => op_err
      | Some (txid, outs) =>
          let fee := u64 (i64 (in_sum - i64 (sum_values outs))) in   (* GetFeeSatsFromTx *)
          match btc_get_vout p want outs with
          | RErr | RPanic => op_err
          | ROk (_, vout) =>
              if bcast_fail then op_err
              else mk_or 0 txid vout fee [(txid, outs)]
          end
      end
  end.

Record lopen_res := mk_lor {
  lop_result : N; lop_txid : string; lop_vout : Z; lop_fee : Z
}.
Definition lop_err := mk_lor 1 "" 0 0.

(* LiquidOnChain.CreateOpeningTransaction; [wallet] = None: CreateAndBroadcastTransaction
   fails; else (txid, outputs of the raw transaction it returns, fee) *)
Definition lbtc_create_opening (p : sparams) (csv : Z) (want : bytes)
  (wallet : option (string * list lout * Z)) : lopen_res :=
  match redeem_script p csv with
  | None => lop_err
  | Some _ =>
      match wallet with
      | None => lop_err
      | Some (txid, outs, fee) =>
          match lbtc_find_vout want 0 outs with        (* VoutFromTxHex *)
          | None => lop_err
          | Some (vout, _) => mk_lor 0 txid vout fee
          end
      end
  end.

(* the code before the repair of finding F_C08_1 (named result never assigned) *)
Definition lbtc_create_opening_unrepaired (p : sparams) (csv : Z) (want : bytes)
  (wallet : option (string * list lout * Z)) : lopen_res :=
  match redeem_script p csv with
  | None => lop_err
  | Some _ =>
      match wallet with
      | None => lop_err
      | Some (txid, outs, fee) => mk_lor 0 txid 0 fee
      end
  end.
