(* C13: the Liquid payment-window anchor is stored before the pubkey is revealed,
   never changes afterwards (also across crashes and restarts), and a swap without
   a stored anchor never pays.  Monitors on observed scenarios of the real code,
   plus the case type of the crash-at-every-effect family. *)
From Coq Require Import String ZArith Bool List.
From PS Require Import Base.Corr Model.Data Model.Actions Model.Fsm Model.History Model.Eqb Model.FsmCorr
  Gen.ConstsSwap Gen.Tables.
Import ListNotations.
Open Scope Z_scope.

(* the two messages that reveal the taker's swap pubkey *)
Definition pubkey_msg (m : wire_msg) : bool :=
  match m with MOutReq _ | MInAgr _ => true | _ => false end.

(* what the CODE guarantees (protocol version taken from the code's constants via tc) *)
Definition c13_guard (tc : tl_consts) (lp : swap_data) (e : effect) : bool :=
  match e with
  | ESend _ m => if pubkey_msg m && is_lbtc_v7 tc lp then d_start_set lp else true
  | EPersist _ d _ =>
      if is_lbtc_v7 tc lp && d_start_set lp
      then d_start_set d && (d_start_height d =? d_start_height lp) && is_lbtc_v7 tc d else true
  | EPayClaim _ _ _ _ _ => if String.eqb (get_chain lp) lbtc_chain then d_start_set lp else true
  | _ => true
  end.

(* the property's own words, with the number of the property text (protocol 7):
   - swap_out_request / swap_in_agreement of a Liquid protocol-7 swap leave only when the
     DURABLE record has the anchor;
   - once a durable record of such a swap has an anchor, every later store write carries
     the same anchor (and the record is still that of a Liquid protocol-7 swap);
   - a claim payment of a Liquid swap is only attempted with a stored anchor. *)
Definition liquid7 (d : swap_data) : bool :=
  String.eqb (get_chain d) lbtc_chain && (get_version d =? 7).

(* the durable record is past the creating states: the request / agreement with the pubkey has been handed to the
   messenger (a record written by an older release may be in such a state WITHOUT an anchor) *)
Definition revealed (lp : swap_data) : bool :=
  negb (String.eqb (d_fsm_state lp) "" || String.eqb (d_fsm_state lp) "State_SwapOutSender_CreateSwap" ||
        String.eqb (d_fsm_state lp) "State_SwapInReceiver_CreateSwap").

Definition c13_spec_guard (lp : swap_data) (e : effect) : bool :=
  match e with
  | ESend _ m => if pubkey_msg m && liquid7 lp then d_start_set lp else true
  | EPersist _ d _ =>
      if liquid7 lp && d_start_set lp
      then d_start_set d && (d_start_height d =? d_start_height lp) && liquid7 d else true
  | EPayClaim _ _ _ _ _ => if String.eqb (get_chain lp) lbtc_chain then d_start_set lp else true
  | _ => true
  end.

(* monitor only (not part of the proved guard): no anchor is ever made up for a record that is past the creating
   states without one - "a swap without a stored anchor never pays" must not be defeated by adding one later *)
Definition c13_late_anchor_guard (lp : swap_data) (e : effect) : bool :=
  match e with
  | EPersist _ d _ => if liquid7 lp && revealed lp && negb (d_start_set lp) then negb (d_start_set d) else true
  | _ => true
  end.

(* the taker roles: swap-out sender (type 2, role 1) and swap-in receiver (type 1, role 2) *)
Definition taker_machine (m : machine) : bool :=
  ((m_type m =? 2) && (m_role m =? 1)) || ((m_type m =? 1) && (m_role m =? 2)).

(* the anchor a reloaded record carries is the one that was durable before the restart *)
Definition anchor_kept (lp d : swap_data) : bool :=
  if liquid7 lp && d_start_set lp then d_start_set d && (d_start_height d =? d_start_height lp) else true.

(* walk the observed steps keeping track of the last DURABLE record; a restart starts
   from the record the real store returned, which must carry the same anchor *)
Fixpoint c13_steps (lp : swap_data) (l : list obs_step) : bool :=
  match l with
  | [] => true
  | s :: r =>
      let rec := match os_input s with InRecover => true | _ => false end in
      let lp0 := if rec then m_data (os_pre s) else lp in
      (if rec then anchor_kept lp (m_data (os_pre s)) else true) &&
      trace_okb c13_spec_guard lp0 (os_effects s) &&
      trace_okb c13_late_anchor_guard lp0 (os_effects s) &&
      c13_steps (lp_end lp0 (os_effects s)) r
  end.

Definition c13_monitor (c : fsm_case) : bool :=
  match sc_steps c with
  | [] => true
  | s :: _ => if taker_machine (os_pre s) then c13_steps (m_data (os_pre s)) (sc_steps c) else true
  end.

(* ---------- crash family: a scenario whose items are completed steps or steps that
   died after some of their effects (the store is then reopened) ---------- *)
Record crash_obs := mkCrash {
  co_pre : machine; co_input : input; co_world : world;
  co_effects : list effect;                    (* what happened before the process died *)
  co_stored : option (string * swap_data) }.   (* state/data found in the reopened store; None = no record *)

Inductive c13_item := CStep (s : obs_step) | CCrash (c : crash_obs).

Record c13_case := mkC13 {
  c3_table : table;
  c3_decode : list (string * (string * Z * Z));
  c3_items : list c13_item }.

Definition rec_eqb (a b : option (string * swap_data)) : bool :=
  opt_eqb (fun x y => String.eqb (fst x) (fst y) && data_eqb (snd x) (snd y)) a b.

Definition upd_rec (acc : option (string * swap_data)) (es : list effect) : option (string * swap_data) :=
  fold_left (fun acc e => match e with EPersist s d true => Some (s, d) | _ => acc end) es acc.

(* model == observed: completed steps as in fsm_check; a crashed step's observed effects are
   a prefix of the model's effects for the same input and (partial) world, and the record the
   reopened store holds is the last durable EPersist of everything observed so far (the
   model's [restore]) *)
Fixpoint c13_check_items (t : table) (dec : list (string * (string * Z * Z)))
    (acc : option (string * swap_data)) (l : list c13_item) : bool :=
  match l with
  | [] => true
  | CStep s :: r =>
      step_check t dec s &&
      (match os_input s, acc with
       | InRecover, Some (st, d) => String.eqb (m_cur (os_pre s)) st && data_eqb (m_data (os_pre s)) d
       | _, _ => true
       end) &&
      c13_check_items t dec (upd_rec acc (os_effects s)) r
  | CCrash c :: r =>
      let '(_, _, effs) := run_step tl_consts_gen (fun p => assoc_str p dec) t terminal_states
                             (co_pre c) (co_input c) (co_world c) in
      let acc' := upd_rec acc (co_effects c) in
      list_eqb effect_eqb (firstn (List.length (co_effects c)) effs) (co_effects c) &&
      rec_eqb (co_stored c) acc' &&
      c13_check_items t dec acc' r
  end.

Definition c13_check (c : c13_case) : bool := c13_check_items (c3_table c) (c3_decode c) None (c3_items c).

Definition item_pre (i : c13_item) : machine := match i with CStep s => os_pre s | CCrash c => co_pre c end.

Fixpoint c13_items (lp : swap_data) (l : list c13_item) : bool :=
  match l with
  | [] => true
  | CStep s :: r =>
      let rec := match os_input s with InRecover => true | _ => false end in
      let lp0 := if rec then m_data (os_pre s) else lp in
      (if rec then anchor_kept lp (m_data (os_pre s)) else true) &&
      trace_okb c13_spec_guard lp0 (os_effects s) &&
      c13_items (lp_end lp0 (os_effects s)) r
  | CCrash c :: r =>
      trace_okb c13_spec_guard lp (co_effects c) &&
      (match co_stored c with
       | Some (_, d) => anchor_kept (lp_end lp (co_effects c)) d
       | None => negb (liquid7 (lp_end lp (co_effects c)) && d_start_set (lp_end lp (co_effects c)))
       end) &&
      c13_items (lp_end lp (co_effects c)) r
  end.

Definition c13_crash_monitor (c : c13_case) : bool :=
  match c3_items c with
  | [] => true
  | i :: _ => if taker_machine (item_pre i) then c13_items (m_data (item_pre i)) (c3_items c) else true
  end.
