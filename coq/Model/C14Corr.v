(* Correspondence / monitor functions for C14 (evaluated on harness cases). *)
From Coq Require Import String Ascii ZArith NArith Bool List.
From PS Require Import Base.Corr Model.Json Model.GoJson Model.SwapStore Gen.SwapSchema.
Import ListNotations.
Open Scope string_scope.

Definition T := swap_machine_ty.

Inductive c14_op :=
| OUpdate (m : gval) (obs_err : bool)
| OGet (id : string) (obs : get_res)
| OList (obs : option (list gval)).

Inductive c14_case :=
| CRec (m : gval) (obs_update_err : bool) (obs_raw : option json) (obs_get : get_res)
    (* fresh store: UpdateData m; raw bytes under the id (as a tree); GetData id *)
| CRaw (record : json) (obs_get : get_res)      (* raw record put into the bucket; GetData *)
| CSeq (ops : list c14_op).                     (* operations on one fresh store *)

Definition get_res_eqb (e : gval -> gval -> bool) (a b : get_res) : bool :=
  match a, b with
  | GNotFound, GNotFound => true
  | GErr, GErr => true
  | GOk x, GOk y => e x y
  | _, _ => false
  end.

(* ---------- model == observed ---------- *)
Fixpoint run_ops (st : store) (ops : list c14_op) : bool :=
  match ops with
  | [] => true
  | OUpdate m e :: r =>
      match store_update T st m with
      | Some st' => negb e && run_ops st' r
      | None => e && run_ops st r
      end
  | OGet id g :: r => get_res_eqb gval_eqb (store_get T st id) g && run_ops st r
  | OList o :: r => opt_eqb (list_eqb gval_eqb) (store_list T st) o && run_ops st r
  end.

Definition c14_check (c : c14_case) : bool :=
  match c with
  | CRec m e raw g =>
      let id := id_string (machine_id T m) in
      match store_update T [] m with
      | Some st =>
          negb e && opt_eqb json_eqb (lookup (h2b id) st) raw
          && get_res_eqb gval_eqb (store_get T st id) g
      | None =>
          e && opt_eqb json_eqb None raw && get_res_eqb gval_eqb (store_get T [] id) g
      end
  | CRaw j g => get_res_eqb gval_eqb (match decode T j with Some v => GOk v | None => GErr end) g
  | CSeq ops => run_ops [] ops
  end.

(* ---------- the property, evaluated on the observed data only ----------
   "Every swap record the node writes reloads to the same swap".  The only data a reload may
   lose is what the property's design declares in-memory only: SwapData.LastErr (an error value,
   mirrored into last_err) and SwapStateMachine.States (re-attached from type and role), plus
   unexported fields.  Tags / omitempty play no role here: they are the mechanism under test. *)
Definition memory_only : list (string * string) :=
  [("SwapData", "LastErr"); ("SwapStateMachine", "States")].

Definition is_memory_only (sname fname : string) : bool :=
  existsb (fun p => String.eqb (fst p) sname && String.eqb (snd p) fname) memory_only.

Fixpoint expected_reload (t : gty) (v : gval) {struct t} : gval :=
  match t, v with
  | TPtr t', VPtr (Some v') => VPtr (Some (expected_reload t' v'))
  | TStruct sname fs, VStruct vs =>
      VStruct ((fix go (l : list (fmeta * gty)) (ws : list gval) : list gval :=
                  match l, ws with
                  | (m, t') :: r, w :: wr =>
                      (if f_exported m && negb (is_memory_only sname (f_go m))
                       then expected_reload t' w else zero t') :: go r wr
                  | _, _ => []
                  end) fs vs)
  | _, _ => v
  end.

(* the generated description erases exactly the declared fields: an exported field is tagged "-"
   iff it is declared in-memory only (checked on Gen by the proofs) *)
Fixpoint erasure_ok (t : gty) {struct t} : bool :=
  match t with
  | TPtr t' => erasure_ok t'
  | TStruct sname fs =>
      (fix go (l : list (fmeta * gty)) : bool :=
         match l with
         | [] => true
         | (m, t') :: r =>
             (if f_exported m
              then Bool.eqb (f_skip m) (is_memory_only sname (f_go m))
                   && (if f_skip m then true else erasure_ok t')
              else true) && go r
         end) fs
  | _ => true
  end.

(* equality of swap data: a nil and an empty byte slice are the same data *)
Fixpoint same_data (a b : gval) {struct a} : bool :=
  match a, b with
  | VBytes x, VBytes y =>
      String.eqb (match x with Some s => s | None => EmptyString end)
                 (match y with Some s => s | None => EmptyString end)
  | VPtr (Some x), VPtr (Some y) => same_data x y
  | VStruct x, VStruct y =>
      (fix go (l1 l2 : list gval) : bool :=
         match l1, l2 with
         | [], [] => true
         | p :: r, q :: s => same_data p q && go r s
         | _, _ => false
         end) x y
  | _, _ => gval_eqb a b
  end.

(* the property's domain: data a running node can hold (valid UTF-8 strings, integers of the
   field's width, no last_message), with a swap id *)
Definition in_domain (m : gval) : bool :=
  wf T m && match machine_id T m with Some _ => true | None => false end.

(* abstract store: id -> the machine last written *)
Fixpoint mon_ops (a : list (string * gval)) (ops : list c14_op) : bool :=
  match ops with
  | [] => true
  | OUpdate m e :: r =>
      if in_domain m then
        negb e && mon_ops (insert (h2b (id_string (machine_id T m))) m a) r
      else true   (* outside the property's domain: nothing more is claimed about this store *)
  | OGet id g :: r =>
      get_res_eqb same_data
        (match lookup (h2b id) a with Some m => GOk (expected_reload T m) | None => GNotFound end) g
      && mon_ops a r
  | OList o :: r =>
      opt_eqb (list_eqb same_data) (Some (map (fun p => expected_reload T (snd p)) a)) o && mon_ops a r
  end.

Definition c14_monitor (c : c14_case) : bool :=
  match c with
  | CRec m e raw g =>
      if in_domain m then
        negb e && match raw with Some _ => true | None => false end
        && get_res_eqb same_data (GOk (expected_reload T m)) g
      else true
  | CRaw _ _ => true
  | CSeq ops => mon_ops [] ops
  end.
