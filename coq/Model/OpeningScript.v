(* Executable model of onchain/utils.go: ParamsToTxScript / GetOpeningTxScript,
   including encoding/hex.DecodeString and btcd's txscript.ScriptBuilder
   (AddOp / AddData / AddInt64 with the sticky error), plus the script
   tokenizer used to read a serialized script back as an opcode list. *)
From Coq Require Import String Ascii ZArith NArith Bool List.
From PS Require Import Base.Corr Base.ScriptOps Model.ScriptInterp.
Import ListNotations.
Open Scope Z_scope.

(* ---------- encoding/hex ---------- *)
Definition hex_val (c : ascii) : option N :=
  let n := N_of_ascii c in
  if (N.leb 48 n && N.leb n 57)%bool then Some (n - 48)%N          (* 0-9 *)
  else if (N.leb 97 n && N.leb n 102)%bool then Some (n - 87)%N    (* a-f *)
  else if (N.leb 65 n && N.leb n 70)%bool then Some (n - 55)%N     (* A-F *)
  else None.

(* hex.DecodeString: None = InvalidByteError or ErrLength *)
Fixpoint hex_decode (s : string) : option bytes :=
  match s with
  | EmptyString => Some []
  | String _ EmptyString => None
  | String p (String q r) =>
      match hex_val p, hex_val q with
      | Some a, Some b =>
          match hex_decode r with
          | Some l => Some ((a * 16 + b)%N :: l)
          | None => None
          end
      | _, _ => None
      end
  end.

(* ---------- txscript.ScriptBuilder ---------- *)
Record sb := mk_sb { sb_script : bytes; sb_err : bool }.

Definition max_script_size : N := 10000.
Definition len (l : bytes) : N := N.of_nat (length l).
Definition sb_new : sb := mk_sb [] false.

Definition add_op (b : sb) (o : N) : sb :=
  if sb_err b then b
  else if N.ltb max_script_size (len (sb_script b) + 1) then mk_sb (sb_script b) true
  else mk_sb (sb_script b ++ [o]) false.

Definition small_int_data (data : bytes) : option N :=   (* single byte pushes with their own opcode *)
  match data with
  | [b] => if N.leb b 16 then Some b else if N.eqb b 129 then Some b else None
  | _ => None
  end.

Definition canonical_data_size (data : bytes) : N :=
  let n := len data in
  match data with
  | [] => 1%N
  | _ =>
      match small_int_data data with
      | Some _ => 1%N
      | None =>
          if N.ltb n 76 then (1 + n)%N
          else if N.leb n 255 then (2 + n)%N
          else if N.leb n 65535 then (3 + n)%N
          else (5 + n)%N
      end
  end.

(* the bytes appended by ScriptBuilder.addData *)
Definition push_bytes (data : bytes) : bytes :=
  let ln := len data in
  match data with
  | [] => [0%N]
  | _ =>
      match small_int_data data with
      | Some b => if N.eqb b 0 then [0%N] else if N.eqb b 129 then [79%N] else [(80 + b)%N]
      | None =>
          if N.ltb ln 76 then ln :: data
          else if N.leb ln 255 then 76%N :: ln :: data
          else if N.leb ln 65535 then 77%N :: (ln mod 256)%N :: (ln / 256)%N :: data
          else 78%N :: (ln mod 256)%N :: ((ln / 256) mod 256)%N :: ((ln / 65536) mod 256)%N
                    :: ((ln / 16777216) mod 256)%N :: data
      end
  end.

Definition add_data (b : sb) (data : bytes) : sb :=
  if sb_err b then b
  else if N.ltb max_script_size (len (sb_script b) + canonical_data_size data)
       then mk_sb (sb_script b) true
  else if Nat.ltb max_element_size (length data) then mk_sb (sb_script b) true
  else mk_sb (sb_script b ++ push_bytes data) false.

(* the data AddInt64 makes the script push *)
Definition int_push (v : Z) : bytes :=
  if v =? 0 then []
  else if (v =? -1) then [129%N]
  else if (1 <=? v) && (v <=? 16) then [Z.to_N v]
  else scriptnum_encode v.

Definition add_int64 (b : sb) (v : Z) : sb :=
  if sb_err b then b
  else if N.ltb max_script_size (len (sb_script b) + 1) then mk_sb (sb_script b) true
  else if v =? 0 then mk_sb (sb_script b ++ [0%N]) false
  else if (v =? -1) || ((1 <=? v) && (v <=? 16)) then mk_sb (sb_script b ++ [Z.to_N (80 + v)]) false
  else add_data b (scriptnum_encode v).

(* opcode values *)
Definition opc_if : N := 99.     Definition opc_notif : N := 100.
Definition opc_else : N := 103.  Definition opc_endif : N := 104.
Definition opc_size : N := 130.  Definition opc_equalverify : N := 136.
Definition opc_sha256 : N := 168. Definition opc_checksig : N := 172.
Definition opc_csv : N := 178.

(* ---------- onchain.GetOpeningTxScript, call by call ---------- *)
(* csv is the uint32 argument; int64(csv) is the same number *)
Definition get_opening_tx_script (taker maker phash : bytes) (csv : Z) : sb :=
  let b := sb_new in
  let b := add_data b maker in
  let b := add_op b opc_checksig in
  let b := add_op b opc_notif in
  let b := add_data b maker in
  let b := add_op b opc_checksig in
  let b := add_op b opc_notif in
  let b := add_op b opc_size in
  let b := add_data b [32%N] in                 (* h2b("20") *)
  let b := add_op b opc_equalverify in
  let b := add_op b opc_sha256 in
  let b := add_data b phash in
  let b := add_op b opc_equalverify in
  let b := add_op b opc_endif in
  let b := add_data b taker in
  let b := add_op b opc_checksig in
  let b := add_op b opc_else in
  let b := add_int64 b csv in
  let b := add_op b opc_csv in
  add_op b opc_endif.

(* onchain.ParamsToTxScript: None = an error is returned *)
Definition params_to_tx_script (taker_hex maker_hex hash_hex : string) (csv : Z) : option bytes :=
  match hex_decode taker_hex with
  | None => None
  | Some t =>
      match hex_decode maker_hex with
      | None => None
      | Some m =>
          match hex_decode hash_hex with
          | None => None
          | Some h =>
              let b := get_opening_tx_script t m h csv in
              if sb_err b then None else Some (sb_script b)
          end
      end
  end.

(* the same script as an opcode list (what the builder calls mean) *)
Definition opening_ops (taker maker phash csv_push : bytes) : list op :=
  [ OP_PUSH maker; OP_CHECKSIG; OP_NOTIF;
      OP_PUSH maker; OP_CHECKSIG; OP_NOTIF;
        OP_SIZE; OP_PUSH [32%N]; OP_EQUALVERIFY; OP_SHA256; OP_PUSH phash; OP_EQUALVERIFY;
      OP_ENDIF;
      OP_PUSH taker; OP_CHECKSIG;
    OP_ELSE;
      OP_PUSH csv_push; OP_CSV;
    OP_ENDIF ].

(* ---------- script tokenizer (txscript.ScriptTokenizer, version 0) ---------- *)
Fixpoint take_n (n : nat) (l : bytes) : option (bytes * bytes) :=
  match n with
  | O => Some ([], l)
  | S k =>
      match l with
      | [] => None
      | x :: r =>
          match take_n k r with
          | Some (a, b) => Some (x :: a, b)
          | None => None
          end
      end
  end.

Definition op_of_code (o : N) : op :=
  if N.eqb o opc_if then OP_IF
  else if N.eqb o opc_notif then OP_NOTIF
  else if N.eqb o opc_else then OP_ELSE
  else if N.eqb o opc_endif then OP_ENDIF
  else if N.eqb o opc_size then OP_SIZE
  else if N.eqb o opc_equalverify then OP_EQUALVERIFY
  else if N.eqb o opc_sha256 then OP_SHA256
  else if N.eqb o opc_checksig then OP_CHECKSIG
  else if N.eqb o opc_csv then OP_CSV
  else OP_UNKNOWN o.

Definition ocons (o : op) (r : option (list op)) : option (list op) :=
  match r with Some l => Some (o :: l) | None => None end.

Fixpoint disasm (fuel : nat) (s : bytes) : option (list op) :=
  match s with
  | [] => Some []
  | o :: r =>
      match fuel with
      | O => None
      | S f =>
          let data (len : N) (rest : bytes) :=
            match take_n (N.to_nat len) rest with
            | Some (d, rest') => ocons (OP_PUSH d) (disasm f rest')
            | None => None
            end in
          if N.eqb o 0 then ocons (OP_PUSH []) (disasm f r)
          else if N.leb o 75 then data o r
          else if N.eqb o 76 then
            match r with
            | l0 :: r1 => data l0 r1
            | _ => None
            end
          else if N.eqb o 77 then
            match r with
            | l0 :: l1 :: r1 => data (l0 + 256 * l1)%N r1
            | _ => None
            end
          else if N.eqb o 78 then
            match r with
            | l0 :: l1 :: l2 :: l3 :: r1 => data (l0 + 256 * l1 + 65536 * l2 + 16777216 * l3)%N r1
            | _ => None
            end
          else if N.eqb o 79 then ocons (OP_PUSH [129%N]) (disasm f r)
          else if (N.leb 81 o && N.leb o 96)%bool then ocons (OP_PUSH [(o - 80)%N]) (disasm f r)
          else ocons (op_of_code o) (disasm f r)
      end
  end.

Definition disassemble (s : bytes) : option (list op) := disasm (length s) s.
