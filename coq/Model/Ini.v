(* The INI subset read by go-flags v1.5.0 (ini.go readIni) that policy files use,
   and the line scanner (bufio.Scanner/ScanLines) used by removeLineFromFile.
   Files are byte strings. Executable model, no proofs.

   Not modelled (the model answers LUnsup, never a silent default):
   - double-quoted values containing a backslash (strconv.Unquote escapes).
   Assumed (stated in props/C25.py): bytes are ASCII or non-space UTF-8 (strings.TrimSpace
   also trims Unicode spaces U+0085, U+00A0, ...), lines shorter than 64 KiB
   (bufio.Scanner token limit). *)
From Coq Require Import String Ascii NArith Bool List.
Import ListNotations.
Open Scope string_scope.

Definition nl : ascii := ascii_of_N 10.
Definition cr : ascii := ascii_of_N 13.
Definition ch_eq : ascii := "="%char.
Definition ch_quote : ascii := ascii_of_N 34.
Definition ch_bslash : ascii := ascii_of_N 92.
Definition ch_lbr : ascii := "["%char.
Definition ch_rbr : ascii := "]"%char.
Definition ch_semi : ascii := ";"%char.
Definition ch_hash : ascii := "#"%char.

(* strings.TrimSpace on ASCII: \t \n \v \f \r and space *)
Definition is_space (c : ascii) : bool :=
  let n := N_of_ascii c in (((9 <=? n) && (n <=? 13)) || (n =? 32))%N.

(* segments between '\n'; a final empty segment is not a line
   (bufio.Scanner ScanLines; bufio.Reader.ReadLine agrees up to a trailing '\r') *)
Fixpoint lines (s : string) : list string :=
  match s with
  | EmptyString => []
  | String c r =>
      if Ascii.eqb c nl then EmptyString :: lines r
      else match lines r with
           | [] => [String c EmptyString]
           | t :: ts => String c t :: ts
           end
  end.

(* the file is empty or its last byte is '\n' *)
Fixpoint ends_nl (s : string) : bool :=
  match s with
  | EmptyString => true
  | String c EmptyString => Ascii.eqb c nl
  | String _ r => ends_nl r
  end.

(* ScanLines drops one trailing '\r' of every token *)
Fixpoint drop_cr (s : string) : string :=
  match s with
  | EmptyString => EmptyString
  | String c EmptyString => if Ascii.eqb c cr then EmptyString else s
  | String c r => String c (drop_cr r)
  end.

Definition scan_lines (s : string) : list string := map drop_cr (lines s).

(* what removeLineFromFile writes back: every kept token followed by "\n" *)
Fixpoint unlines (l : list string) : string :=
  match l with
  | [] => EmptyString
  | t :: r => t ++ String nl (unlines r)
  end.

Fixpoint trim_left (s : string) : string :=
  match s with
  | EmptyString => EmptyString
  | String c r => if is_space c then trim_left r else s
  end.

Fixpoint trim_right (s : string) : string :=
  match s with
  | EmptyString => EmptyString
  | String c r =>
      match trim_right r with
      | EmptyString => if is_space c then EmptyString else String c EmptyString
      | r' => String c r'
      end
  end.

Definition trim (s : string) : string := trim_right (trim_left s).

(* strings.SplitN(line, "=", 2) *)
Fixpoint split_eq (s : string) : option (string * string) :=
  match s with
  | EmptyString => None
  | String c r =>
      if Ascii.eqb c ch_eq then Some (EmptyString, r)
      else match split_eq r with
           | Some (a, b) => Some (String c a, b)
           | None => None
           end
  end.

Fixpoint last_char (s : string) : option ascii :=
  match s with
  | EmptyString => None
  | String c EmptyString => Some c
  | String _ r => last_char r
  end.

Fixpoint contains_char (x : ascii) (s : string) : bool :=
  match s with
  | EmptyString => false
  | String c r => Ascii.eqb c x || contains_char x r
  end.

(* s without its first and last byte *)
Definition inner (s : string) : string := substring 1 (String.length s - 2) s.

Inductive unq := UqOk (s : string) | UqErr | UqUnsup.

(* strconv.Unquote on a value whose first byte is a double quote *)
Definition unquote (v : string) : unq :=
  if Nat.ltb (String.length v) 2 then UqErr
  else match last_char v with
       | Some c =>
           if negb (Ascii.eqb c ch_quote) then UqErr
           else let i := inner v in
                if contains_char nl i then UqErr
                else if contains_char ch_bslash i then UqUnsup
                else if contains_char ch_quote i then UqErr
                else UqOk i
       | None => UqErr
       end.

(* strings.ToLower on ASCII *)
Definition lower_char (c : ascii) : ascii :=
  let n := N_of_ascii c in if ((65 <=? n) && (n <=? 90))%N then ascii_of_N (n + 32) else c.
Fixpoint to_lower (s : string) : string :=
  match s with
  | EmptyString => EmptyString
  | String c r => String (lower_char c) (to_lower r)
  end.

Inductive lineres :=
| LBlank                       (* empty line or comment *)
| LHeader (name : string)      (* [section] *)
| LKV (k v : string)           (* name = value, both trimmed, value unquoted *)
| LBad                         (* readIni returns an error *)
| LUnsup.                      (* outside the modelled subset *)

Definition parse_line (t : string) : lineres :=
  let l := trim t in
  match l with
  | EmptyString => LBlank
  | String c _ =>
      if Ascii.eqb c ch_semi || Ascii.eqb c ch_hash then LBlank
      else if Ascii.eqb c ch_lbr then
        match last_char l with
        | Some e =>
            if negb (Ascii.eqb e ch_rbr) then LBad
            else match trim (inner l) with
                 | EmptyString => LBad
                 | name => LHeader name
                 end
        | None => LBad
        end
      else
        match split_eq l with
        | None => LBad
        | Some (k, v) =>
            let name := trim k in
            let value := trim v in
            match value with
            | String q _ =>
                if Ascii.eqb q ch_quote then
                  match unquote value with
                  | UqOk s => LKV name s
                  | UqErr => LBad
                  | UqUnsup => LUnsup
                  end
                else LKV name value
            | EmptyString => LKV name EmptyString
            end
        end
  end.
