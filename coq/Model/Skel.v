(* Lock/access skeletons (C18, C19): programs, interleaving semantics with non-reentrant mutexes, and the
   executable static analyses (lock order, lockset).  No proofs here (Proofs/Skel.v, Proofs/C18.v, Proofs/C19.v).

   A skeleton abstracts every function to the ordered list of its lock operations, shared-field accesses,
   calls and goroutine starts; locks and fields are CLASSES ((type,field) pairs, numbered by the extractor).
   The raw form generated into Gen/Skel.v still has deferred operations and calls through interfaces /
   callback slots; [prog_of] resolves those with the generated binding tables. *)
From Coq Require Import NArith Bool String List.
Import ListNotations.
Open Scope N_scope.

Definition lock := N.
Definition field := N.
Definition fname := N.

Inductive op :=
| Acq (l : lock)
| Rel (l : lock)
| Rd (f : field)
| Wr (f : field)
| Call (g : fname)
| Spawn (g : fname).

Definition prog := list (fname * list op).

Fixpoint body (p : prog) (g : fname) : list op :=
  match p with
  | [] => []
  | (h, b) :: r => if N.eqb g h then b else body r g
  end.

Definition mem (x : N) (xs : list N) : bool := existsb (N.eqb x) xs.
Definition removeN (x : N) (xs : list N) : list N := filter (fun y => negb (N.eqb x y)) xs.
Definition subset (xs ys : list N) : bool := forallb (fun x => mem x ys) xs.
Definition share (xs ys : list N) : bool := existsb (fun x => mem x ys) xs.
Definition is_nil {A} (xs : list A) : bool := match xs with [] => true | _ => false end.

(* frame-local lock set: what the ops executed so far in this activation acquired and not yet released *)
Definition lstep (L : list lock) (o : op) : list lock :=
  match o with
  | Acq l => l :: L
  | Rel l => removeN l L
  | _ => L
  end.
Definition lrun (L : list lock) (done : list op) : list lock := fold_left lstep done L.

(* ---------- small-step interleaving semantics ---------- *)

(* fr_locks is ghost state (never read by the rules): the locks this activation acquired and still holds *)
Record frame := mkFrame { fr_fn : fname; fr_locks : list lock; fr_todo : list op }.
Definition thread := list frame. (* call stack, top first; [] = finished *)
Record config := mkConfig { threads : list thread; owner : lock -> option nat }.

Definition set_owner (ow : lock -> option nat) (l : lock) (v : option nat) : lock -> option nat :=
  fun x => if N.eqb x l then v else ow x.

Fixpoint upd {A} (i : nat) (x : A) (xs : list A) : list A :=
  match xs, i with
  | [], _ => []
  | _ :: r, O => x :: r
  | y :: r, S k => y :: upd k x r
  end.

(* thread i makes one move. Mutexes are not re-entrant: Acq needs the lock to be free, also when the
   thread itself owns it. *)
Inductive step (p : prog) (c : config) (i : nat) : config -> Prop :=
| step_acq : forall g L l t st,
    nth_error (threads c) i = Some (mkFrame g L (Acq l :: t) :: st) ->
    owner c l = None ->
    step p c i (mkConfig (upd i (mkFrame g (l :: L) t :: st) (threads c)) (set_owner (owner c) l (Some i)))
| step_rel : forall g L l t st,
    nth_error (threads c) i = Some (mkFrame g L (Rel l :: t) :: st) ->
    owner c l = Some i ->
    step p c i (mkConfig (upd i (mkFrame g (removeN l L) t :: st) (threads c)) (set_owner (owner c) l None))
| step_rd : forall g L f t st,
    nth_error (threads c) i = Some (mkFrame g L (Rd f :: t) :: st) ->
    step p c i (mkConfig (upd i (mkFrame g L t :: st) (threads c)) (owner c))
| step_wr : forall g L f t st,
    nth_error (threads c) i = Some (mkFrame g L (Wr f :: t) :: st) ->
    step p c i (mkConfig (upd i (mkFrame g L t :: st) (threads c)) (owner c))
| step_call : forall g L h t st,
    nth_error (threads c) i = Some (mkFrame g L (Call h :: t) :: st) ->
    step p c i (mkConfig (upd i (mkFrame h [] (body p h) :: mkFrame g L t :: st) (threads c)) (owner c))
| step_spawn : forall g L h t st,
    nth_error (threads c) i = Some (mkFrame g L (Spawn h :: t) :: st) ->
    step p c i (mkConfig (upd i (mkFrame g L t :: st) (threads c) ++ [[mkFrame h [] (body p h)]]) (owner c))
| step_ret : forall g L st,
    nth_error (threads c) i = Some (mkFrame g L [] :: st) ->
    step p c i (mkConfig (upd i st (threads c)) (owner c)).

Inductive reach (p : prog) (c0 : config) : config -> Prop :=
| reach_refl : reach p c0 c0
| reach_step : forall c1 i c2, reach p c0 c1 -> step p c1 i c2 -> reach p c0 c2.

(* any number of threads, each starting at one of the entry points *)
Definition init (p : prog) (ts : list fname) : config :=
  mkConfig (map (fun g => [mkFrame g [] (body p g)]) ts) (fun _ => None).

(* the same semantics as a function (used to replay schedules: findings, examples) *)
Definition exec_step (p : prog) (c : config) (i : nat) : option config :=
  match nth_error (threads c) i with
  | Some (mkFrame g L (o :: t) :: st) =>
      match o with
      | Acq l =>
          match owner c l with
          | None => Some (mkConfig (upd i (mkFrame g (l :: L) t :: st) (threads c)) (set_owner (owner c) l (Some i)))
          | Some _ => None
          end
      | Rel l =>
          match owner c l with
          | Some j => if Nat.eqb j i
                      then Some (mkConfig (upd i (mkFrame g (removeN l L) t :: st) (threads c)) (set_owner (owner c) l None))
                      else None
          | None => None
          end
      | Rd _ | Wr _ => Some (mkConfig (upd i (mkFrame g L t :: st) (threads c)) (owner c))
      | Call h => Some (mkConfig (upd i (mkFrame h [] (body p h) :: mkFrame g L t :: st) (threads c)) (owner c))
      | Spawn h => Some (mkConfig (upd i (mkFrame g L t :: st) (threads c) ++ [[mkFrame h [] (body p h)]]) (owner c))
      end
  | Some (mkFrame g L [] :: st) => Some (mkConfig (upd i st (threads c)) (owner c))
  | _ => None
  end.

(* run a schedule (which thread moves next); None if some move is not enabled *)
Fixpoint run (p : prog) (c : config) (sched : list nat) : option config :=
  match sched with
  | [] => Some c
  | i :: r => match exec_step p c i with Some c' => run p c' r | None => None end
  end.

(* the lock thread i is about to acquire *)
Definition awaited (c : config) (i : nat) : option lock :=
  match nth_error (threads c) i with
  | Some (mkFrame _ _ (Acq l :: _) :: _) => Some l
  | _ => None
  end.

(* a non-empty set of threads, each waiting for a lock owned by a member of the set (possibly itself) *)
Definition deadlocked (c : config) : Prop :=
  exists D : list nat, D <> [] /\
    forall i, In i D -> exists l j, awaited c i = Some l /\ owner c l = Some j /\ In j D.

(* the shared-field access thread i is about to perform: (function, field, is-write) *)
Definition accessing (c : config) (i : nat) : option (fname * field * bool) :=
  match nth_error (threads c) i with
  | Some (mkFrame g _ (Rd f :: _) :: _) => Some (g, f, false)
  | Some (mkFrame g _ (Wr f :: _) :: _) => Some (g, f, true)
  | _ => None
  end.

(* ---------- static analyses (boolean, evaluated by vm_compute on the generated skeleton) ---------- *)

Fixpoint forall_points (P : list lock -> op -> bool) (L : list lock) (b : list op) : bool :=
  match b with
  | [] => true
  | o :: r => P L o && forall_points P (lstep L o) r
  end.

(* well bracketed: a function releases only what it acquired itself and returns holding nothing of its own *)
Definition wb_point (L : list lock) (o : op) : bool :=
  match o with Rel l => mem l L | _ => true end.
Definition wb_body (b : list op) : bool := forall_points wb_point [] b && is_nil (lrun [] b).
Definition wb_prog (p : prog) : bool := forallb (fun e => wb_body (snd e)) p.

(* A g : locks that may be acquired during a call of g (closed under calls) *)
Definition acq_closed_op (A : fname -> list lock) (g : fname) (o : op) : bool :=
  match o with
  | Acq l => mem l (A g)
  | Call h => subset (A h) (A g)
  | _ => true
  end.
Definition acq_closed (p : prog) (A : fname -> list lock) : bool :=
  forallb (fun e => forallb (acq_closed_op A (fst e)) (snd e)) p.

(* the held -> acquired relation (through calls and synchronous callbacks) is strictly increasing for rk:
   acyclic and without self edge *)
Definition rank_point (A : fname -> list lock) (rk : lock -> nat) (L : list lock) (o : op) : bool :=
  match o with
  | Acq l' => forallb (fun l => Nat.ltb (rk l) (rk l')) L
  | Call h => forallb (fun l => forallb (fun a => Nat.ltb (rk l) (rk a)) (A h)) L
  | _ => true
  end.
Definition rank_ok (p : prog) (A : fname -> list lock) (rk : lock -> nat) : bool :=
  forallb (fun e => forall_points (rank_point A rk) [] (snd e)) p.

Definition lock_order_check (p : prog) (A : fname -> list lock) (rk : lock -> nat) : bool :=
  wb_prog p && acq_closed p A && rank_ok p A rk.

(* E g : locks held by every caller of g at every call (entry points and goroutines: none) *)
Definition must_point (E : fname -> list lock) (g : fname) (L : list lock) (o : op) : bool :=
  match o with
  | Call h => subset (E h) (E g ++ L)
  | Spawn h => is_nil (E h)
  | _ => true
  end.
Definition must_ok (p : prog) (E : fname -> list lock) (roots : list fname) : bool :=
  forallb (fun e => forall_points (must_point E (fst e)) [] (snd e)) p &&
  forallb (fun r => is_nil (E r)) roots.

Record site := mkSite { s_fn : fname; s_field : field; s_write : bool; s_locks : list lock }.

Fixpoint sites_from (E : fname -> list lock) (g : fname) (L : list lock) (b : list op) : list site :=
  match b with
  | [] => []
  | o :: r =>
      match o with
      | Rd f => [mkSite g f false (E g ++ L)]
      | Wr f => [mkSite g f true (E g ++ L)]
      | _ => []
      end ++ sites_from E g (lstep L o) r
  end.
Definition sites (p : prog) (E : fname -> list lock) : list site :=
  flat_map (fun e => sites_from E (fst e) [] (snd e)) p.

Definition excuse := field -> fname -> fname -> bool.

(* if-then-else, not orb: vm_compute is call-by-value and almost all pairs differ in the field *)
Definition pair_ok (exc : excuse) (s1 s2 : site) : bool :=
  if N.eqb (s_field s1) (s_field s2) then
    if s_write s1 || s_write s2 then
      if share (s_locks s1) (s_locks s2) then true
      else if exc (s_field s1) (s_fn s1) (s_fn s2) then true
      else exc (s_field s1) (s_fn s2) (s_fn s1)
    else true
  else true.

Definition pairs_ok (p : prog) (E : fname -> list lock) (exc : excuse) : bool :=
  let ss := sites p E in forallb (fun s1 => forallb (pair_ok exc s1) ss) ss.

Definition lockset_check (p : prog) (E : fname -> list lock) (roots : list fname) (exc : excuse) : bool :=
  wb_prog p && must_ok p E roots && pairs_ok p E exc.

(* ---------- raw skeletons as generated (Gen/Skel.v) ---------- *)

Inductive rop :=
| RAcq (l : N) | RRel (l : N) | RDeferRel (l : N)
| RRd (f : N) | RWr (f : N)
| RCall (g : N) | RDeferCall (g : N) | RSpawn (g : N)
| RCallIface (m : N) | RSpawnIface (m : N)
| RCallSlot (s : N) | RSpawnSlot (s : N) | RDeferCallSlot (s : N)
| RBad.

Definition decode (ca : N * N) : rop :=
  let (c, a) := ca in
  match c with
  | 0 => RAcq a | 1 => RRel a | 2 => RDeferRel a
  | 3 => RRd a | 4 => RWr a
  | 5 => RCall a | 6 => RDeferCall a | 7 => RSpawn a
  | 8 => RCallIface a | 9 => RSpawnIface a
  | 10 => RCallSlot a | 11 => RSpawnSlot a | 12 => RDeferCallSlot a
  | _ => RBad
  end.

Record skeleton := mkSkeleton {
  sk_funs : list (N * list (N * N));
  sk_ifaces : list (N * list N);   (* interface method -> implementations *)
  sk_slots : list (N * list N);    (* callback slot -> functions registered into it *)
  sk_roots : list N
}.

Definition lookupL (tbl : list (N * list N)) (k : N) : list N :=
  match find (fun e => N.eqb (fst e) k) tbl with Some e => snd e | None => [] end.

(* (executed here, executed at function exit) *)
Definition expand (sk : skeleton) (r : rop) : list op * list op :=
  match r with
  | RAcq l => ([Acq l], [])
  | RRel l => ([Rel l], [])
  | RDeferRel l => ([], [Rel l])
  | RRd f => ([Rd f], [])
  | RWr f => ([Wr f], [])
  | RCall g => ([Call g], [])
  | RDeferCall g => ([], [Call g])
  | RSpawn g => ([Spawn g], [])
  | RCallIface m => (map Call (lookupL (sk_ifaces sk) m), [])
  | RSpawnIface m => (map Spawn (lookupL (sk_ifaces sk) m), [])
  | RCallSlot s => (map Call (lookupL (sk_slots sk) s), [])
  | RSpawnSlot s => (map Spawn (lookupL (sk_slots sk) s), [])
  | RDeferCallSlot s => ([], map Call (lookupL (sk_slots sk) s))
  | RBad => ([], [])
  end.

(* deferred operations run at the end, last deferred first *)
Fixpoint norm (sk : skeleton) (rs : list rop) (deferred : list op) : list op :=
  match rs with
  | [] => deferred
  | r :: rest => let (now, d) := expand sk r in now ++ norm sk rest (d ++ deferred)
  end.

Definition prog_of (sk : skeleton) : prog :=
  map (fun e => (fst e, norm sk (map decode (snd e)) [])) (sk_funs sk).

(* the skeleton without the listed raw ops (function, (op code, argument)): how a known finding is taken out *)
Definition erase (sk : skeleton) (rm : list (N * (N * N))) : skeleton :=
  mkSkeleton
    (map (fun e => (fst e, filter (fun ca => negb (existsb (fun r =>
                      N.eqb (fst r) (fst e) && N.eqb (fst (snd r)) (fst ca) && N.eqb (snd (snd r)) (snd ca)) rm)) (snd e)))
         (sk_funs sk))
    (sk_ifaces sk) (sk_slots sk) (sk_roots sk).

Definition well_formed (sk : skeleton) : bool :=
  forallb (fun e => forallb (fun ca => match decode ca with RBad => false | _ => true end) (snd e)) (sk_funs sk).

(* ---------- computing the certificates (untrusted: the checks above validate them) ---------- *)

Definition tbl_fun (tbl : list (N * list N)) : N -> list N := lookupL tbl.

Fixpoint nodupN (xs : list N) : list N :=
  match xs with
  | [] => []
  | x :: r => if mem x r then nodupN r else x :: nodupN r
  end.

Definition acq_direct (b : list op) : list lock :=
  nodupN (flat_map (fun o => match o with Acq l => [l] | _ => [] end) b).
Definition callees (b : list op) : list fname :=
  nodupN (flat_map (fun o => match o with Call h => [h] | _ => [] end) b).

Definition acq_iter (p : prog) (tbl : list (N * list N)) : list (N * list N) :=
  map (fun e => (fst e, nodupN (acq_direct (snd e) ++ flat_map (lookupL tbl) (callees (snd e))))) p.

Fixpoint iter {A} (n : nat) (f : A -> A) (x : A) : A :=
  match n with O => x | S k => iter k f (f x) end.

Definition table_eqb (a b : list (N * list N)) : bool :=
  Nat.eqb (fold_left (fun n e => (n + length (snd e))%nat) a 0%nat) (fold_left (fun n e => (n + length (snd e))%nat) b 0%nat).

(* iterate until the table stops growing (sizes only grow), at most n rounds *)
Fixpoint acq_fix (n : nat) (p : prog) (tbl : list (N * list N)) : list (N * list N) :=
  match n with
  | O => tbl
  | S k => let t' := acq_iter p tbl in if table_eqb t' tbl then tbl else acq_fix k p t'
  end.
Definition may_acquire (p : prog) : list (N * list N) :=
  acq_fix (S (length p)) p (map (fun e => (fst e, acq_direct (snd e))) p).

(* held -> acquired edges *)
Fixpoint edges_from (A : fname -> list lock) (L : list lock) (b : list op) : list (lock * lock) :=
  match b with
  | [] => []
  | o :: r =>
      match o with
      | Acq l' => map (fun l => (l, l')) L
      | Call h => flat_map (fun l => map (fun a => (l, a)) (A h)) L
      | _ => []
      end ++ edges_from A (lstep L o) r
  end.
Definition edge_eqb (a b : lock * lock) : bool := N.eqb (fst a) (fst b) && N.eqb (snd a) (snd b).
Fixpoint nodupE (xs : list (lock * lock)) : list (lock * lock) :=
  match xs with
  | [] => []
  | x :: r => if existsb (edge_eqb x) r then nodupE r else x :: nodupE r
  end.
Definition lock_edges (p : prog) (A : fname -> list lock) : list (lock * lock) :=
  nodupE (flat_map (fun e => edges_from A [] (snd e)) p).

Definition rk_lookup (tbl : list (N * nat)) (l : lock) : nat :=
  match find (fun e => N.eqb (fst e) l) tbl with Some e => snd e | None => O end.
Definition rank_iter (es : list (lock * lock)) (tbl : list (N * nat)) : list (N * nat) :=
  map (fun e => (fst e, fold_left (fun m ed => if N.eqb (snd ed) (fst e) then Nat.max m (S (rk_lookup tbl (fst ed))) else m) es (snd e))) tbl.
Definition edge_locks (es : list (lock * lock)) : list lock := nodupN (flat_map (fun e => [fst e; snd e]) es).
Definition ranks (es : list (lock * lock)) : list (N * nat) :=
  let ls := edge_locks es in iter (S (length ls)) (rank_iter es) (map (fun l => (l, O)) ls).

(* edges lying on a cycle (for the report): (a,b) with b ->* a *)
Definition succs (es : list (lock * lock)) (l : lock) : list lock :=
  flat_map (fun e => if N.eqb (fst e) l then [snd e] else []) es.
Definition reach_iter (es : list (lock * lock)) (xs : list lock) : list lock := nodupN (xs ++ flat_map (succs es) xs).
Definition reaches (es : list (lock * lock)) (a b : lock) : bool :=
  mem b (iter (S (length es)) (reach_iter es) [a]).
Definition cyclic_edges (es : list (lock * lock)) : list (lock * lock) :=
  filter (fun e => reaches es (snd e) (fst e)) es.

(* must-hold sets at function entry *)
Fixpoint callsites_from (g : fname) (L : list lock) (b : list op) : list (fname * (fname * list lock)) :=
  match b with
  | [] => []
  | o :: r => match o with Call h => [(h, (g, L))] | _ => [] end ++ callsites_from g (lstep L o) r
  end.
Definition callsites (p : prog) : list (fname * (fname * list lock)) :=
  flat_map (fun e => callsites_from (fst e) [] (snd e)) p.
Definition spawned (p : prog) : list fname :=
  nodupN (flat_map (fun e => flat_map (fun o => match o with Spawn h => [h] | _ => [] end) (snd e)) p).
Definition all_locks (p : prog) : list lock :=
  nodupN (flat_map (fun e => acq_direct (snd e)) p).
Definition inter (xs ys : list N) : list N := filter (fun x => mem x ys) xs.

Definition must_iter (cs : list (fname * (fname * list lock))) (entries : list fname) (top : list lock)
  (tbl : list (N * list N)) : list (N * list N) :=
  map (fun e =>
    let h := fst e in
    if mem h entries then (h, [])
    else (h, fold_left (fun acc c => if N.eqb (fst c) h then inter acc (lookupL tbl (fst (snd c)) ++ snd (snd c)) else acc) cs top)) tbl.

Fixpoint must_fix (n : nat) (cs : list (fname * (fname * list lock))) (entries : list fname) (top : list lock)
  (tbl : list (N * list N)) : list (N * list N) :=
  match n with
  | O => tbl
  | S k => let t' := must_iter cs entries top tbl in if table_eqb t' tbl then tbl else must_fix k cs entries top t'
  end.
Definition must_hold (p : prog) (roots : list fname) : list (N * list N) :=
  let entries := roots ++ spawned p in
  let top := all_locks p in
  must_fix (S (length p * length top)) (callsites p) entries top
    (map (fun e => (fst e, if mem (fst e) entries then [] else top)) p).

(* the pairs that fail the lockset condition, as (field, function, function), for the report *)
Definition bad_pairs (p : prog) (E : fname -> list lock) (exc : excuse) : list (field * (fname * fname)) :=
  let ss := sites p E in
  flat_map (fun s1 => flat_map (fun s2 => if pair_ok exc s1 s2 then [] else [(s_field s1, (s_fn s1, s_fn s2))]) ss) ss.

Definition triple_eqb (a b : field * (fname * fname)) : bool :=
  N.eqb (fst a) (fst b) && N.eqb (fst (snd a)) (fst (snd b)) && N.eqb (snd (snd a)) (snd (snd b)).
Fixpoint nodupT (xs : list (field * (fname * fname))) : list (field * (fname * fname)) :=
  match xs with
  | [] => []
  | x :: r => if existsb (triple_eqb x) r then nodupT r else x :: nodupT r
  end.
(* unordered: keep (f, g1, g2) with g1 <= g2 *)
Definition norm_pair (t : field * (fname * fname)) : field * (fname * fname) :=
  let '(f, (a, b)) := t in if N.leb a b then t else (f, (b, a)).
Definition bad_pairs_norm (p : prog) (E : fname -> list lock) (exc : excuse) : list (field * (fname * fname)) :=
  nodupT (map norm_pair (bad_pairs p E exc)).

(* names *)
Fixpoint index_of (s : string) (names : list string) (i : N) : option N :=
  match names with
  | [] => None
  | x :: r => if String.eqb s x then Some i else index_of s r (i + 1)
  end.
Definition name_of (names : list string) (i : N) : string := nth (N.to_nat i) names "?"%string.

(* raw ops given by name: (function, (op code, argument name)); the name table depends on the op code *)
Definition resolve_ops (fns locks fields ifaces slots : list string) (xs : list (string * (N * string))) : list (N * (N * N)) :=
  flat_map (fun x =>
    let c := fst (snd x) in
    let tbl := if N.leb c 2 then locks else if N.leb c 4 then fields else if N.leb c 7 then fns else if N.leb c 9 then ifaces else slots in
    match index_of (fst x) fns 0, index_of (snd (snd x)) tbl 0 with
    | Some g, Some a => [(g, (c, a))]
    | _, _ => []
    end) xs.
