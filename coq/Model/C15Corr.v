(* C15 — restarts never duplicate an opening transaction, payment or refund.
   Trace predicates used by the theorems, and the monitor evaluated on observed
   scenarios (with simulated process crashes) of the real code.  Executable. *)
From Coq Require Import String ZArith Bool List.
From PS Require Import Base.Corr Model.Data Model.Actions Model.Fsm Model.History Model.Eqb Model.FsmCorr Model.CrashCorr.
Import ListNotations.
Open Scope Z_scope.

(* ---------- effects the property talks about ---------- *)
(* the wallet created and broadcast an opening transaction *)
Definition opening_ok (e : effect) : bool :=
  match e with EBroadcastOpening _ _ _ _ _ _ (Some _) => true | _ => false end.
Definition is_opening (e : effect) : bool :=
  match e with EBroadcastOpening _ _ _ _ _ _ _ => true | _ => false end.
(* an invoice is (about to be) paid: fee invoice or claim invoice *)
Definition is_pay (e : effect) : bool :=
  match e with EPayFee _ _ _ => true | EPayClaim _ _ _ _ _ => true | _ => false end.
Definition fee_paid (e : effect) : bool :=
  match e with EPayFee _ _ (Some _) => true | _ => false end.
Definition claim_payreq (e : effect) : option string :=
  match e with
  | EPayClaim p _ _ _ _ => Some p
  | ERecoverPay p _ => Some p
  | _ => None
  end.
Definition is_spend (e : effect) : bool :=
  match e with EBroadcastSpend _ _ => true | _ => false end.

Definition count {A} (f : A -> bool) (l : list A) : nat := List.length (filter f l).

(* ---------- guards relative to the last durable record (theorems + monitor) ---------- *)
Definition has_otb (d : swap_data) : bool := match d_otb d with Some _ => true | None => false end.

(* the idempotence guards of the code: an opening transaction is only created while the durable record has no
   OpeningTxBroadcasted; a claim/refund is only broadcast while the durable record has no ClaimTxId *)
Definition c15_broadcast_guard (lp : swap_data) (e : effect) : bool :=
  match e with
  | EBroadcastOpening _ _ _ _ _ _ _ => negb (has_otb lp)
  | EBroadcastSpend _ _ => negb (str_nonempty (d_claim_txid lp))
  | _ => true
  end.

(* whatever is sent (except cancel, which is built on the spot) is the NextMessage of the durable record, sent to
   its peer: so a message re-sent after a restart is the stored one *)
Definition c15_resend_guard (lp : swap_data) (e : effect) : bool :=
  match e with
  | ESend _ (MCancel _) => true
  | ESend p m => String.eqb p (d_peer lp) && opt_eqb wire_eqb (d_next_msg lp) (Some m)
  | _ => true
  end.

(* every claim payment / payment recovery is for the invoice announced in the durable OpeningTxBroadcasted *)
Definition c15_invoice_guard (lp : swap_data) (e : effect) : bool :=
  match claim_payreq e with
  | Some p => match d_otb lp with Some o => String.eqb p (ob_payreq o) | None => false end
  | None => true
  end.

(* the cancelled states *)
Definition cancel_states : list string := ["State_SendCancel"; "State_SwapCanceled"]%string.
Definition in_list (s : string) (l : list string) : bool := existsb (String.eqb s) l.

(* no invoice is paid while the durable record says the swap is cancelled; store writes keep state name and data in step *)
Definition c15_cancel_guard (Zc : list string) (lp : swap_data) (e : effect) : bool :=
  match e with
  | EPersist s d _ => String.eqb (d_fsm_state d) s
  | _ => negb (is_pay e && in_list (d_fsm_state lp) Zc)
  end.

(* reflective check: Zc is closed under every event and its states only run the cancel actions *)
Definition cancel_actions : list string := ["SendCancelAction"; "CancelAction"]%string.
Definition cancel_zone_ok (t : table) (Zc : list string) : bool :=
  forallb (fun s =>
    match lookup_state t s with
    | Some sd =>
        match st_action sd with Some (ANode n _) => in_list n cancel_actions | None => false end
        && forallb (fun en => in_list (snd en) Zc) (st_events sd)
    | None => false
    end) Zc.

(* ---------- known pattern D7 as a condition on the trace ---------- *)
(* every successful opening broadcast is immediately followed by a durable store write that records it
   (OpeningTxBroadcasted set), or nothing follows it at all *)
Fixpoint opening_recorded (es : list effect) : bool :=
  match es with
  | [] => true
  | e :: r =>
      (if opening_ok e
       then match r with
            | [] => true
            | EPersist _ d true :: _ => has_otb d
            | _ => false
            end
       else true) && opening_recorded r
  end.

(* ---------- the monitor: the property's statement on OBSERVED scenarios ---------- *)
Definition kind_eqb (a b : wire_msg) : bool :=
  match a, b with
  | MInReq _, MInReq _ | MOutReq _, MOutReq _ | MInAgr _, MInAgr _ | MOutAgr _, MOutAgr _
  | MOtb _, MOtb _ | MCoop _, MCoop _ => true
  | _, _ => false
  end.

Definition sent_msgs (es : list effect) : list wire_msg :=
  flat_map (fun e => match e with ESend _ m => [m] | _ => [] end) es.

(* every message of a kind that is sent more than once is sent with identical content *)
Fixpoint resends_equal (ms : list wire_msg) : bool :=
  match ms with
  | [] => true
  | m :: r => forallb (fun m' => negb (kind_eqb m m') || wire_eqb m m') r && resends_equal r
  end.

Definition claim_payreqs (es : list effect) : list string :=
  flat_map (fun e => match claim_payreq e with Some p => [p] | None => [] end) es.

Fixpoint all_same (l : list string) : bool :=
  match l with
  | a :: ((b :: _) as r) => String.eqb a b && all_same r
  | _ => true
  end.

(* walk the observed steps: [lp] is the stored record before the step *)
Fixpoint no_pay_after_cancel (cancelled : bool) (es : list effect) : bool :=
  match es with
  | [] => true
  | e :: r =>
      negb (cancelled && is_pay e) &&
      no_pay_after_cancel (match e with EPersist s _ true => cancelled || in_list s cancel_states | _ => cancelled end) r
  end.

Definition c15_monitor (c : crash_case) : bool :=
  let es := scenario_effects (fst c) in
  (* at most one opening transaction *)
  Nat.leb (count opening_ok es) 1
  (* the fee invoice is paid at most once; every claim payment / recovery is for one and the same invoice *)
  && Nat.leb (count fee_paid es) 1
  && all_same (claim_payreqs es)
  (* nothing is paid after the swap was durably cancelled *)
  && no_pay_after_cancel false es
  (* what is sent again is sent with the same parameters; and a restart sends exactly the stored message *)
  && resends_equal (sent_msgs es)
  && forallb (fun s => negb (is_recover_input (os_input s)) ||
                       (trace_okb c15_resend_guard (m_data (os_pre s)) (os_effects s)
                        (* and a restart re-creates / re-broadcasts / pays only what the stored record does not have yet *)
                        && trace_okb c15_broadcast_guard (m_data (os_pre s)) (os_effects s)
                        && trace_okb c15_invoice_guard (m_data (os_pre s)) (os_effects s))) (sc_steps (fst c)).
