(* Correspondence for scenarios with simulated process crashes (C06, C15).
   One case = an observed scenario plus one side observation per step:
   whether the process died in that step (and after how many effects), and, for
   every RebalancePayment attempt of the step, whether a FAILED attempt left its
   HTLC in flight (a label of the environment; the node cannot see it).
   Executable definitions only. *)
From Coq Require Import String ZArith Bool List.
From PS Require Import Base.Corr Model.Data Model.Actions Model.Fsm Model.History Model.Eqb Model.FsmCorr
  Gen.Tables Gen.ConstsSwap.
Import ListNotations.
Open Scope Z_scope.

Record crash_obs := mkCObs {
  co_crash : option nat;     (* Some c: the process died in this step after c effects had happened *)
  co_pend : list bool }.     (* per EPayClaim effect of the step, in order *)

Definition crash_case : Type := fsm_case * list crash_obs.

(* a step in which the process died: the effects that happened are the first c
   effects the model produces for the step (History.HCrash), and the record found
   in the store afterwards is the last durable record written in the step *)
Definition crash_step_check (t : table) (dec : list (string * (string * Z * Z))) (s : obs_step) (c : nat) : bool :=
  let '(o, w', effs) := run_step tl_consts_gen (fun p => assoc_str p dec) t terminal_states (os_pre s) (os_input s) (os_world s) in
  list_eqb effect_eqb (firstn c effs) (os_effects s)
  && Nat.eqb (List.length (os_effects s)) c
  && match last_persist (os_effects s) with
     | Some (st, d) => String.eqb (m_cur (os_post s)) st && data_eqb (m_data (os_post s)) d
     | None => true
     end.

(* a step that runs to completion: FsmCorr.step_check, except that the in-memory retry counter of a machine that
   was removed from the active set in this step is not observable (the harness reads the stored record then) *)
Definition full_step_check (t : table) (dec : list (string * (string * Z * Z))) (s : obs_step) : bool :=
  let '(o, w', effs) := run_step tl_consts_gen (fun p => assoc_str p dec) t terminal_states (os_pre s) (os_input s) (os_world s) in
  let post := if os_removed s
              then mkMachine (m_id (os_post s)) (m_type (os_post s)) (m_role (os_post s)) (m_cur (os_post s))
                             (m_prev (os_post s)) (m_data (os_post s)) (m_retries (o_machine o))
              else os_post s in
  machine_eqb (o_machine o) post
  && Bool.eqb (o_removed o) (os_removed s)
  && match os_err s with Some k => err_eqb (r_err (o_result o)) k | None => true end
  && list_eqb effect_eqb effs (os_effects s)
  && world_consumed w'.

Fixpoint crash_steps_check (t : table) (dec : list (string * (string * Z * Z))) (ss : list obs_step) (os : list crash_obs) : bool :=
  match ss, os with
  | [], [] => true
  | s :: sr, o :: or =>
      (match co_crash o with
       | None => full_step_check t dec s
       | Some c => crash_step_check t dec s c
       end) && crash_steps_check t dec sr or
  | _, _ => false
  end.

Definition crash_check (c : crash_case) : bool :=
  crash_steps_check (sc_table (fst c)) (sc_decode (fst c)) (sc_steps (fst c)) (snd c).

(* ---- helpers for monitors over observed scenarios ---- *)
Definition is_recover_input (i : input) : bool := match i with InRecover => true | _ => false end.

(* all effects of a scenario, oldest first *)
Definition scenario_effects (c : fsm_case) : list effect := flat_map os_effects (sc_steps c).
