(* Pure-function correspondence for checkPaymentWindow / validateClaimInvoice. *)
From Coq Require Import String ZArith Bool List.
From PS Require Import Base.Wrap Model.Data Model.Actions.
Import ListNotations.
Open Scope Z_scope.

Inductive tl_case :=
| TWindow (set : bool) (start cur win : Z) (obs : bool)
| TInvoice (msat cltv claim fin : Z) (obs : bool).

Definition data_with_anchor (set : bool) (start : Z) : swap_data :=
  mkData None None None None None None None "" "" "" "" 0 "" start set "" "" "" "" None "".

Definition tl_check (c : tl_case) : bool :=
  match c with
  | TWindow set start cur win obs =>
      Bool.eqb (check_payment_window (data_with_anchor set start) cur (mkPolicy 0 win 0 0 true)) obs
  | TInvoice msat cltv claim fin obs =>
      Bool.eqb (validate_claim_invoice msat cltv claim (mkPolicy 0 0 fin 0 true)) obs
  end.

(* the property's words: anchor set, anchor <= tip < anchor + window; 0 <= cltv <= final, exact amount *)
Definition tl_monitor (c : tl_case) : bool :=
  match c with
  | TWindow set start cur win obs => Bool.eqb obs (set && (start <=? cur) && (cur <? start + win))
  | TInvoice msat cltv claim fin obs =>
      Bool.eqb obs ((0 <=? cltv) && (cltv <=? fin) && (msat =? (claim * 1000) mod 18446744073709551616))
  end.
