(* JSON value tree and the byte-level codecs Go's encoding/json applies to leaves:
   hex (SwapId), base64 std (for []byte), UTF-8 coercion of strings.
   Executable model, no proofs.  bytes <-> value tree is encoding/json itself (trusted). *)
From Coq Require Import String Ascii ZArith NArith Bool List.
Import ListNotations.
Open Scope N_scope.

Inductive json :=
| JNull
| JBool (b : bool)
| JNum (z : Z)          (* an integer literal  -?digits *)
| JNumBad               (* any other number literal (fraction / exponent) *)
| JStr (s : string)
| JArr (l : list json)
| JObj (kvs : list (string * json)).

Fixpoint json_eqb (a b : json) {struct a} : bool :=
  match a, b with
  | JNull, JNull => true
  | JBool x, JBool y => Bool.eqb x y
  | JNum x, JNum y => Z.eqb x y
  | JNumBad, JNumBad => true
  | JStr x, JStr y => String.eqb x y
  | JArr x, JArr y =>
      (fix go (l1 l2 : list json) : bool :=
         match l1, l2 with
         | [], [] => true
         | p :: r, q :: s => json_eqb p q && go r s
         | _, _ => false
         end) x y
  | JObj x, JObj y =>
      (fix go (l1 l2 : list (string * json)) : bool :=
         match l1, l2 with
         | [], [] => true
         | (k, p) :: r, (k', q) :: s => String.eqb k k' && json_eqb p q && go r s
         | _, _ => false
         end) x y
  | _, _ => false
  end.

(* ---------- hex (encoding/hex: lower-case output, either case accepted) ---------- *)
Definition hex_digit (n : N) : ascii :=
  if n <? 10 then ascii_of_N (48 + n) else ascii_of_N (87 + n).

Fixpoint hex_encode (s : string) : string :=
  match s with
  | EmptyString => EmptyString
  | String c r =>
      let n := N_of_ascii c in
      String (hex_digit (n / 16)) (String (hex_digit (n mod 16)) (hex_encode r))
  end.

Definition hex_val (c : ascii) : option N :=
  let n := N_of_ascii c in
  if (48 <=? n) && (n <=? 57) then Some (n - 48)
  else if (97 <=? n) && (n <=? 102) then Some (n - 87)
  else if (65 <=? n) && (n <=? 70) then Some (n - 55)
  else None.

(* hex.DecodeString: error on odd length or a non-hex character *)
Fixpoint hex_decode (s : string) : option string :=
  match s with
  | EmptyString => Some EmptyString
  | String a (String b r) =>
      match hex_val a, hex_val b, hex_decode r with
      | Some x, Some y, Some t => Some (String (ascii_of_N (x * 16 + y)) t)
      | _, _, _ => None
      end
  | String _ EmptyString => None
  end.

(* ---------- base64.StdEncoding ---------- *)
Definition b64_char (n : N) : ascii :=
  if n <? 26 then ascii_of_N (65 + n)
  else if n <? 52 then ascii_of_N (71 + n)
  else if n <? 62 then ascii_of_N (n - 4)
  else if n =? 62 then "+"%char else "/"%char.

Definition b64_val (c : ascii) : option N :=
  let n := N_of_ascii c in
  if (65 <=? n) && (n <=? 90) then Some (n - 65)
  else if (97 <=? n) && (n <=? 122) then Some (n - 71)
  else if (48 <=? n) && (n <=? 57) then Some (n + 4)
  else if n =? 43 then Some 62
  else if n =? 47 then Some 63
  else None.

Definition pad : ascii := "="%char.

Fixpoint b64_encode (s : string) : string :=
  match s with
  | EmptyString => EmptyString
  | String a EmptyString =>
      let x := N_of_ascii a in
      String (b64_char (x / 4)) (String (b64_char ((x mod 4) * 16)) (String pad (String pad EmptyString)))
  | String a (String b EmptyString) =>
      let x := N_of_ascii a in let y := N_of_ascii b in
      String (b64_char (x / 4)) (String (b64_char ((x mod 4) * 16 + y / 16))
        (String (b64_char ((y mod 16) * 4)) (String pad EmptyString)))
  | String a (String b (String c r)) =>
      let x := N_of_ascii a in let y := N_of_ascii b in let z := N_of_ascii c in
      String (b64_char (x / 4)) (String (b64_char ((x mod 4) * 16 + y / 16))
        (String (b64_char ((y mod 16) * 4 + z / 64)) (String (b64_char (z mod 64)) (b64_encode r))))
  end.

(* Go's decoder drops CR and LF anywhere, wants full padded quanta, padding only at the end,
   and (non-strict mode) ignores the unused trailing bits of the last quantum. *)
Definition is_crlf (c : ascii) : bool := let n := N_of_ascii c in (n =? 13) || (n =? 10).

Fixpoint strip_crlf (s : string) : string :=
  match s with
  | EmptyString => EmptyString
  | String c r => if is_crlf c then strip_crlf r else String c (strip_crlf r)
  end.

Definition byte (n : N) : ascii := ascii_of_N (n mod 256).

Fixpoint b64_decode_clean (s : string) : option string :=
  match s with
  | EmptyString => Some EmptyString
  | String a (String b (String c (String d r))) =>
      if Ascii.eqb d pad then
        match r with
        | EmptyString =>
            if Ascii.eqb c pad then
              match b64_val a, b64_val b with
              | Some x, Some y => Some (String (byte (x * 4 + y / 16)) EmptyString)
              | _, _ => None
              end
            else
              match b64_val a, b64_val b, b64_val c with
              | Some x, Some y, Some z =>
                  Some (String (byte (x * 4 + y / 16)) (String (byte ((y mod 16) * 16 + z / 4)) EmptyString))
              | _, _, _ => None
              end
        | _ => None
        end
      else
        match b64_val a, b64_val b, b64_val c, b64_val d, b64_decode_clean r with
        | Some x, Some y, Some z, Some w, Some t =>
            Some (String (byte (x * 4 + y / 16)) (String (byte ((y mod 16) * 16 + z / 4))
                   (String (byte ((z mod 4) * 64 + w)) t)))
        | _, _, _, _, _ => None
        end
  | _ => None
  end.

Definition b64_decode (s : string) : option string := b64_decode_clean (strip_crlf s).

(* ---------- UTF-8 coercion done by json.Marshal on every Go string ----------
   each byte that does not start a valid UTF-8 sequence (utf8.DecodeRune gives RuneError, size 1)
   is replaced by U+FFFD = EF BF BD. *)
Definition cont (n : N) : bool := (128 <=? n) && (n <=? 191).

(* size of the valid rune encoding at the head of the byte list, 0 when invalid *)
Definition rune_len (l : list N) : nat :=
  match l with
  | [] => 0%nat
  | b0 :: r =>
      if b0 <? 128 then 1%nat
      else if b0 <? 194 then 0%nat
      else if b0 <? 224 then
        match r with b1 :: _ => if cont b1 then 2%nat else 0%nat | _ => 0%nat end
      else if b0 <? 240 then
        match r with
        | b1 :: b2 :: _ =>
            let lo := if b0 =? 224 then 160 else 128 in
            let hi := if b0 =? 237 then 159 else 191 in
            if (lo <=? b1) && (b1 <=? hi) && cont b2 then 3%nat else 0%nat
        | _ => 0%nat
        end
      else if b0 <? 245 then
        match r with
        | b1 :: b2 :: b3 :: _ =>
            let lo := if b0 =? 240 then 144 else 128 in
            let hi := if b0 =? 244 then 143 else 191 in
            if (lo <=? b1) && (b1 <=? hi) && cont b2 && cont b3 then 4%nat else 0%nat
        | _ => 0%nat
        end
      else 0%nat
  end.

Fixpoint sanitize_fuel (fuel : nat) (l : list N) : list N :=
  match fuel with
  | O => []
  | S f =>
      match l with
      | [] => []
      | _ :: r =>
          match rune_len l with
          | O => 239 :: 191 :: 189 :: sanitize_fuel f r
          | n => firstn n l ++ sanitize_fuel f (skipn n l)
          end
      end
  end.

Fixpoint bytes_of_string (s : string) : list N :=
  match s with EmptyString => [] | String c r => N_of_ascii c :: bytes_of_string r end.
Fixpoint string_of_bytes (l : list N) : string :=
  match l with [] => EmptyString | n :: r => String (ascii_of_N n) (string_of_bytes r) end.

Definition sanitize (s : string) : string :=
  let l := bytes_of_string s in string_of_bytes (sanitize_fuel (List.length l) l).

(* a Go string that json.Marshal writes unchanged (= valid UTF-8) *)
Definition utf8_ok (s : string) : bool := String.eqb (sanitize s) s.

(* ASCII lower-casing used by the decoder's case-insensitive key fallback *)
Definition lower_ascii (c : ascii) : ascii :=
  let n := N_of_ascii c in if (65 <=? n) && (n <=? 90) then ascii_of_N (n + 32) else c.
Fixpoint lower (s : string) : string :=
  match s with EmptyString => EmptyString | String c r => String (lower_ascii c) (lower r) end.
