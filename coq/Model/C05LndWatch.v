(* C05, lnd back-end: the confirmation decision of lnd.TxWatcher.AddWaitForConfirmationTx.  When lnd reports the
   opening transaction confirmed in block h the watcher reads the node's height t, computes
   confs = t - h + 1 in uint32 and hands the transaction to the swap (verdict 0: the taker goes on to pay) only if
   confs < BitcoinCsvSafetyLimit; otherwise it reports "csv passed" (verdict 1).  When GetInfo fails nothing is
   reported (verdict 2).  The limit is regenerated from the code (Gen/ConstsLndWatch.v). *)
From Coq Require Import ZArith NArith Bool List.
From PS Require Import Base.Corr Gen.ConstsLndWatch.
Import ListNotations.
Open Scope Z_scope.

Definition u32 (x : Z) : Z := x mod 2 ^ 32.

Definition lnd_conf_verdict (limit h t : Z) (getinfo_fails : bool) : N :=
  if getinfo_fails then 2%N
  else if limit <=? u32 (t - h + 1) then 1%N else 0%N.

Record lw_case := mkLw { lw_h : Z; lw_t : Z; lw_fail : bool; lw_verdict : N }.

Definition lw_check (c : lw_case) : bool :=
  N.eqb (lnd_conf_verdict gen_lndwatch_safety_limit (lw_h c) (lw_t c) (lw_fail c)) (lw_verdict c).

(* the property on observed data, with the numbers of the property text (CSV 1008, half of it): "confirmed" only
   while the transaction has fewer than 504 confirmations at the node's height (a node height one below the
   confirmation height - lnd's two answers are not taken atomically - counts as 0 confirmations; anything lower
   wraps in uint32 and is refused) *)
Definition lw_monitor (c : lw_case) : bool :=
  match lw_verdict c with
  | 0%N => (lw_h c - 1 <=? lw_t c) && (lw_t c - lw_h c + 1 <? 504)
  | _ => true
  end.
