(* Reflective checks on state tables (executable; soundness lemmas are in Proofs/ExecSel.v). *)
From Coq Require Import String ZArith Bool List.
From PS Require Import Model.Data Model.Actions Model.Fsm.
Import ListNotations.

(* the names exec can dispatch on when run with [fuel] on tree [a] *)
Fixpoint chain_ok (ok : string -> bool) (fuel : nat) (a : action_tree) : bool :=
  match fuel with
  | O => true
  | S f =>
      let '(ANode name ch) := a in
      ok name && match first_child ch with Some c => chain_ok ok f c | None => true end
  end.


Definition name_is (n : string) : string -> bool := fun x => String.eqb x n.
Definition name_isnt (n : string) : string -> bool := fun x => negb (String.eqb x n).

(* the action of state s (if any) avoids the named action *)
Definition state_avoids (t : table) (n : string) (s : string) : bool :=
  match lookup_state t s with
  | Some sd => match st_action sd with
               | Some a => chain_ok (name_isnt n) action_fuel a
               | None => true end
  | None => true
  end.

Definition table_avoids (t : table) (n : string) : bool :=
  forallb (fun e => match st_action (snd e) with
                    | Some a => chain_ok (name_isnt n) action_fuel a
                    | None => true end) t.

(* every transition into a state that may run action n carries the event ev *)
Definition entries_by (t : table) (n : string) (ev : string) : bool :=
  forallb (fun e => forallb (fun tr => state_avoids t n (snd tr) || String.eqb (fst tr) ev)
                            (st_events (snd e))) t.

(* the Default state (before the first event) has no action: no transition leads back into it *)
Definition default_inert (t : table) : bool :=
  match lookup_state t EmptyString with
  | Some sd => match st_action sd with Some _ => false | None => true end
  | None => true
  end.
