(* Executable model of btcd's txscript engine (v0.24.3 pseudo-version used by
   peerswap) restricted to the opcodes of the opening script, executed as the
   witness script of a version-0 P2WSH spend.  Follows engine.go / opcode.go /
   scriptnum.go / stack.go; signature verification and SHA-256 are Section
   variables.  No proofs here. *)
From Coq Require Import ZArith NArith Bool List.
From PS Require Import Base.Corr Base.ScriptOps.
Import ListNotations.
Open Scope Z_scope.

Definition bytes_eqb : bytes -> bytes -> bool := list_eqb N.eqb.

(* ---------- stack.go: asBool / fromBool ---------- *)
Fixpoint as_bool (t : bytes) : bool :=
  match t with
  | [] => false
  | b :: r =>
      if N.eqb b 0 then as_bool r
      else match r with
           | [] => negb (N.eqb b 128)      (* negative zero is false *)
           | _ => true
           end
  end.

Definition from_bool (v : bool) : bytes := if v then [1%N] else [].

(* ---------- scriptnum.go ---------- *)
(* little endian magnitude; the loop `for n > 0 { append(byte(n&0xff)); n >>= 8 }` *)
Fixpoint le_bytes (fuel : nat) (n : Z) : bytes :=
  match fuel with
  | O => []
  | S f => if n <=? 0 then [] else Z.to_N (n mod 256) :: le_bytes f (n / 256)
  end.

Fixpoint set_last_high_bit (l : bytes) : bytes :=
  match l with
  | [] => []
  | [b] => [N.lor b 128]
  | b :: r => b :: set_last_high_bit r
  end.

(* scriptNum.Bytes(), for |n| < 2^63 *)
Definition scriptnum_encode (n : Z) : bytes :=
  if n =? 0 then [] else
  let neg := n <? 0 in
  let r := le_bytes 9 (Z.abs n) in
  if N.leb 128 (last r 0%N)
  then r ++ [if neg then 128%N else 0%N]
  else if neg then set_last_high_bit r else r.

Fixpoint le_value (v : bytes) : Z :=
  match v with
  | [] => 0
  | b :: r => Z.of_N b + 256 * le_value r
  end.

(* checkMinimalDataEncoding *)
Definition minimal_encoding (v : bytes) : bool :=
  match rev v with
  | [] => true
  | lastb :: before =>
      if N.eqb (N.land lastb 127) 0 then
        match before with
        | [] => false
        | prev :: _ => negb (N.eqb (N.land prev 128) 0)
        end
      else true
  end.

(* MakeScriptNum(v, requireMinimal, scriptNumLen) ; None = error *)
Definition scriptnum_decode (require_minimal : bool) (maxlen : nat) (v : bytes) : option Z :=
  if Nat.ltb maxlen (length v) then None else
  if require_minimal && negb (minimal_encoding v) then None else
  match v with
  | [] => Some 0
  | _ =>
      let r := le_value v in
      if N.leb 128 (last v 0%N)
      then Some (- (r - 128 * 256 ^ (Z.of_nat (length v) - 1)))
      else Some r
  end.

(* ---------- flags that influence these opcodes ---------- *)
Record flags := { f_minimaldata : bool; f_minimalif : bool }.

(* popIfBool for a v0 witness program *)
Definition pop_if_bool (fl : flags) (st : list bytes) : option (bool * list bytes) :=
  match st with
  | [] => None
  | so :: r =>
      if f_minimalif fl then
        match so with
        | [] => Some (false, r)
        | [b] => if N.eqb b 1 then Some (true, r) else None
        | _ => None
        end
      else Some (as_bool so, r)
  end.

(* verifyLockTime *)
Definition verify_lock_time (tx_lock threshold lock : Z) : bool :=
  (((tx_lock <? threshold) && (lock <? threshold)) ||
   ((threshold <=? tx_lock) && (threshold <=? lock))) &&
  negb (tx_lock <? lock).

Definition seq_disabled : Z := 2147483648.   (* wire.SequenceLockTimeDisabled 1<<31 *)
Definition seq_is_seconds : Z := 4194304.    (* wire.SequenceLockTimeIsSeconds 1<<22 *)
Definition seq_mask : Z := 65535.            (* wire.SequenceLockTimeMask *)
Definition lock_time_mask : Z := 4259839.    (* IsSeconds | Mask = 0x0040ffff *)

(* opcodeCheckSequenceVerify with ScriptVerifyCheckSequenceVerify set.
   [top] is the stack top (peeked), [txver] the int32 transaction version,
   [seq] the uint32 sequence of the input being spent. *)
Definition check_sequence (fl : flags) (top : bytes) (txver seq : Z) : bool :=
  match scriptnum_decode (f_minimaldata fl) 5 top with
  | None => false
  | Some n =>
      if n <? 0 then false else
      if negb (Z.land n seq_disabled =? 0) then true else
      if (txver mod 4294967296) <? 2 then false else       (* uint32(tx.Version) < 2 *)
      if negb (Z.land seq seq_disabled =? 0) then false else
      verify_lock_time (Z.land seq lock_time_mask) seq_is_seconds (Z.land n lock_time_mask)
  end.

Inductive sigres := SigOk | SigFalse | SigAbort.
Inductive condv := CTrue | CFalse | CSkip.

Definition executing (c : list condv) : bool :=
  match c with
  | [] => true
  | CTrue :: _ => true
  | _ => false
  end.

Definition max_element_size : nat := 520.
Definition max_stack_size : nat := 1000.

Section Interp.
  (* result of verifying a non-empty signature (with its hash type byte) under a
     public key for the input being spent: valid / pushes false / script aborts
     (encoding rules, NULLFAIL) *)
  Variable checksig : bytes -> bytes -> sigres.
  Variable sha256 : bytes -> bytes.
  Variable fl : flags.
  Variable txver seq : Z.

  (* opcodeCheckSig: an empty signature pushes false without any check *)
  Definition sig_result (pk sg : bytes) : sigres :=
    match sg with
    | [] => SigFalse
    | _ => checksig pk sg
    end.

  (* executeOpcode + the opcode's function *)
  Definition step (o : op) (c : list condv) (st : list bytes) : option (list condv * list bytes) :=
    match o with
    | OP_UNKNOWN _ => None
    | OP_IF | OP_NOTIF =>
        if executing c then
          match pop_if_bool fl st with
          | None => None
          | Some (b, st') =>
              let take := match o with OP_IF => b | _ => negb b end in
              Some ((if take then CTrue else CFalse) :: c, st')
          end
        else Some (CSkip :: c, st)
    | OP_ELSE =>
        match c with
        | [] => None
        | CTrue :: r => Some (CFalse :: r, st)
        | CFalse :: r => Some (CTrue :: r, st)
        | CSkip :: r => Some (CSkip :: r, st)
        end
    | OP_ENDIF =>
        match c with
        | [] => None
        | _ :: r => Some (r, st)
        end
    | OP_PUSH d =>
        if Nat.ltb max_element_size (length d) then None        (* checked before the branch test *)
        else if executing c then Some (c, d :: st) else Some (c, st)
    | OP_SIZE =>
        if executing c then
          match st with
          | x :: _ => Some (c, scriptnum_encode (Z.of_nat (length x)) :: st)
          | [] => None
          end
        else Some (c, st)
    | OP_EQUALVERIFY =>
        if executing c then
          match st with
          | a :: b :: r => if bytes_eqb a b then Some (c, r) else None
          | _ => None
          end
        else Some (c, st)
    | OP_SHA256 =>
        if executing c then
          match st with
          | x :: r => Some (c, sha256 x :: r)
          | [] => None
          end
        else Some (c, st)
    | OP_CHECKSIG =>
        if executing c then
          match st with
          | pk :: sg :: r =>
              match sig_result pk sg with
              | SigAbort => None
              | SigOk => Some (c, from_bool true :: r)
              | SigFalse => Some (c, from_bool false :: r)
              end
          | _ => None
          end
        else Some (c, st)
    | OP_CSV =>
        if executing c then
          match st with
          | top :: _ => if check_sequence fl top txver seq then Some (c, st) else None
          | [] => None
          end
        else Some (c, st)
    end.

  (* Engine.Step loop: after every opcode the stack depth is checked against
     MaxStackSize ([lim] = None switches the check off; used only in proofs) *)
  Fixpoint exec (lim : option nat) (ops : list op) (c : list condv) (st : list bytes)
    : option (list condv * list bytes) :=
    match ops with
    | [] => Some (c, st)
    | o :: r =>
        match step o c st with
        | None => None
        | Some (c', st') =>
            match lim with
            | Some n => if Nat.ltb n (length st') then None else exec lim r c' st'
            | None => exec lim r c' st'
            end
        end
    end.

  (* verifyWitnessProgram (P2WSH, script hash already matched) + Execute +
     CheckErrorCondition(final): witness items are at most 520 bytes, the
     conditional stack must be empty at the end, exactly one item remains and it
     is true.  [w] lists the witness items below the witness script, first item
     first (bottom of the stack). *)
  Definition run_witness (lim : option nat) (ops : list op) (w : list bytes) : bool :=
    forallb (fun i => Nat.leb (length i) max_element_size) w &&
    match exec lim ops [] (rev w) with
    | Some ([], [x]) => as_bool x
    | _ => false
    end.

  Definition eval_witness (ops : list op) (w : list bytes) : bool :=
    run_witness (Some max_stack_size) ops w.
End Interp.
