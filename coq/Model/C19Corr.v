(* C19 correspondence: (a) the lockset check on the generated skeleton, minus the named exclusions;
   (b) the race-detector reports of the stress run, mapped to skeleton sites. *)
From Coq Require Import NArith Bool String List.
Import ListNotations.
From PS Require Import Base.Corr Gen.Skel Model.Skel.
Open Scope string_scope.

Definition c19_skel_full : skeleton := mkSkeleton skel_funs skel_ifaces skel_slots skel_roots.

(* KNOWN FINDING C19/2 (confirmed by the race detector, findings/C19.json): SwapStateMachine.Recover runs the action of
   the current state and persists the swap WITHOUT the swap's mutex although RecoverSwaps has already put the swap into
   the active map, so messages and notifications for it are handled concurrently.  Taken out of the skeleton by removing
   exactly those two calls from Recover: (function, (op code 8 = CallIface, interface method)).  (It is not repaired
   because with the mutex held the synchronous CSV callback of finding C18/1 would block recovery.) *)
Definition c19_known_ops : list (string * (N * string)) := [
  ("swap.SwapStateMachine.Recover", (8%N, "swap.Action.Execute"));
  ("swap.SwapStateMachine.Recover", (8%N, "swap.Store.UpdateData"))
].
Definition c19_known_op_ids : list (N * (N * N)) :=
  resolve_ops skel_fn_names skel_lock_names skel_field_names skel_iface_names skel_slot_names c19_known_ops.

Definition c19_skel : skeleton := erase c19_skel_full c19_known_op_ids.
Definition c19_prog : prog := prog_of c19_skel.
Definition c19_prog_full : prog := prog_of c19_skel_full.
(* evaluated once, when this file is compiled against the regenerated skeleton *)
Definition c19_must : list (N * list N) := Eval vm_compute in must_hold c19_prog skel_roots.
Definition c19_must_full : list (N * list N) := Eval vm_compute in must_hold c19_prog_full skel_roots.

(* ---------- exclusions, by name ---------- *)

(* KNOWN FINDING C19/1 (confirmed by the race detector, findings/C19.json): SwapService.lockSwap walks the active
   swaps under the service lock and reads their SwapData (GetScid) while the event handler of such a swap, under the
   swap's own mutex, attaches the request to the data (ApplyToSwapData).  (field, function, function) *)
Definition c19_known : list (string * (string * string)) := [
  ("swap.SwapData.SwapInRequest", ("swap.SwapData.GetScid", "swap.SwapInRequestMessage.ApplyToSwapData"));
  ("swap.SwapData.SwapOutRequest", ("swap.SwapData.GetScid", "swap.SwapOutRequestMessage.ApplyToSwapData"));
  (* finding C19/2: Recover itself reads the current state unlocked *)
  ("swap.SwapStateMachine.Current", ("swap.SwapStateMachine.Recover", "swap.SwapStateMachine.setState"))
].

(* start-up: these run once, from main, before the service accepts messages, commands or notifications
   (SwapService.Start registers the callbacks and installs the timeout service) *)
Definition c19_init_fns : list string := [
  "swap.SwapService.Start";
  "txwatcher.BlockchainRpcTxWatcher.AddConfirmationCallback"; "txwatcher.BlockchainRpcTxWatcher.AddCsvCallback";
  "lwk.electrumTxWatcher.AddConfirmationCallback"; "lwk.electrumTxWatcher.AddCsvCallback"
].

(* functions that only ever work on an object no other goroutine can reach: the four ...FromStore constructors
   complete a machine just loaded from the store before lockSwap publishes it; IsFinished is called only on copies
   returned by the store (service.go: HasActiveSwaps, RecoverSwaps, ListActiveSwaps).  The skeleton is
   instance-insensitive and cannot see this. *)
Definition c19_private_fns : list string := [
  "swap.swapInSenderFromStore"; "swap.swapInReceiverFromStore"; "swap.swapOutSenderFromStore"; "swap.swapOutReceiverFromStore";
  "swap.SwapStateMachine.IsFinished"
].

Definition ids_of (names : list string) (xs : list string) : list N :=
  flat_map (fun x => match index_of x names 0 with Some i => [i] | None => [] end) xs.

Definition c19_known_ids : list (N * (N * N)) :=
  flat_map (fun t =>
    match index_of (fst t) skel_field_names 0, index_of (fst (snd t)) skel_fn_names 0, index_of (snd (snd t)) skel_fn_names 0 with
    | Some f, Some a, Some b => [(f, (a, b))]
    | _, _, _ => []
    end) c19_known.
Definition c19_init_ids : list N := ids_of skel_fn_names c19_init_fns.
Definition c19_private_ids : list N := ids_of skel_fn_names c19_private_fns.

Definition excuse_of (known : list (N * (N * N))) (fns : list N) : excuse :=
  fun f g1 g2 =>
    existsb (fun t => N.eqb (fst t) f && N.eqb (fst (snd t)) g1 && N.eqb (snd (snd t)) g2) known ||
    mem g1 fns || mem g2 fns.

Definition c19_excuse : excuse := excuse_of c19_known_ids (c19_init_ids ++ c19_private_ids).
Definition no_excuse : excuse := fun _ _ _ => false.
(* without the known finding: what the FULL statement demands *)
Definition c19_excuse_full : excuse := excuse_of [] (c19_init_ids ++ c19_private_ids).

Definition c19_skeleton_ok : bool :=
  is_nil skel_warnings && well_formed c19_skel_full &&
  lockset_check c19_prog (lookupL c19_must) skel_roots c19_excuse.

Definition names_of_triples (ts : list (field * (fname * fname))) : list (string * (string * string)) :=
  map (fun t => (name_of skel_field_names (fst t), (name_of skel_fn_names (fst (snd t)), name_of skel_fn_names (snd (snd t))))) ts.

(* for the report: pairs that fail the lockset condition and are not excused / every pair that fails it *)
Definition c19_unexcused : list (string * (string * string)) :=
  names_of_triples (bad_pairs_norm c19_prog (lookupL c19_must) c19_excuse).
Definition c19_static_pairs : list (string * (string * string)) :=
  names_of_triples (bad_pairs_norm c19_prog_full (lookupL c19_must_full) no_excuse).
(* what the FULL statement (full skeleton, only the start-up / private exclusions) is missing *)
Definition c19_full_missing : list (string * (string * string)) :=
  names_of_triples (bad_pairs_norm c19_prog_full (lookupL c19_must_full) c19_excuse_full).

(* ---------- race-detector stress ---------- *)

Inductive c19_case :=
| C19Race (fn_a fn_b : string) (fields : list string) (write_a write_b : bool)
    (* one distinct race report: first repository frame of both accesses, field classes of the two source lines *)
| C19Ran (entry : string) (calls : N) (hung : bool).
    (* an entry-point family of the workload ran this many times; the workload stopped in time *)

Definition triple_name_eqb (f a b : string) (t : string * (string * string)) : bool :=
  String.eqb (fst t) f &&
  ((String.eqb (fst (snd t)) a && String.eqb (snd (snd t)) b) || (String.eqb (fst (snd t)) b && String.eqb (snd (snd t)) a)).

(* model == observed: a race the detector saw must be one the lockset analysis (with no exclusion at all) predicts for
   one of the field classes on those lines; otherwise the skeleton misses an access or assumes a lock that is not there *)
Definition c19_check_with (static : list (string * (string * string))) (c : c19_case) : bool :=
  match c with
  | C19Race a b fields _ _ => existsb (fun f => existsb (triple_name_eqb f a b) static) fields
  | C19Ran _ calls hung => negb hung
  end.

(* the property's own statement on the observed run: the race detector reported nothing *)
Definition c19_monitor (c : c19_case) : bool :=
  match c with
  | C19Race _ _ _ _ _ => false
  | C19Ran _ _ hung => negb hung
  end.

(* evaluated once, when this file is compiled against the regenerated skeleton *)
Definition c19_static_pairs_now : list (string * (string * string)) := Eval vm_compute in c19_static_pairs.
Definition c19_check (c : c19_case) : bool := c19_check_with c19_static_pairs_now c.
