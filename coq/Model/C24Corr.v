(* Correspondence / monitor functions for C24 (evaluated on harness cases). *)
From Coq Require Import String Ascii ZArith Bool List.
From PS Require Import Base.Strs Base.Corr Model.PayRoute Gen.ConstsC24.
Import ListNotations.
Open Scope Z_scope.

Inductive c24_case :=
(* buildDirectClaimRoute called directly *)
| CClnRoute (inv : cln_invoice) (scid : string) (limit : Z) (obs : option (list cln_hop))
(* ClightningClient.PayInvoiceViaChannel (limit 0) / RebalancePayment against a fake lightningd:
   decode answer, arguments, observed sendpay call (if any) and number of sendpay calls *)
| CClnPay (dec : option cln_invoice) (payreq scid : string) (limit : Z)
          (obs : option cln_sendpay) (sends : Z) (obs_err : bool)
(* buildDirectClaimPaymentRequest called directly *)
| CLndBuild (payreq : string) (inv : lnd_invoice) (c : lnd_chan) (limit : Z) (obs : option lnd_req)
(* lnd Client.PayInvoiceViaChannel / RebalancePayment against fake lnd RPC clients *)
| CLndPay (dec : option lnd_invoice) (chans : option (list lnd_chan)) (payreq scid : string) (limit : Z)
          (obs : option lnd_req) (sends : Z) (obs_err : bool).

Definition hop_eqb (a b : cln_hop) : bool :=
  String.eqb (h_id a) (h_id b) && String.eqb (h_channel a) (h_channel b) &&
  (h_msat a =? h_msat b) && (h_delay a =? h_delay b) && (h_direction a =? h_direction b).

Definition sendpay_eqb (a b : cln_sendpay) : bool :=
  list_eqb hop_eqb (sp_route a) (sp_route b) && String.eqb (sp_hash a) (sp_hash b) &&
  (sp_msat a =? sp_msat b) && String.eqb (sp_bolt11 a) (sp_bolt11 b).

Definition req_eqb (a b : lnd_req) : bool :=
  String.eqb (rq_payreq a) (rq_payreq b) &&
  (rq_cltv_limit a =? rq_cltv_limit b) && list_eqb Z.eqb (rq_chans a) (rq_chans b) &&
  (rq_max_parts a =? rq_max_parts b) && (rq_amt a =? rq_amt b) && (rq_amt_msat a =? rq_amt_msat b) &&
  (rq_dest_len a =? rq_dest_len b).

Definition is_some {A} (o : option A) : bool := match o with Some _ => true | None => false end.

(* model (with the constants generated from the code) agrees with the observation *)
Definition c24_check (c : c24_case) : bool :=
  match c with
  | CClnRoute inv scid limit obs => opt_eqb (list_eqb hop_eqb) (cln_route inv scid limit) obs
  | CClnPay dec payreq scid limit obs sends err =>
      let m := cln_pay dec payreq scid limit in
      opt_eqb sendpay_eqb m obs && (sends =? (if is_some m then 1 else 0)) &&
      (* after the sendpay the fake node always reports success *)
      Bool.eqb err (negb (is_some m))
  | CLndBuild payreq inv ch limit obs =>
      opt_eqb req_eqb (lnd_build lnd_block_padding payreq inv ch limit) obs
  | CLndPay dec chans payreq scid limit obs sends err =>
      let m := lnd_pay lnd_block_padding dec chans payreq scid limit in
      opt_eqb req_eqb m obs && (sends =? (if is_some m then 1 else 0)) &&
      Bool.eqb err (negb (is_some m))
  end.

(* ---------- the property itself on OBSERVED data ----------
   "one HTLC over the swap's own channel to that channel's peer, for the invoice's exact amount;
    refuses if the invoice's destination is not that peer (LND); routes only over that channel (CLN)" *)

Fixpoint has_byte (b : ascii) (s : string) : bool :=
  match s with EmptyString => false | String c r => Ascii.eqb c b || has_byte b r end.

(* same channel id up to the two spellings (separator ':' or 'x') *)
Fixpoint same_scid (a b : string) : bool :=
  match a, b with
  | EmptyString, EmptyString => true
  | String x a', String y b' =>
      let sep c := Ascii.eqb c ":"%char || Ascii.eqb c "x"%char in
      (Ascii.eqb x y || (sep x && sep y)) && same_scid a' b'
  | _, _ => false
  end.

Definition mon_cln_route (payee : string) (msat : Z) (scid : string) (r : list cln_hop) : bool :=
  match r with
  | [h] => String.eqb (h_id h) payee && (h_msat h =? msat) &&
           same_scid (h_channel h) scid && negb (has_byte ":"%char (h_channel h))
  | _ => false
  end.

(* the channel (by position in lnd's list) whose id is written [scid] in either spelling *)
Definition spelled (scid : string) (c : lnd_chan) : bool :=
  String.eqb scid (scid_lnd (lc_id c)) || String.eqb scid (scid_cln (lc_id c)).

Definition mon_lnd_req (dest payreq scid : string) (chans : list lnd_chan) (q : lnd_req) : bool :=
  String.eqb (rq_payreq q) payreq && (rq_max_parts q =? 1) && (rq_amt q =? 0) && (rq_amt_msat q =? 0) &&
  (rq_dest_len q =? 0) &&
  match rq_chans q with
  | [id] => existsb (fun c => (lc_id c =? id) && spelled scid c && String.eqb (lc_remote c) dest) chans
  | _ => false
  end.

(* CLTV part ("all invoices (destination, amount, CLTV)"): with a limit the hop delay is the invoice's
   final delta + 1 and within the limit; without one it is final delta + 1 whenever that fits *)
Definition mon_cln_cltv (mfc limit : Z) (r : list cln_hop) : bool :=
  match r with
  | [h] =>
      if limit =? 0 then negb ((0 <=? mfc + 1) && (mfc + 1 <? 2^32)) || (h_delay h =? mfc + 1)
      else (0 <=? mfc) && (h_delay h =? mfc + 1) && (h_delay h <=? limit)
  | _ => false
  end.

(* lnd adds 3 blocks (routing.BlockPadding) to the invoice's final delta *)
Definition mon_lnd_cltv (cltv limit : Z) (q : lnd_req) : bool :=
  if limit =? 0 then negb ((-2^31 <=? cltv + 4) && (cltv + 4 <? 2^31)) || (rq_cltv_limit q =? cltv + 4)
  else (0 <=? cltv) && (cltv + 3 <=? limit) && (rq_cltv_limit q =? limit + 1) && (limit + 1 <? 2^31).

Definition c24_monitor (c : c24_case) : bool :=
  match c with
  | CClnRoute inv scid limit obs =>
      match obs with
      | Some r => mon_cln_route (ci_payee inv) (ci_msat inv) scid r && mon_cln_cltv (ci_min_final inv) limit r
      | None => true
      end
  | CClnPay dec payreq scid limit obs sends _ =>
      match obs, dec with
      | Some sp, Some inv =>
          (sends =? 1) && mon_cln_route (ci_payee inv) (ci_msat inv) scid (sp_route sp) &&
          mon_cln_cltv (ci_min_final inv) limit (sp_route sp) &&
          (sp_msat sp =? ci_msat inv) && String.eqb (sp_bolt11 sp) payreq && String.eqb (sp_hash sp) (ci_hash inv)
      | Some _, None => false
      | None, _ => sends =? 0
      end
  | CLndBuild payreq inv ch limit obs =>
      match obs with
      | Some q => mon_lnd_req (li_dest inv) payreq (scid_lnd (lc_id ch)) [ch] q && mon_lnd_cltv (li_cltv inv) limit q
      | None => true
      end &&
      (* refusal when the invoice's destination is not the channel's peer *)
      (String.eqb (li_dest inv) (lc_remote ch) || negb (is_some obs))
  | CLndPay dec chans payreq scid limit obs sends _ =>
      match obs, dec, chans with
      | Some q, Some inv, Some cs =>
          (sends =? 1) && mon_lnd_req (li_dest inv) payreq scid cs q && mon_lnd_cltv (li_cltv inv) limit q
      | Some _, _, _ => false
      | None, _, _ => sends =? 0
      end
  end.
