(* C24 — executable model of the code that builds fee / claim payments.

   CLN  clightning/clightning.go: payInvoiceViaChannel, buildDirectClaimRoute
   LND  lnd/client.go: payInvoiceViaChannel, CheckChannel, buildDirectClaimPaymentRequest
   lightning/lightning.go: Scid.ClnStyle / Scid.LndStyle
   swap/timelock.go: ValidateTotalCLTVDelta

   Go integer conversions are written out (int64 add wraps, uint32 / int32
   truncation).  No proofs here. *)
From Coq Require Import String Ascii ZArith Bool List.
From PS Require Import Base.Strs.
Import ListNotations.
Open Scope Z_scope.

(* ---------- Go integer conversions *)
Definition to_u64 (z : Z) : Z := z mod 2^64.
Definition to_u32 (z : Z) : Z := z mod 2^32.
Definition to_i64 (z : Z) : Z := let m := z mod 2^64 in if m <? 2^63 then m else m - 2^64.
Definition to_i32 (z : Z) : Z := let m := z mod 2^32 in if m <? 2^31 then m else m - 2^32.
Definition max_uint32 : Z := 4294967295.
Definition max_int32 : Z := 2147483647.

(* ---------- lightning.Scid: strings.ReplaceAll with one-byte old/new *)
Fixpoint replace_byte (o n : ascii) (s : string) : string :=
  match s with
  | EmptyString => EmptyString
  | String c r => String (if Ascii.eqb c o then n else c) (replace_byte o n r)
  end.

Definition cln_style (s : string) : string := replace_byte ":"%char "x"%char s.
Definition lnd_style (s : string) : string := replace_byte "x"%char ":"%char s.

(* ---------- swap.ValidateTotalCLTVDelta: true = error *)
Definition cltv_delta_rejected (required limit : Z) : bool :=
  negb (limit =? 0) && (limit <? required).

(* ================= CLN ================= *)

(* the fields of glightning.DecodedBolt11 the code reads *)
Record cln_invoice := mk_cln_invoice {
  ci_payee : string;
  ci_msat : Z;          (* uint64 *)
  ci_min_final : Z;     (* Go int (64 bit) *)
  ci_hash : string
}.

Record cln_hop := mk_cln_hop {
  h_id : string;
  h_channel : string;
  h_msat : Z;
  h_delay : Z;          (* uint32 *)
  h_direction : Z
}.

(* buildDirectClaimRoute *)
Definition cln_route (inv : cln_invoice) (scid : string) (limit : Z) : option (list cln_hop) :=
  let mfc := ci_min_final inv in
  let delay0 := to_u32 (to_i64 (mfc + 1)) in
  let mk d := Some [mk_cln_hop (ci_payee inv) (cln_style scid) (ci_msat inv) d 0] in
  if limit =? 0 then mk delay0
  else
    if (mfc <? 0) || (max_uint32 <=? to_u64 mfc) then None
    else
      let delay := to_u32 (to_i64 (mfc + 1)) in
      if cltv_delta_rejected delay limit then None else mk delay.

(* arguments of the one sendpay call *)
Record cln_sendpay := mk_cln_sendpay {
  sp_route : list cln_hop;
  sp_hash : string;
  sp_msat : Z;
  sp_bolt11 : string
}.

(* payInvoiceViaChannel up to (and including) the SendPay call.
   [dec] is lightningd's answer to decode (None = error). *)
Definition cln_pay (dec : option cln_invoice) (payreq scid : string) (limit : Z)
  : option cln_sendpay :=
  match dec with
  | None => None
  | Some inv =>
      match cln_route inv scid limit with
      | None => None
      | Some r => Some (mk_cln_sendpay r (ci_hash inv) (ci_msat inv) payreq)
      end
  end.

(* ================= LND ================= *)

(* the fields of lnrpc.PayReq the code reads *)
Record lnd_invoice := mk_lnd_invoice {
  li_dest : string;
  li_sat : Z;           (* int64 NumSatoshis *)
  li_cltv : Z           (* int64 CltvExpiry *)
}.

Record lnd_chan := mk_lnd_chan {
  lc_id : Z;            (* uint64 ChanId *)
  lc_remote : string;
  lc_local : Z          (* int64 LocalBalance *)
}.

(* lnwire.NewShortChanIDFromInt + String() / LndShortChannelIdToCLShortChannelId *)
Definition scid_height (id : Z) : Z := (id / 2^40) mod 2^32.
Definition scid_txindex (id : Z) : Z := ((id / 2^16) mod 2^32) mod 2^24.
Definition scid_txpos (id : Z) : Z := id mod 2^16.
Definition scid_with (sep : string) (id : Z) : string :=
  (dec_of_Z (scid_height id) ++ sep ++ dec_of_Z (scid_txindex id) ++ sep ++ dec_of_Z (scid_txpos id))%string.
Definition scid_lnd (id : Z) : string := scid_with ":" id.
Definition scid_cln (id : Z) : string := scid_with "x" id.

Definition chan_matches (scid : string) (c : lnd_chan) : bool :=
  String.eqb (scid_lnd (lc_id c)) scid || String.eqb (scid_cln (lc_id c)) scid.

(* the loop of CheckChannel: first listed channel whose id spells scid *)
Fixpoint find_chan (scid : string) (chans : list lnd_chan) : option lnd_chan :=
  match chans with
  | [] => None
  | c :: r => if chan_matches scid c then Some c else find_chan scid r
  end.

(* CheckChannel(scid, amountSat uint64) *)
Definition check_channel (chans : list lnd_chan) (scid : string) (amount_sat : Z) : option lnd_chan :=
  match find_chan scid chans with
  | None => None
  | Some c => if lc_local c <? to_i64 amount_sat then None else Some c
  end.

(* projected routerrpc.SendPaymentRequest *)
Record lnd_req := mk_lnd_req {
  rq_payreq : string;
  rq_cltv_limit : Z;        (* int32 *)
  rq_chans : list Z;        (* OutgoingChanIds *)
  rq_max_parts : Z;
  rq_amt : Z;               (* Amt, must stay 0: amount comes from the invoice *)
  rq_amt_msat : Z;
  rq_dest_len : Z           (* len(Dest), must stay 0 *)
}.

(* buildDirectClaimPaymentRequest; [pad] = routing.BlockPadding *)
Definition lnd_build (pad : Z) (payreq : string) (inv : lnd_invoice) (c : lnd_chan) (limit : Z)
  : option lnd_req :=
  if negb (String.eqb (li_dest inv) (lc_remote c)) then None
  else
    let cltv := li_cltv inv in
    let mk l := Some (mk_lnd_req payreq l [lc_id c] 1 0 0 0) in
    let legacy := to_i32 (to_i64 (to_i64 (cltv + pad) + 1)) in
    if limit =? 0 then mk legacy
    else
      if cltv <? 0 then None
      else
        let req64 := to_u64 (to_u64 cltv + pad) in
        if max_uint32 <? req64 then None
        else
          let req := to_u32 req64 in
          if cltv_delta_rejected req limit then None
          else if max_int32 <=? limit then None
          else mk (to_i32 (to_u32 (limit + 1))).

(* payInvoiceViaChannel up to (and including) SendPaymentV2.
   [dec] is lnd's answer to DecodePayReq, [chans] its answer to ListChannels (None = RPC error). *)
Definition lnd_pay (pad : Z) (dec : option lnd_invoice) (chans : option (list lnd_chan))
  (payreq scid : string) (limit : Z) : option lnd_req :=
  match dec, chans with
  | Some inv, Some cs =>
      match check_channel cs scid (to_u64 (li_sat inv)) with
      | None => None
      | Some c => lnd_build pad payreq inv c limit
      end
  | _, _ => None
  end.
