(* C10, channel-id spellings: lightning.Scid.ClnStyle / LndStyle change nothing but the separator - exactly the
   normalisation lockSwap (sameChannel, Model/Service.v norm_scid) uses to decide that two spellings name one channel.
   If an adapter-side conversion normalised MORE (say, dropped leading zeros) it would resolve spellings to one channel
   that lockSwap keeps apart, and a second swap could be started on a busy channel. *)
From Coq Require Import String Ascii Bool List.
From PS Require Import Base.Corr Model.Data Model.Actions Model.Fsm Model.History Model.Service.
Import ListNotations.

Fixpoint lnd_style (s : string) : string :=
  match s with
  | EmptyString => EmptyString
  | String c r => String (if Ascii.eqb c "x"%char then ":"%char else c) (lnd_style r)
  end.

Record scid_case := mkScid { sd_id : string; sd_cln : string; sd_lnd : string }.

Definition scid_check (c : scid_case) : bool :=
  String.eqb (norm_scid (sd_id c)) (sd_cln c) && String.eqb (lnd_style (sd_id c)) (sd_lnd c).

(* on observed data: both renderings name the channel lockSwap takes the id for *)
Definition scid_monitor (c : scid_case) : bool :=
  String.eqb (norm_scid (sd_cln c)) (norm_scid (sd_id c)) && String.eqb (norm_scid (sd_lnd c)) (norm_scid (sd_id c)).
