(* Correspondence / monitor functions for C25 (evaluated on harness cases). *)
From Coq Require Import String Ascii ZArith Bool List.
From PS Require Import Base.Strs Base.Corr Model.Ini Model.Policy Gen.ConstsPolicy.
Import ListNotations.
Open Scope string_scope.

(* what the harness records after every operation, all from the REAL code *)
Record obs := mkObs {
  o_err : bool;                 (* the operation returned an error *)
  o_mem : policy;               (* Policy.Get() *)
  o_file : string;              (* bytes of the policy file *)
  o_reload : option policy;     (* a fresh CreateFromFile of that file (None = error) *)
  o_allowed : bool;             (* IsPeerAllowed(arg) *)
  o_susp : bool;                (* IsPeerSuspicious(arg) *)
  o_new : bool                  (* NewSwapsAllowed() *)
}.

Inductive c25_case :=
| CSeq (file0 : string) (init : option policy) (steps : list (op * obs))
| CParse (file : string) (observed : option policy)
| CValid (s : string) (observed : bool).

Definition strs_eqb := list_eqb String.eqb.

Definition policy_eqb (a b : policy) : bool :=
  (p_reserve a =? p_reserve b)%Z && strs_eqb (p_allow a) (p_allow b) && strs_eqb (p_susp a) (p_susp b) &&
  Bool.eqb (p_accept_all a) (p_accept_all b) && (p_min_swap a =? p_min_swap b)%Z &&
  Bool.eqb (p_allow_new a) (p_allow_new b).

Definition pres_matches (r : pres) (o : option policy) : bool :=
  match r, o with
  | POk p, Some q => policy_eqb p q
  | PErr, None => true
  | _, _ => false
  end.

Definition op_arg (o : op) : string :=
  match o with
  | OAddAllow pk | ORemAllow pk | OAddSusp pk | ORemSusp pk => pk
  | _ => ""
  end.

(* ---------- model == observed ---------- *)
Fixpoint check_steps (s : st) (steps : list (op * obs)) : bool :=
  match steps with
  | [] => true
  | (o, ob) :: r =>
      let '(e, s') := step s o in
      Bool.eqb e (o_err ob) &&
      policy_eqb (s_mem s') (o_mem ob) &&
      String.eqb (s_file s') (o_file ob) &&
      pres_matches (parse_file (s_file s')) (o_reload ob) &&
      Bool.eqb (is_peer_allowed (s_mem s') (op_arg o)) (o_allowed ob) &&
      Bool.eqb (is_peer_suspicious (s_mem s') (op_arg o)) (o_susp ob) &&
      Bool.eqb (new_swaps_allowed (s_mem s')) (o_new ob) &&
      check_steps s' r
  end.

(* the constants of the model are the ones the code uses *)
Definition gen_consts_ok : bool :=
  String.eqb file_after_disable (add_line "" line_swaps_false) &&
  String.eqb file_after_disable_enable (add_line "" line_swaps_true) &&
  list_eqb Nat.eqb pubkey_lengths [66%nat] &&
  String.eqb pubkey_alphabet "0123456789abcdef" &&
  strs_eqb default_policy_allow [] && strs_eqb default_policy_susp [].

Definition c25_check (c : c25_case) : bool :=
  gen_consts_ok &&
  match c with
  | CSeq f0 init steps =>
      match parse_file f0, init with
      | POk p, Some q => policy_eqb p q && check_steps (mkSt f0 p) steps
      | PErr, None => match steps with [] => true | _ => false end
      | _, _ => false
      end
  | CParse f o => pres_matches (parse_file f) o
  | CValid s o => Bool.eqb (valid_pubkey s) o
  end.

(* ---------- the property, evaluated on the observed data only ---------- *)
Definition subset (a b : list string) : bool := forallb (fun x => str_in x b) a.
Definition seteq (a b : list string) : bool := subset a b && subset b a.
Definition without (x : string) (l : list string) : list string := filter (fun y => negb (String.eqb y x)) l.

(* same effective policy: the two peer sets and the four scalars *)
Definition eff_eqb (a b : policy) : bool :=
  (p_reserve a =? p_reserve b)%Z && seteq (p_allow a) (p_allow b) && seteq (p_susp a) (p_susp b) &&
  Bool.eqb (p_accept_all a) (p_accept_all b) && (p_min_swap a =? p_min_swap b)%Z &&
  Bool.eqb (p_allow_new a) (p_allow_new b).

Definition with_allow (p : policy) (l : list string) : policy :=
  mkPolicy (p_reserve p) l (p_susp p) (p_accept_all p) (p_min_swap p) (p_allow_new p).
Definition with_susp (p : policy) (l : list string) : policy :=
  mkPolicy (p_reserve p) (p_allow p) l (p_accept_all p) (p_min_swap p) (p_allow_new p).
Definition with_new (p : policy) (b : bool) : policy :=
  mkPolicy (p_reserve p) (p_allow p) (p_susp p) (p_accept_all p) (p_min_swap p) b.

(* a 33-byte key in lower-case hex *)
Definition spec_valid_pubkey (s : string) : bool :=
  Nat.eqb (String.length s) 66 &&
  forallb (fun c => str_in (String c "") ["0";"1";"2";"3";"4";"5";"6";"7";"8";"9";"a";"b";"c";"d";"e";"f"]) (chars s).

(* the abstract policy machine of the property: what an operation must do to the
   effective policy; (true, _) = must be rejected with nothing changed *)
Definition spec_step (b : policy) (o : op) : bool * policy :=
  match o with
  | OAddAllow pk => if str_in pk (p_allow b) || negb (spec_valid_pubkey pk) then (true, b)
                    else (false, with_allow b (p_allow b ++ [pk]))
  | OAddSusp pk => if str_in pk (p_susp b) || negb (spec_valid_pubkey pk) then (true, b)
                   else (false, with_susp b (p_susp b ++ [pk]))
  | ORemAllow pk => if negb (str_in pk (p_allow b)) || negb (spec_valid_pubkey pk) then (true, b)
                    else (false, with_allow b (without pk (p_allow b)))
  | ORemSusp pk => if negb (str_in pk (p_susp b)) || negb (spec_valid_pubkey pk) then (true, b)
                   else (false, with_susp b (without pk (p_susp b)))
  | ODisable => (false, with_new b false)
  | OEnable => (false, with_new b true)
  | OReload | ORestart | OExtWrite _ => (false, b)
  end.

Definition is_ext (o : op) : bool := match o with OExtWrite _ => true | _ => false end.

(* [b], [fb]: policy in memory and file before the step; [clean]: the file
   reloaded to the policy in memory before the step (always true unless the
   operator edited the file and has not reloaded yet) *)
Definition monitor_step (b : policy) (fb : string) (clean : bool) (o : op) (ob : obs) : bool :=
  let a := o_mem ob in
  (* the next request sees the policy in memory *)
  Bool.eqb (o_allowed ob) (p_accept_all a || str_in (op_arg o) (p_allow a)) &&
  Bool.eqb (o_susp ob) (str_in (op_arg o) (p_susp a)) &&
  Bool.eqb (o_new ob) (p_allow_new a) &&
  (* an operation that fails leaves the policy in memory alone *)
  (if o_err ob then policy_eqb a b else true) &&
  (if is_ext o then policy_eqb a b
   else if clean then
     let '(rej, want) := spec_step b o in
     if rej then o_err ob && policy_eqb a b && String.eqb (o_file ob) fb
     else negb (o_err ob) && eff_eqb a want &&
          match o_reload ob with Some q => eff_eqb q a | None => false end
   else
     (* file edited by the operator: a successful reload/restart adopts it *)
     match o with
     | OReload | ORestart =>
         if o_err ob then true else match o_reload ob with Some q => eff_eqb q a | None => false end
     | _ => true
     end).

Fixpoint monitor_steps (b : policy) (fb : string) (clean : bool) (steps : list (op * obs)) : bool :=
  match steps with
  | [] => true
  | (o, ob) :: r =>
      monitor_step b fb clean o ob &&
      monitor_steps (o_mem ob) (o_file ob)
        (match o_reload ob with Some q => eff_eqb q (o_mem ob) | None => false end) r
  end.

Definition c25_monitor (c : c25_case) : bool :=
  match c with
  | CSeq f0 (Some p) steps => monitor_steps p f0 true steps
  | CSeq _ None steps => match steps with [] => true | _ => false end
  | CParse _ _ => true
  | CValid s o => Bool.eqb o (spec_valid_pubkey s)
  end.
