(* Correspondence / monitor functions for C29 (evaluated on harness cases). *)
From Coq Require Import String ZArith Bool List.
From PS Require Import Base.Corr Model.VersionDb Gen.SwapStatesC29.
Import ListNotations.
Open Scope Z_scope.

Definition code_is_finished := is_finished swap_is_finished_table.
Definition code_has_active_swaps := has_active_swaps swap_is_finished_table.
Definition code_safe_upgrade := safe_upgrade swap_is_finished_table db_version_current.

Inductive c29_case :=
| C29Case (stored : option string) (swaps : list swap_rec)
          (obs_has_active : option bool)      (* HasActiveSwaps before the start; None = error *)
          (obs_err : Z)                       (* SafeUpgrade: 0 ok, 1 ActiveSwapsError, 2 other error *)
          (obs_stored_after : option string)
          (obs_swaps_unchanged : bool)        (* swaps bucket byte-identical before/after *)
          (obs_second_err : Z).               (* a second SafeUpgrade on the same file *)

Definition err_code (e : up_err) : Z := match e with UOk => 0 | UActive => 1 | UOther => 2 end.

Definition swap_rec_eqb (a b : swap_rec) : bool :=
  match a, b with
  | SwState x, SwState y => String.eqb x y
  | SwCorrupt, SwCorrupt => true
  | _, _ => false
  end.

Definition c29_check (c : c29_case) : bool :=
  match c with
  | C29Case stored swaps oha oerr oafter ounch osecond =>
      let d := mkDb stored swaps in
      let '(d', e) := code_safe_upgrade d in
      opt_eqb Bool.eqb (code_has_active_swaps swaps) oha &&
      (err_code e =? oerr) &&
      opt_eqb String.eqb (db_version d') oafter &&
      Bool.eqb (list_eqb swap_rec_eqb (db_swaps d') swaps) ounch &&
      (err_code (snd (code_safe_upgrade d')) =? osecond)
  end.

(* ---------- the property's own statement on the observed data ----------
   "terminal" is taken from the state tables, not from IsFinished: a state of the
   tables that accepts no event in any table that contains it. *)
Definition no_events (s : string) : bool :=
  let rows := filter (fun r => String.eqb (snd (fst r)) s) swap_state_tables in
  match rows with
  | [] => false
  | _ => forallb (fun r => Nat.eqb (snd r) 0) rows
  end.

Definition all_terminal_obs (swaps : list swap_rec) : bool :=
  forallb (fun r => match r with SwState s => no_events s | SwCorrupt => false end) swaps.

Definition c29_monitor (c : c29_case) : bool :=
  match c with
  | C29Case stored swaps _ oerr oafter ounch osecond =>
      let changed := negb (opt_eqb String.eqb stored oafter) in
      let at_current o := opt_eqb String.eqb o (Some db_version_current) in
      (* replaced only if every swap is terminal — and then by the current version, startup succeeding *)
      (if changed then all_terminal_obs swaps && at_current oafter && (oerr =? 0) else true) &&
      (* a replacement is due and some swap is not terminal: startup fails *)
      (if negb (at_current stored) && negb (all_terminal_obs swaps) then negb (oerr =? 0) else true) &&
      (* a failed startup leaves the stored version unchanged; the swaps are never touched *)
      (if negb (oerr =? 0) then negb changed else true) &&
      ounch &&
      (* a successful startup means the database is at the current version, and stays startable *)
      (if oerr =? 0 then at_current oafter && (osecond =? 0) else true) &&
      (* no active swap: startup succeeds *)
      (if all_terminal_obs swaps then oerr =? 0 else true)
  end.
