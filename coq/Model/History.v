(* Histories of one swap: sequences of service entry points, each with the
   environment's answers for that step, with crashes at any effect boundary
   followed by a restart from the last persisted record.  Executable. *)
From Coq Require Import String ZArith Bool List.
From RecordUpdate Require Import RecordSet.
From PS Require Import Base.Wrap Model.Data Model.Actions Model.Fsm.
Import ListNotations RecordSetNotations.
Open Scope Z_scope.

Inductive hitem :=
| HStep (i : input) (w : world)               (* the entry point runs to completion *)
| HCrash (i : input) (w : world) (k : nat).   (* the process dies after the k-th effect of this step; then restarts *)

Record hstate := mkH {
  hs_machine : option machine;   (* None: no record of the swap exists (crash before the first persist) *)
  hs_conf_watch : bool;          (* a confirmation watch was registered in the current process *)
  hs_csv_watch : bool;           (* a CSV watch was registered in the current process *)
  hs_timer : bool;               (* a negotiation timeout was armed in the current process *)
  hs_down : bool;                (* the process crashed and has not run RecoverSwaps yet *)
  hs_trace : list effect }.      (* everything that happened, oldest first *)

(* the data of the last DURABLE record while walking a trace *)
Definition lp_step (lp : swap_data) (e : effect) : swap_data :=
  match e with EPersist _ d true => d | _ => lp end.
Definition lp_end (lp : swap_data) (es : list effect) : swap_data := fold_left lp_step es lp.

(* boolean trace monitor: every effect is checked against the record that was durable when it happened *)
Fixpoint trace_okb (Pb : swap_data -> effect -> bool) (lp : swap_data) (es : list effect) : bool :=
  match es with
  | [] => true
  | e :: r => Pb lp e && trace_okb Pb (lp_step lp e) r
  end.

Definition last_persist (es : list effect) : option (string * swap_data) :=
  fold_left (fun acc e => match e with EPersist s d true => Some (s, d) | _ => acc end) es None.

(* the machine RecoverSwaps rebuilds from the store: state and data of the last
   record written; in-memory fields (retry counter) are lost.  [m_prev] is not
   tracked by EPersist (it only feeds log messages). *)
Definition restore (m : machine) (tr : list effect) : option machine :=
  match last_persist tr with
  | Some (s, d) => Some (m <| m_cur := s |> <| m_prev := EmptyString |> <| m_data := d |> <| m_retries := 0 |>)
  | None => None
  end.

Definition is_watch_conf (e : effect) : bool := match e with EWatchConf _ _ _ _ => true | _ => false end.
Definition is_watch_csv (e : effect) : bool := match e with EWatchCsv _ _ _ _ => true | _ => false end.
Definition is_arm_timer (e : effect) : bool := match e with EArmTimer => true | _ => false end.

(* the (event, context) pairs the service layer issues through plain SendEvent handlers *)
Definition service_event (fresh : bool) (ev : string) (ctx : option wire_msg) : bool :=
  match ctx with
  | Some (MOutReq _) => fresh && (String.eqb ev "Event_OnSwapOutStarted" || String.eqb ev "Event_OnSwapOutRequestReceived")
  | Some (MInReq _) => fresh && String.eqb ev "Event_SwapInSender_OnSwapInRequested"
  | Some (MOutAgr _) => negb fresh && String.eqb ev "Event_OnFeeInvoiceReceived"
  | Some (MInAgr _) => negb fresh && String.eqb ev "Event_SwapInSender_OnAgreementReceived"
  | Some (MOtb _) => negb fresh && String.eqb ev "Event_OnTxOpenedMessage"
  | Some (MCancel _) => negb fresh && String.eqb ev "Event_OnCancelReceived"
  | Some (MCoop _) => negb fresh && String.eqb ev "Event_OnCoopCloseReceived"
  | None => negb fresh && (String.eqb ev "Event_OnFeeInvoicePaid" || String.eqb ev "Event_OnClaimInvoicePaid")
  end.

(* what the environment may do next: callbacks only from what was registered in
   this process; requests only create swaps; restarts only after a crash or at will *)
Definition input_allowed (h : hstate) (m : machine) (i : input) : bool :=
  let fresh := String.eqb (m_cur m) EmptyString in
  if hs_down h then (match i with InRecover => true | _ => false end) else
  match i with
  | InEvent ev ctx => service_event fresh ev ctx
  | InRequestIn _ => fresh
  | InTxConfirmed _ _ => negb fresh && hs_conf_watch h
  | InCsvPassed => negb fresh && hs_csv_watch h
  | InTimeout => negb fresh && hs_timer h
  | InRecover => negb fresh
  end.

Section Hist.
Variable tc : tl_consts.
Variable decode : string -> option (string * Z * Z).
Variable t : table.
Variable terminal : list string.

Definition item_input (it : hitem) : input := match it with HStep i _ | HCrash i _ _ => i end.
Definition is_recover (i : input) : bool := match i with InRecover => true | _ => false end.

Definition hist_step (h : hstate) (it : hitem) : hstate :=
  match hs_machine h with
  | None => h
  | Some m0 =>
    (* RecoverSwaps always starts from the stored record; a restart is a new process *)
    let restartp := is_recover (item_input it) in
    match (if restartp then restore m0 (hs_trace h) else Some m0) with
    | None => mkH None false false false false (hs_trace h)
    | Some m =>
      let cw := if restartp then false else hs_conf_watch h in
      let sw := if restartp then false else hs_csv_watch h in
      let tm := if restartp then false else hs_timer h in
      match it with
      | HStep i w =>
          let '(o, _, es) := run_step tc decode t terminal m i w in
          mkH (Some (o_machine o))
              (cw || existsb is_watch_conf es) (sw || existsb is_watch_csv es) (tm || existsb is_arm_timer es)
              false (hs_trace h ++ es)
      | HCrash i w k =>
          let '(_, _, es) := run_step tc decode t terminal m i w in
          let tr := hs_trace h ++ firstn k es in
          mkH (restore m tr) false false false true tr
      end
    end
  end.

Definition run_hist (h0 : hstate) (its : list hitem) : hstate := fold_left hist_step its h0.

(* validity of a history: every input is one the environment can produce at that point *)
Fixpoint hist_ok (h : hstate) (its : list hitem) : bool :=
  match its with
  | [] => true
  | it :: r =>
      match hs_machine h with
      | None => true
      | Some m => input_allowed h m (item_input it) && hist_ok (hist_step h it) r
      end
  end.

End Hist.

(* a swap that does not exist yet: the state machine object the service creates *)
Definition fresh_data (peer initiator privkey : string) : swap_data :=
  mkData None None None None None None None peer initiator privkey
         EmptyString 0 EmptyString 0 false EmptyString EmptyString EmptyString EmptyString None EmptyString.

Definition fresh_machine (id : string) (ty role : Z) (peer initiator privkey : string) : machine :=
  mkMachine id ty role EmptyString EmptyString (fresh_data peer initiator privkey) 0.

Definition init_hstate (m : machine) : hstate := mkH (Some m) false false false false [].
