(* Swap data, messages, effects and the environment ("world") of one state
   machine step.  Mirrors swap/swap.go, swap/messages.go, swap/services.go.
   Executable definitions only. *)
From Coq Require Import String ZArith Bool List.
From PS Require Import Base.Wrap.
Import ListNotations.
Open Scope Z_scope.

(* ---------- wire messages (swap/messages.go) ---------- *)
Record req := mkReq {
  rq_version : Z; rq_id : string; rq_network : string; rq_asset : string;
  rq_scid : string; rq_amount : Z; rq_pubkey : string; rq_limit : Z }.
Record in_agr := mkInAgr { ia_version : Z; ia_id : string; ia_pubkey : string; ia_premium : Z }.
Record out_agr := mkOutAgr { oa_version : Z; oa_id : string; oa_pubkey : string; oa_payreq : string; oa_premium : Z }.
Record otb := mkOtb { ob_id : string; ob_payreq : string; ob_txid : string; ob_vout : Z; ob_blinding : string }.
Record coop := mkCoop { cc_id : string; cc_message : string; cc_privkey : string }.
Record cancel := mkCancel { cn_id : string; cn_message : string }.

Inductive wire_msg :=
| MInReq (r : req) | MOutReq (r : req) | MInAgr (a : in_agr) | MOutAgr (a : out_agr)
| MOtb (o : otb) | MCoop (c : coop) | MCancel (c : cancel).

(* ---------- SwapData (fields that influence control flow or observables) ---------- *)
Record swap_data := mkData {
  d_in_req : option req; d_in_agr : option in_agr;
  d_out_req : option req; d_out_agr : option out_agr;
  d_otb : option otb; d_coop : option coop; d_cancel : option cancel;
  d_peer : string; d_initiator : string;
  d_privkey : string;            (* hex of PrivkeyBytes *)
  d_fee_preimage : string; d_opening_fee : Z; d_opening_hex : string;
  d_start_height : Z; d_start_set : bool;
  d_claim_txid : string; d_claim_hash : string; d_claim_preimage : string;
  d_blinding_hex : string;
  d_next_msg : option wire_msg;
  d_fsm_state : string }.

Definition btc_chain : string := "btc".
Definition lbtc_chain : string := "lbtc".

Definition str_nonempty (s : string) : bool := negb (String.eqb s "").

Definition first_some {A} (l : list (option A)) : option A :=
  fold_right (fun x acc => match x with Some _ => x | None => acc end) None l.

(* getters in the order the Go code consults the messages *)
Definition get_version (d : swap_data) : Z :=
  match d_in_req d, d_out_req d, d_in_agr d, d_out_agr d with
  | Some r, _, _, _ => rq_version r
  | None, Some r, _, _ => rq_version r
  | None, None, Some a, _ => ia_version a
  | None, None, None, Some a => oa_version a
  | None, None, None, None => 0
  end.

Definition get_id (d : swap_data) : option string :=
  match d_in_req d, d_out_req d, d_in_agr d, d_out_agr d with
  | Some r, _, _, _ => Some (rq_id r)
  | None, Some r, _, _ => Some (rq_id r)
  | None, None, Some a, _ => Some (ia_id a)
  | None, None, None, Some a => Some (oa_id a)
  | None, None, None, None => None
  end.

Definition get_request (d : swap_data) : option req :=
  match d_in_req d with Some r => Some r | None => d_out_req d end.

Definition get_scid (d : swap_data) : string := match get_request d with Some r => rq_scid r | None => "" end.
Definition get_amount (d : swap_data) : Z := match get_request d with Some r => rq_amount r | None => 0 end.
Definition get_asset (d : swap_data) : string := match get_request d with Some r => rq_asset r | None => "" end.
Definition get_network (d : swap_data) : string := match get_request d with Some r => rq_network r | None => "" end.

Definition get_chain (d : swap_data) : string :=
  if str_nonempty (get_asset d) && negb (str_nonempty (get_network d)) then lbtc_chain
  else if negb (str_nonempty (get_asset d)) && str_nonempty (get_network d) then btc_chain
  else "".

(* GetClaimAmount: uint64(int64(Amount) + Premium) for swap-out; a nil agreement panics in Go:
   modelled as None (the harness reports a panic as an observable). *)
Definition get_claim_amount (d : swap_data) : option Z :=
  match d_in_req d, d_out_req d with
  | Some r, _ => Some (rq_amount r)
  | None, Some r => match d_out_agr d with Some a => Some (u64 (rq_amount r + oa_premium a)) | None => None end
  | None, None => Some 0
  end.

Definition get_opening_amount (d : swap_data) : option Z :=
  match d_in_req d, d_out_req d with
  | Some r, _ => match d_in_agr d with Some a => Some (u64 (rq_amount r + ia_premium a)) | None => None end
  | None, Some r => Some (rq_amount r)
  | None, None => Some 0
  end.

Definition get_maker_pubkey (d : swap_data) : string :=
  match d_in_req d, d_out_agr d with
  | Some r, _ => rq_pubkey r | None, Some a => oa_pubkey a | None, None => "" end.
Definition get_taker_pubkey (d : swap_data) : string :=
  match d_out_req d, d_in_agr d with
  | Some r, _ => rq_pubkey r | None, Some a => ia_pubkey a | None, None => "" end.

(* ---------- timelock policy (swap/timelock.go); constants come from Gen ---------- *)
Record tl_policy := mkPolicy {
  p_csv : Z; p_window : Z; p_final_cltv : Z; p_max_total : Z; p_allow_new : bool }.

Record tl_consts := mkTlConsts {
  tc_legacy_version : Z; tc_current_version : Z;
  tc_btc : tl_policy; tc_lbtc_legacy : tl_policy; tc_lbtc_v7 : tl_policy;
  tc_csv_btc : Z; tc_csv_lbtc : Z     (* Validator.GetCSVHeight() of the Bitcoin / Liquid validator *) }.

(* validator.GetCSVHeight() for the swap's chain *)
Definition csv_height (tc : tl_consts) (d : swap_data) : Z :=
  if String.eqb (get_chain d) btc_chain then tc_csv_btc tc else tc_csv_lbtc tc.

Definition timelock_policy (tc : tl_consts) (d : swap_data) : option tl_policy :=
  let v := get_version d in
  let c := get_chain d in
  if String.eqb c btc_chain then
    if (v =? tc_legacy_version tc) || (v =? tc_current_version tc) then Some (tc_btc tc) else None
  else if String.eqb c lbtc_chain then
    if v =? tc_legacy_version tc then Some (tc_lbtc_legacy tc)
    else if v =? tc_current_version tc then Some (tc_lbtc_v7 tc)
    else None
  else None.

Definition zero_policy : tl_policy := mkPolicy 0 0 0 0 false.

(* ---------- effects: the mutating calls on swap/services.go interfaces ---------- *)
Record opening_result := mkOpening { or_hex : string; or_txid : string; or_vout : Z }.

Inductive pay_kind := PKClaim | PKFee.
Inductive spend_kind := SKPreimage | SKCsv | SKCoop.

Inductive effect :=
| EPersist (state : string) (d : swap_data) (ok : bool)      (* store write; ok = it became durable *)
| ESend (peer : string) (m : wire_msg)
| ERetransStart                                    (* MessengerManager.AddSender succeeded *)
| ERetransStop
| EArmTimer
| EPayFee (payreq scid : string) (res : option string)
| EPayClaim (payreq scid : string) (max_total_cltv : Z) (tip : Z) (res : option string)   (* tip: chain height polled just before *)
| ERecoverPay (payreq : string) (res : option string)
| EValidate (taker maker hash : string) (amount csv : Z) (blinding hex : string) (res : option bool)
| EMkInvoice (kind : pay_kind) (msat : Z) (preimage : string) (expiry cltv : Z)
| EBroadcastOpening (taker maker hash : string) (amount csv : Z) (with_blinding : bool) (res : option opening_result)
| EBroadcastSpend (kind : spend_kind) (res : option string)
| EWatchConf (txid : string) (vout start window : Z)
| EWatchCsv (txid : string) (vout start csv : Z)
| ENotifier (payreq : string) (kind : pay_kind)
| ESuspicious (peer : string)
| ERequestedSwapLog.

(* ---------- world: answers of the services during ONE step, as per-kind queues ---------- *)
Record world := mkWorld {
  (* configuration *)
  w_swaps_allowed : bool; w_liquid_enabled : bool; w_bitcoin_enabled : bool;
  w_min_amount_msat : Z; w_peer_allowed : bool; w_peer_suspicious : bool;
  w_wallet_asset : string; w_wallet_network : string;
  w_premium : option Z;                               (* premium.Setting.Compute for this peer/asset/direction/amount *)
  w_own_pubkey : string;                              (* pubkey of the swap's private key (crypto not modelled) *)
  w_hashes : list (string * string);                  (* preimage -> sha256, for the preimages in play *)
  (* queues *)
  q_height : list (option Z);
  q_send : list bool;
  q_store : list bool;
  q_pay : list (option string);
  q_recover_pay : list (option string);
  q_payfee : list (option string);
  q_mkinvoice : list (option string);
  q_fee_est : list (option Z);
  q_balance : list (option Z);
  q_spendable : list (option Z);
  q_probe : list (option bool);
  q_create_opening : list (option opening_result);
  q_spend : list (option string);
  q_script : list bool;
  q_validate : list (option bool);
  q_addsender : list bool;
  q_addsusp : list bool;
  q_preimage : list (string * string);     (* fresh (preimage hex, hash hex) *)
  q_blind : list string;                   (* fresh blinding keys *)
  w_overrun : bool                         (* a queue was empty when consulted *)
}.
