(* C06, adapter side: what the lnd adapter's RebalancePayment reports for a scripted stream of payment updates.
   The state machine reads an error as "the claim payment did not go out" (and may then send coop_close with the
   taker's key), so the adapter may report an error only when lnd reported FAILED or the connection to lnd broke -
   never on its own initiative while lnd still reports the HTLC in flight. *)
From Coq Require Import String Bool List Arith.
From PS Require Import Base.Corr.
Import ListNotations.

Inductive pay_update := PUnknown | PInFlight | PSucceeded | PFailed | PStreamError | POpenError.

Inductive pay_outcome := OPaid | OFailedByLnd | OConnectionLost.

(* sendPaymentV2: read updates until the first final one; returns the outcome and how many updates were read *)
Fixpoint pay_stream (us : list pay_update) (n : nat) : pay_outcome * nat :=
  match us with
  | [] => (OConnectionLost, n)                      (* stream closed by lnd *)
  | PSucceeded :: _ => (OPaid, S n)
  | PFailed :: _ => (OFailedByLnd, S n)
  | PStreamError :: _ => (OConnectionLost, S n)
  | POpenError :: _ => (OConnectionLost, n)
  | _ :: r => pay_stream r (S n)
  end.

Record ps_case := mkPs { ps_script : list pay_update; ps_ok : bool; ps_deadline : bool; ps_consumed : nat }.

Definition is_paid (o : pay_outcome) : bool := match o with OPaid => true | _ => false end.

Definition ps_check (c : ps_case) : bool :=
  let '(o, n) := pay_stream (ps_script c) 0 in
  Bool.eqb (is_paid o) (ps_ok c) && Nat.eqb n (ps_consumed c).

(* on observed data: success only after SUCCEEDED; an error only after FAILED / a broken connection, i.e. every update
   read before it was final or the stream ended; and the adapter puts no deadline of its own on the stream (with
   one it would report an error while the HTLC is still in flight) *)
Definition final_or_end (us : list pay_update) (n : nat) : bool :=
  Nat.leb (length us) n ||
  match n with
  | O => match us with POpenError :: _ => true | _ => false end
  | S k => match nth_error us k with
           | Some PSucceeded | Some PFailed | Some PStreamError => true
           | _ => false
           end
  end.

Definition ps_monitor (c : ps_case) : bool :=
  negb (ps_deadline c) &&
  (if ps_ok c then match ps_consumed c with S k => match nth_error (ps_script c) k with Some PSucceeded => true | _ => false end | O => false end
   else final_or_end (ps_script c) (ps_consumed c) &&
        match ps_consumed c with S k => match nth_error (ps_script c) k with Some PSucceeded => false | _ => true end | O => true end).
