(* policy/policy.go: the policy file parser (create -> go-flags IniParser), the
   file edits (addLineToFile / removeLineFromFile) and the operations.
   Executable model, no proofs. The key table, option group names, defaults and
   the lines written by the operations come from Gen/ConstsPolicy.v (dumped from
   the running code). Only policies that have a file (path <> "") are modelled;
   file system errors are not modelled. *)
From Coq Require Import String Ascii ZArith NArith Bool List.
From PS Require Import Base.Strs Model.Ini Gen.ConstsPolicy.
Import ListNotations.
Open Scope string_scope.

Record policy := mkPolicy {
  p_reserve : Z;              (* ReserveOnchainMsat uint64 *)
  p_allow : list string;      (* PeerAllowlist *)
  p_susp : list string;       (* SuspiciousPeerList *)
  p_accept_all : bool;        (* AcceptAllPeers *)
  p_min_swap : Z;             (* MinSwapAmountMsat uint64 *)
  p_allow_new : bool          (* AllowNewSwaps *)
}.

Inductive pfield := FReserve | FAllow | FSusp | FAcceptAll | FMinSwap | FAllowNew.

(* Go struct field name -> model field, with the kind the model assumes for it *)
Definition field_of_name (s : string) : option (pfield * string) :=
  if String.eqb s "ReserveOnchainMsat" then Some (FReserve, "uint64")
  else if String.eqb s "PeerAllowlist" then Some (FAllow, "[]string")
  else if String.eqb s "SuspiciousPeerList" then Some (FSusp, "[]string")
  else if String.eqb s "AcceptAllPeers" then Some (FAcceptAll, "bool")
  else if String.eqb s "MinSwapAmountMsat" then Some (FMinSwap, "uint64")
  else if String.eqb s "AllowNewSwaps" then Some (FAllowNew, "bool")
  else None.

Fixpoint assoc (k : string) (l : list (string * string)) : option string :=
  match l with
  | [] => None
  | (a, b) :: r => if String.eqb a k then Some b else assoc k r
  end.

Inductive keyres := KUnknown | KField (f : pfield) | KUnsup.

(* optionByName through the generated table; a table entry the model does not
   understand (new field, other kind) is KUnsup *)
Definition lookup_key_in (keys kinds : list (string * string)) (k : string) : keyres :=
  match assoc k keys with
  | None => KUnknown
  | Some fname =>
      match field_of_name fname, assoc fname kinds with
      | Some (f, kind), Some kind' => if String.eqb kind kind' then KField f else KUnsup
      | _, _ => KUnsup
      end
  end.

Definition lookup_key : string -> keyres := lookup_key_in policy_keys policy_field_kinds.

Definition str_in (s : string) (l : list string) : bool := existsb (String.eqb s) l.

(* strconv.ParseBool; go-flags turns an empty value into true *)
Definition parse_bool (v : string) : option bool :=
  if String.eqb v "" then Some true
  else if str_in v ["1"; "t"; "T"; "TRUE"; "true"; "True"] then Some true
  else if str_in v ["0"; "f"; "F"; "FALSE"; "false"; "False"] then Some false
  else None.

Definition max_uint64 : Z := 18446744073709551615.

(* strconv.ParseUint(v, 10, 64) *)
Definition parse_u64 (v : string) : option Z :=
  match chars v with
  | [] => None
  | cs => if forallb is_digit cs
          then (let n := dec_value cs in if (n <=? max_uint64)%Z then Some n else None)
          else None
  end.

Definition set_field (f : pfield) (v : string) (p : policy) : option policy :=
  match f with
  | FReserve => match parse_u64 v with
                | Some n => Some (mkPolicy n (p_allow p) (p_susp p) (p_accept_all p) (p_min_swap p) (p_allow_new p))
                | None => None end
  | FAllow => Some (mkPolicy (p_reserve p) (p_allow p ++ [v]) (p_susp p) (p_accept_all p) (p_min_swap p) (p_allow_new p))
  | FSusp => Some (mkPolicy (p_reserve p) (p_allow p) (p_susp p ++ [v]) (p_accept_all p) (p_min_swap p) (p_allow_new p))
  | FAcceptAll => match parse_bool v with
                  | Some b => Some (mkPolicy (p_reserve p) (p_allow p) (p_susp p) b (p_min_swap p) (p_allow_new p))
                  | None => None end
  | FMinSwap => match parse_u64 v with
                | Some n => Some (mkPolicy (p_reserve p) (p_allow p) (p_susp p) (p_accept_all p) n (p_allow_new p))
                | None => None end
  | FAllowNew => match parse_bool v with
                 | Some b => Some (mkPolicy (p_reserve p) (p_allow p) (p_susp p) (p_accept_all p) (p_min_swap p) b)
                 | None => None end
  end.

(* Group.Find compares section names with option group names case-insensitively *)
Definition is_group_name (n : string) : bool := str_in (to_lower n) (map to_lower policy_group_names).

Inductive pres := POk (p : policy) | PErr | PUnsup.

(* readIni + IniParser.parse with IgnoreUnknown. [glob] = still in the global
   section (only its values reach the options; a section that names an option
   group is outside the model because go-flags walks sections in map order).
   Slice options are emptied before the first value, so lists start empty. *)
Fixpoint parse_lines (glob : bool) (p : policy) (ls : list string) : pres :=
  match ls with
  | [] => POk p
  | t :: r =>
      match parse_line t with
      | LBlank => parse_lines glob p r
      | LBad => PErr
      | LUnsup => PUnsup
      | LHeader n => if is_group_name n then PUnsup else parse_lines false p r
      | LKV k v =>
          if glob then
            match lookup_key k with
            | KUnknown => parse_lines glob p r
            | KUnsup => PUnsup
            | KField f =>
                match set_field f v p with
                | Some p' => parse_lines glob p' r
                | None => PErr
                end
            end
          else parse_lines glob p r
      end
  end.

Definition start_policy : policy :=
  mkPolicy default_policy_reserve [] [] default_policy_accept_all default_policy_min_swap default_policy_allow_new.

Definition parse_file (f : string) : pres := parse_lines true start_policy (lines f).

(* isValidPubkey: ^[0-9a-f]{66}?\z *)
Definition is_hex_lower (c : ascii) : bool :=
  let n := N_of_ascii c in (((48 <=? n) && (n <=? 57)) || ((97 <=? n) && (n <=? 102)))%N.
Definition valid_pubkey (s : string) : bool :=
  Nat.eqb (String.length s) 66 && forallb is_hex_lower (chars s).

(* ---------- file edits ---------- *)
(* addLineToFile: O_APPEND write of line + "\n", preceded by "\n" when the file
   is not empty and does not end in a newline *)
Definition add_line (f line : string) : string :=
  f ++ (if ends_nl f then EmptyString else String nl EmptyString) ++ line ++ String nl EmptyString.

(* removeLineFromFile: rewrite the file from the scanner tokens textually different from [line] *)
Definition remove_line (f line : string) : string :=
  unlines (filter (fun t => negb (String.eqb t line)) (scan_lines f)).

Definition line_allow (pk : string) : string := line_allow_prefix ++ pk.
Definition line_susp (pk : string) : string := line_susp_prefix ++ pk.
Definition line_swaps_true : string := "allow_new_swaps=true".
Definition line_swaps_false : string := "allow_new_swaps=false".

(* ---------- operations ---------- *)
Record st := mkSt { s_file : string; s_mem : policy }.

Inductive op :=
| OAddAllow (pk : string) | ORemAllow (pk : string)
| OAddSusp (pk : string) | ORemSusp (pk : string)
| ODisable | OEnable
| OReload                       (* ReloadFile *)
| ORestart                      (* CreateFromFile on the same path; a failing start keeps the old node state *)
| OExtWrite (content : string). (* the operator edits the file *)

(* ReloadFile: on a parse error the policy in memory is unchanged. result: true = error *)
Definition reload (f : string) (m : policy) : bool * st :=
  match parse_file f with
  | POk p => (false, mkSt f p)
  | _ => (true, mkSt f m)
  end.

Definition step (s : st) (o : op) : bool * st :=
  let f := s_file s in
  let m := s_mem s in
  match o with
  | OAddAllow pk =>
      if str_in pk (p_allow m) then (true, s)
      else if negb (valid_pubkey pk) then (true, s)
      else reload (add_line f (line_allow pk)) m
  | OAddSusp pk =>
      if str_in pk (p_susp m) then (true, s)
      else if negb (valid_pubkey pk) then (true, s)
      else reload (add_line f (line_susp pk)) m
  | ORemAllow pk =>
      if negb (valid_pubkey pk) then (true, s)
      else if negb (str_in pk (p_allow m)) then (true, s)
      else reload (remove_line f (line_allow pk)) m
  | ORemSusp pk =>
      if negb (valid_pubkey pk) then (true, s)
      else if negb (str_in pk (p_susp m)) then (true, s)
      else reload (remove_line f (line_susp pk)) m
  | ODisable =>
      if negb (p_allow_new m) then (false, s)
      else reload (add_line (remove_line f line_swaps_true) line_swaps_false) m
  | OEnable =>
      if p_allow_new m then (false, s)
      else reload (add_line (remove_line f line_swaps_false) line_swaps_true) m
  | OReload => reload f m
  | ORestart => reload f m
  | OExtWrite c => (false, mkSt c m)
  end.

Fixpoint run (s : st) (ops : list op) : st :=
  match ops with
  | [] => s
  | o :: r => run (snd (step s o)) r
  end.

(* the request-time queries *)
Definition is_peer_allowed (m : policy) (pk : string) : bool := p_accept_all m || str_in pk (p_allow m).
Definition is_peer_suspicious (m : policy) (pk : string) : bool := str_in pk (p_susp m).
Definition new_swaps_allowed (m : policy) : bool := p_allow_new m.
