(* Helpers shared by every generated correspondence file (cases_*.v). *)
From Coq Require Import List String Ascii ZArith NArith Bool.
Import ListNotations.

(* bytes given as numbers -> Coq string (used for non-printable strings) *)
Fixpoint bs (l : list N) : string :=
  match l with
  | [] => EmptyString
  | n :: r => String (ascii_of_N n) (bs r)
  end.

Fixpoint bad_indexes_from {A} (f : A -> bool) (i : nat) (l : list A) : list nat :=
  match l with
  | [] => []
  | x :: r => if f x then bad_indexes_from f (S i) r else i :: bad_indexes_from f (S i) r
  end.

(* indexes of the cases on which [f] is false *)
Definition bad_indexes {A} (f : A -> bool) (l : list A) : list nat :=
  bad_indexes_from f 0 l.

Lemma bad_indexes_from_nil {A} (f : A -> bool) l i :
  bad_indexes_from f i l = [] -> forallb f l = true.
Proof.
  revert i; induction l as [|x r IH]; intros i H; simpl in *; auto.
  destruct (f x); [eauto | discriminate].
Qed.

Definition opt_eqb {A} (e : A -> A -> bool) (a b : option A) : bool :=
  match a, b with
  | Some x, Some y => e x y
  | None, None => true
  | _, _ => false
  end.

Fixpoint list_eqb {A} (e : A -> A -> bool) (a b : list A) : bool :=
  match a, b with
  | [], [] => true
  | x :: a', y :: b' => e x y && list_eqb e a' b'
  | _, _ => false
  end.

Definition pair_eqb {A B} (ea : A -> A -> bool) (eb : B -> B -> bool)
  (a b : A * B) : bool := ea (fst a) (fst b) && eb (snd a) (snd b).
