(* String helpers used by several models (digit runs, Atoi, decimal rendering). *)
From Coq Require Import List String Ascii ZArith NArith Bool DecimalString.
Import ListNotations.
Open Scope Z_scope.

Definition is_digit (c : ascii) : bool :=
  let n := N_of_ascii c in ((48 <=? n)%N && (n <=? 57)%N)%bool.

Definition digit_val (c : ascii) : Z := Z.of_N (N_of_ascii c) - 48.

Definition chars (s : string) : list ascii := list_ascii_of_string s.

(* maximal prefix of ASCII digits, and the rest *)
Fixpoint span_digits (l : list ascii) : list ascii * list ascii :=
  match l with
  | c :: r =>
      if is_digit c then let (d, rest) := span_digits r in (c :: d, rest)
      else ([], l)
  | [] => ([], [])
  end.

Definition dec_value (ds : list ascii) : Z :=
  fold_left (fun acc c => acc * 10 + digit_val c) ds 0.

Definition max_int64 : Z := 9223372036854775807.

(* strconv.Atoi on a non-empty run of ASCII digits (64-bit int): range error above 2^63-1 *)
Definition atoi_digits (ds : list ascii) : option Z :=
  let v := dec_value ds in if v <=? max_int64 then Some v else None.

(* %d of a non-negative / any integer *)
Definition dec_of_Z (z : Z) : string := NilZero.string_of_int (Z.to_int z).
