(* Opcode type shared by the generated script (Gen/Script.v) and the
   interpreter model (Model/ScriptInterp.v).  Bytes are numbers 0..255. *)
From Coq Require Import NArith List.
Import ListNotations.

Definition bytes := list N.

(* Only the opcodes that can occur in the opening script have their own
   constructor; everything else is OP_UNKNOWN and makes the interpreter fail
   (a tie failure, never a silent default).  Every kind of data push
   (OP_0, OP_DATA_n, OP_PUSHDATA1/2/4, OP_1NEGATE, OP_1..OP_16) is OP_PUSH of
   the bytes it leaves on the stack. *)
Inductive op :=
| OP_PUSH (d : bytes)
| OP_IF | OP_NOTIF | OP_ELSE | OP_ENDIF
| OP_SIZE | OP_EQUALVERIFY | OP_SHA256 | OP_CHECKSIG
| OP_CSV                       (* OP_CHECKSEQUENCEVERIFY, 0xb2 *)
| OP_UNKNOWN (code : N).
