(* Fixed-width integer arithmetic written out explicitly (Go semantics). *)
From Coq Require Import ZArith.
Open Scope Z_scope.

Definition two32 : Z := 4294967296.
Definition two64 : Z := 18446744073709551616.
Definition two63 : Z := 9223372036854775808.

Definition u32 (x : Z) : Z := x mod two32.
Definition u64 (x : Z) : Z := x mod two64.
(* reinterpret a 64-bit pattern as signed *)
Definition i64 (x : Z) : Z := let y := x mod two64 in if y <? two63 then y else y - two64.

Definition u32_add (a b : Z) : Z := u32 (a + b).
Definition u32_sub (a b : Z) : Z := u32 (a - b).
Definition u64_add (a b : Z) : Z := u64 (a + b).
Definition u64_mul (a b : Z) : Z := u64 (a * b).
