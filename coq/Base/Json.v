(* JSON value tree and struct-schema vocabulary shared by generated schemas (Gen/) and models. *)
From Coq Require Import String ZArith List.

(* a parsed JSON document; numbers keep their literal, object members keep their order *)
Inductive jv :=
| JNull
| JBool (b : bool)
| JNum (lit : string)
| JStr (s : string)
| JArr (l : list jv)
| JObj (l : list (string * jv)).

(* kinds of Go struct fields as seen by encoding/json *)
Inductive fkind :=
| KUint (bits : Z)
| KInt (bits : Z)
| KString
| KHex32Ptr            (* pointer to a [32]byte whose codec is a lowercase hex JSON string (swap.SwapId) *)
| KOther (desc : string).

(* field: JSON name from the tag, kind, and whether the tag carries options (omitempty, string) *)
Record fspec := mk_fspec { f_name : string; f_kind : fkind; f_tagopts : bool }.
Definition schema := list fspec.
