(* Finding C25/3: a policy file with an INI section header: appended lines fall
   into that section, which the parser ignores (IgnoreUnknown). AddToAllowlist and
   DisableSwaps return nil and nothing changes. *)
From Coq Require Import String ZArith Bool List.
From PS Require Import Model.Ini Model.Policy Model.C25Corr Proofs.C25 Props.C25.
Import ListNotations.
Open Scope string_scope.

Definition f3_file : string := "[extra]" ++ String nl "".
Definition f3_ops : list op := [OAddAllow ex_pk1; ODisable].

Theorem c25_full_refuted_3 : ~ C25_full.
Proof.
  intros H. destruct (H f3_file (mkPolicy 0 [] [] false 100000000 true) f3_ops eq_refl eq_refl) as [T _].
  vm_compute in T. discriminate T.
Qed.

Example c25_finding_3_behaviour :
  run_trace (mkSt f3_file (mkPolicy 0 [] [] false 100000000 true)) f3_ops =
  [(false, mkPolicy 0 [] [] false 100000000 true); (false, mkPolicy 0 [] [] false 100000000 true)].
Proof. vm_compute. reflexivity. Qed.
Print Assumptions c25_full_refuted_3.
