(* Finding F_C21_1 (fixed in the repository by the commit named in findings/C21.json).
   The receive path BEFORE the fix (on_message with guard = false: no check after json.Unmarshal):
   (a) payload `null` for any swap message type decodes to a nil message and the code dereferences it;
   (b) payload `{}` (no swap_id) is dispatched to the handlers with a nil swap id.
   So "malformed messages are ignored without changing any swap" was false of that code. *)
From Coq Require Import String ZArith List.
From PS Require Import Base.Json Model.Wire Gen.WireC21.
Import ListNotations.
Open Scope Z_scope.

Definition on_message_before_fix := on_message false max_payload_len message_types wire_schemas.

Theorem c21_never_panics_refuted :
  exists ty len payload, on_message_before_fix ty len payload = OPanic.
Proof. exists "a45f"%string, 4, (Some JNull). vm_compute. reflexivity. Qed.

Theorem c21_missing_id_dispatched_before_fix :
  exists ty len payload t m, on_message_before_fix ty len payload = ODispatch t m /\ ids_present
    [mk_fspec "swap_id" KHex32Ptr false] (firstn 1 (skipn 1 m)) = false.
Proof.
  exists "a457"%string, 2, (Some (JObj [])). eexists. eexists. split; [vm_compute; reflexivity|]. reflexivity.
Qed.

(* every swap message type was affected *)
Theorem c21_null_panics_for_every_swap_type :
  forallb (fun '(_, (t, _)) =>
     match on_message_before_fix (hex_of_Z t) 4 (Some JNull) with OPanic => true | _ => false end) wire_schemas = true.
Proof. vm_compute. reflexivity. Qed.
