(* Refutation of C10_interleaved_full: two callers lock the same channel one after the other
   before either request is attached (the locked machines still have empty data). *)
From Coq Require Import String ZArith Bool List.
From PS Require Import Model.Data Model.Actions Model.Fsm Model.History Model.Service Proofs.C10 Props.C10.
Import ListNotations.

Definition mA := fresh_machine "A" 2 1 "peer" "me" "k1".
Definition mB := fresh_machine "B" 1 2 "peer" "peer" "k2".

Theorem C10_interleaved_refuted : ~ C10_interleaved_full.
Proof.
  intros H.
  refine (H (mkNode [] []) "A"%string "B"%string "1x2x3"%string mA mB _ _ _ _ eq_refl eq_refl).
  - apply chan_inv_empty.
  - discriminate.
Qed.
