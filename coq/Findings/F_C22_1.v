(* Finding C22-F1 (KNOWN; root cause is D10, property C09: SendEvent applies and stores the event
   context BEFORE it checks that the event is accepted).  A peer sends opening_tx_broadcasted while
   the maker still waits for the agreement: the event is rejected, but the message is kept in the
   swap data.  When the agreement arrives, CreateAndBroadcastOpeningTransaction sees
   "OpeningTxBroadcasted != nil", skips the broadcast and leaves NextMessage untouched, and
   SendMessageWithRetryAction starts a retransmitter for whatever NextMessage holds: the swap-in
   REQUEST is retransmitted every 10 s instead of opening_tx_broadcasted (and no opening
   transaction exists).  Refutes the message clause of C22_full on the model; reproduced on the
   real code by the directed scenarios of harness/c22_scen.go. *)
From Coq Require Import String ZArith Bool List.
From PS Require Import Base.Wrap Model.Data Model.Actions Model.Fsm Model.History Model.C22Corr
  Gen.ConstsSwap Gen.Tables.
Import ListNotations.
Open Scope Z_scope.
Open Scope string_scope.

Definition pk : string := "02aaaaaaaaaaaaaaaaaaaaaaaaaaaaaaaaaaaaaaaaaaaaaaaaaaaaaaaaaaaaaaaa".
Definition txid : string := "bbbbbbbbbbbbbbbbbbbbbbbbbbbbbbbbbbbbbbbbbbbbbbbbbbbbbbbbbbbbbbbb".
Definition rq : req := mkReq 7 "id" "regtest" "" "1x2x3" 200000 pk 5000.
Definition premature : otb := mkOtb "id" "lnclaim" txid 0 "".
Definition agr : in_agr := mkInAgr 7 "id" pk 100.
Definition m0 : machine := fresh_machine "id" 1 1 "peer" "me" "key".
Definition w : world :=
  mkWorld true true true 100000000 true false "" "regtest" (Some 100) pk []
    [Some 1000; Some 1000] [true; true] [true; true; true; true; true; true] [] [] [] [Some "lninv"] [] [] [] []
    [] [] [true] [] [true] [] [("aa", "bb")] [] false.

Definition history : list hitem :=
  [HStep (InEvent "Event_SwapInSender_OnSwapInRequested" (Some (MInReq rq))) w;
   HStep (InEvent "Event_OnTxOpenedMessage" (Some (MOtb premature))) w;
   HStep (InEvent "Event_SwapInSender_OnAgreementReceived" (Some (MInAgr agr))) w].

(* an ERetransStart directly followed by the send of a swap-in request *)
Fixpoint starts_with_request (es : list effect) : bool :=
  match es with
  | ERetransStart :: ((ESend _ (MInReq _) :: _) as r) => true
  | _ :: r => starts_with_request r
  | [] => false
  end.

Theorem c22_retransmits_request_refuted :
  hist_ok tl_consts_gen (fun _ => None) table_swap_in_sender terminal_states (init_hstate m0) history = true /\
  let h := run_hist tl_consts_gen (fun _ => None) table_swap_in_sender terminal_states (init_hstate m0) history in
  retrans_msg_ok (hs_trace h) = false /\ starts_with_request (hs_trace h) = true /\
  existsb (fun e => match e with EBroadcastOpening _ _ _ _ _ _ _ => true | _ => false end) (hs_trace h) = false /\
  match hs_machine h with Some m => m_cur m | None => "" end = "State_SwapInSender_AwaitClaimPayment".
Proof. vm_compute. repeat split; reflexivity. Qed.
Print Assumptions c22_retransmits_request_refuted.

From PS Require Props.C22.
Theorem c22_full_refuted : ~ PS.Props.C22.C22_full.
Proof.
  intros H. specialize (H (fun _ => None) table_swap_in_sender (or_intror eq_refl) m0 history).
  vm_compute in H. specialize (H eq_refl). destruct H as (_ & _ & H). discriminate H.
Qed.
Print Assumptions c22_full_refuted.
