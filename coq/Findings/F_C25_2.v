(* FIXED in the repo by commit cbf4d81 (addLineToFile now starts a new line first); the model
   follows the repaired code, so this refutation no longer compiles - kept as the record of the defect.
   Finding C25/2: addLineToFile appends without checking that the file ends in
   a newline: the new line is glued to an unterminated last line. Here the old
   entry turns into garbage and the new peer is not allowed, with a nil error. *)
From Coq Require Import String ZArith Bool List.
From PS Require Import Model.Ini Model.Policy Model.C25Corr Proofs.C25 Props.C25.
Import ListNotations.
Open Scope string_scope.

Definition f2_file : string := "allowlisted_peers=" ++ ex_pk1.
Definition f2_ops : list op := [OAddAllow ex_pk2].

Theorem c25_full_refuted_2 : ~ C25_full.
Proof.
  intros H. destruct (H f2_file (mkPolicy 0 [ex_pk1] [] false 100000000 true) f2_ops eq_refl eq_refl) as [T _].
  vm_compute in T. discriminate T.
Qed.

Example c25_finding_2_behaviour :
  run_trace (mkSt f2_file (mkPolicy 0 [ex_pk1] [] false 100000000 true)) f2_ops =
  [(false, mkPolicy 0 [ex_pk1 ++ "allowlisted_peers=" ++ ex_pk2] [] false 100000000 true)].
Proof. vm_compute. reflexivity. Qed.

(* second shape: the reload fails and the corrupt file stays (a restart fails too) *)
Example c25_finding_2_corrupt :
  let s' := run (mkSt "allow_new_swaps=true" (mkPolicy 0 [] [] false 100000000 true)) [OAddAllow ex_pk2] in
  parse_file (s_file s') = PErr.
Proof. vm_compute. reflexivity. Qed.
Print Assumptions c25_full_refuted_2.
