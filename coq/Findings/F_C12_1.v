(* Finding F_C12_1 (D13, FIXED by repo commit 0078b77): before the fix CheckPremiumAmount only bounded
   the premium from above.  With the old check, a swap-out responder's hugely negative premium makes
   GetClaimAmount()*1000 wrap to a payable amount above (amount+limit)*1000, and the taker's invoice
   check (equality in uint64) accepts it.  Confirmed on the real code before the fix
   (findings/replays/C12_D13_replay.json).  The old check is restated here; the statement about
   the CURRENT model (c12_in_range_exact) excludes the witness. *)
From Coq Require Import String ZArith Bool List Lia.
From PS Require Import Base.Wrap Model.Data Model.Actions Model.C12Corr Proofs.C12.
Open Scope Z_scope.

Definition check_premium_old (limit premium : Z) : bool := negb (limit <? premium).

Lemma c12_old_check_refuted :
  exists amount premium limit,
    check_premium_old limit premium = true /\
    (* the invoice amount the taker accepted: GetClaimAmount()*1000 in uint64 *)
    u64_mul (u64 (amount + premium)) 1000 = 3000000000 /\
    (amount + limit) * 1000 < 3000000000 /\
    u64_mul (u64 (amount + premium)) 1000 <> (amount + premium) * 1000.
Proof.
  exists 1000000, (-2305843009211693952), 10000. vm_compute. repeat split; try reflexivity; discriminate.
Qed.
Print Assumptions c12_old_check_refuted.

(* the repaired check rejects the witness *)
Example c12_fixed_rejects : premium_in_range 1000000 (-2305843009211693952) = false.
Proof. vm_compute. reflexivity. Qed.
