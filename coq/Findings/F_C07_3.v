(* Finding C07/3 (KNOWN): LWKRpcWallet.CreateAndBroadcastTransaction (lwk/lwkwallet.go:185-195) returns an error when
   the raw-transaction fetch from electrum fails AFTER wallet_broadcast succeeded.  The maker's action then cancels
   the swap with no record of the transaction it funded (the pattern of D6, at the wallet adapter).  Reproduced on
   the real adapter by `psh lwkwallet` (failure injected at the fetch) on every run. *)
From Coq Require Import NArith Bool.
From PS Require Import Model.C07Lwk.

Theorem C07_lwk_full_refuted : ~ C07_lwk_full.
Proof. intros H. specialize (H 4%N). vm_compute in H. specialize (H (fun X => match X with eq_refl => I end) eq_refl). discriminate H. Qed.
