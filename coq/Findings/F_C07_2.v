(* Finding C07/D7 (status known): the full statement C07_full is FALSE of the model of the code.
   Witness: swap-in sender; the process dies right after the wallet has broadcast the opening
   transaction and before the next store write (HCrash .. 3).  The last durable record is the
   one written when the agreement arrived: state AwaitAgreement, no OpeningTxBroadcasted, no
   OpeningTxHex.  After the restart the node has no record of the output it funded (both maker
   roles cancel the swap on restart since the negotiation states fail on recovery).
   Replayed on the real code by the directed scenarios "crash=3" of harness/c07_scen.go. *)
From Coq Require Import String ZArith Bool List.
From PS Require Import Model.Data Model.Actions Model.Fsm Model.History Model.FsmCorr Model.C07Corr Model.C07Table
  Gen.ConstsSwap Gen.Tables Proofs.EngineAcc Proofs.C07Exec Proofs.C07 Proofs.C07Examples Props.C07.
Import ListNotations.

Theorem C07_full_refuted : ~ C07_full.
Proof.
  intros H. unfold C07_full, C07_statement in H.
  specialize (H table_swap_in_sender (or_introl eq_refl) ex_dec "swap1"%string 1%Z 1%Z "peer"%string "me"%string "key"%string ex_its_crash).
  cbv zeta in H.
  destruct ex_crash_history as (Hok & _ & Hb & Hlast).
  destruct (bcs_split _ _ Hb) as (pre & e & post & Htr & He).
  specialize (H Hok Logic.I pre e ex_open post Htr He).
  destruct H as [(s & d & Hlp & Hm & _) _].
  fold (ex_run ex_its_crash) in Hlp. unfold ex_h0 in *. unfold ex_run in Hlast.
  unfold ex_h0 in Hlast. rewrite Hlp in Hlast. destruct Hlast as (_ & _ & Hf). congruence.
Qed.
Print Assumptions C07_full_refuted.
