(* Finding C16/C17-D14 (FIXED in the repo by commit 59a9ae7): with the state table as it was
   before the fix, a swap-in requester that is restarted while waiting for the agreement stays in
   State_SwapInSender_AwaitAgreement for ever: the state had a NoOp action, was not FailOnrecover,
   and the negotiation timeout lives only in memory.  Refuted on the model for the pre-fix table
   (the generated table with that one state definition put back). *)
From Coq Require Import String ZArith Bool List.
From PS Require Import Base.Wrap Model.Data Model.Actions Model.Fsm Model.History Model.C16Corr
  Gen.ConstsSwap Gen.Tables Proofs.C16.
Import ListNotations.
Open Scope Z_scope.
Open Scope string_scope.

Definition await_agreement_before_fix : state_def :=
  mkState (Some (ANode "NoOpAction" []))
    [("Event_Invalid_Message", "State_SendCancel"); ("Event_OnCancelReceived", "State_SwapCanceled");
     ("Event_OnTimeout", "State_SendCancel");
     ("Event_SwapInSender_OnAgreementReceived", "State_SwapInSender_BroadcastOpeningTx")] false.

Definition patch (t : table) (name : string) (sd : state_def) : table :=
  map (fun e => if String.eqb (fst e) name then (name, sd) else e) t.

Definition table_in_sender_before_fix : table :=
  patch table_swap_in_sender "State_SwapInSender_AwaitAgreement" await_agreement_before_fix.

Definition rq : req := mkReq 7 "id" "regtest" "" "1x2x3" 100000 "03aa" 1000.
Definition dat : swap_data :=
  mkData (Some rq) None None None None None None "peer" "me" "key" "" 0 "" 0 false "" "" "" "" (Some (MInReq rq))
         "State_SwapInSender_AwaitAgreement".
Definition mach : machine := mkMachine "id" 1 1 "State_SwapInSender_AwaitAgreement" "" dat 0.
Definition gw : world :=
  mkWorld true true true 0 true false "" "regtest" None "02bb" []
    [Some 30000] [] (repeat true 8) [] [] [] [] [] [] [] [] [] (repeat (Some "tx") 70) (repeat true 70) [] [] [] [] [] false.

Lemma stuck n : ~ settles tl_consts_gen (fun _ => None) table_in_sender_before_fix terminal_states n mach.
Proof. revert n. apply settles_stuck. exists gw. vm_compute. auto. Qed.

(* the abstract check says the same *)
Lemma check_fails :
  c16_stuck_states table_in_sender_before_fix terminal_states c16_need c16_rounds
  = [""; "State_SwapInSender_AwaitAgreement"; "State_SwapInSender_SendRequest"].
Proof. vm_compute. reflexivity. Qed.

Theorem c16_swap_in_await_agreement_refuted :
  exists m sd, lookup_state table_in_sender_before_fix (m_cur m) = Some sd /\ m_cur m <> "" /\
    holds tl_consts_gen (c16_need (m_cur m)) (m_data m) = true /\
    forall n, ~ settles tl_consts_gen (fun _ => None) table_in_sender_before_fix terminal_states n m.
Proof.
  exists mach, await_agreement_before_fix. split; [vm_compute; reflexivity|]. split; [discriminate|].
  split; [vm_compute; reflexivity|]. exact stuck.
Qed.
Print Assumptions c16_swap_in_await_agreement_refuted.
