(* Finding C19/2 (D18, KNOWN): SwapStateMachine.Recover reads the current state, runs the state's action on the swap
   data and persists the swap without the swap's mutex, although RecoverSwaps has put the swap into the active map
   before (lockSwap), so that a message, notification or timeout for the swap is handled by SendEvent - under the
   mutex - at the same time.  Confirmed by the race detector (findings/replays/C19_D18_replay.json: Recover vs
   setState on Current).  Not repaired: with the mutex held, recovery of a maker whose CSV has matured would run into
   the synchronous CSV callback of finding C18/1 and block. *)
From Coq Require Import NArith Bool List.
Import ListNotations.
From PS Require Import Gen.Skel Model.Skel Model.C19Corr Proofs.Skel Proofs.C19.
Open Scope N_scope.

(* (1) the pairs the full skeleton adds when the two calls are not taken out of Recover: all of them are accesses made
   by actions / the store without a lock that every caller holds *)
Theorem c19_recover_pairs_present :
  Nat.ltb 100 (length c19_full_missing) = true.
Proof. vm_compute. reflexivity. Qed.

(* (2) the pattern as a skeleton of its own:
     f0 Recover   : Rd cur; Call f2                    (cur = SwapStateMachine.Current, field 0; d = a SwapData field, 1)
     f1 SendEvent : Acq m; Wr cur; Call f2; Rel m      (m = the swap's mutex, lock 0)
     f2 Execute   : Wr d *)
Definition p2 : prog := [(0, [Rd 0; Call 2]); (1, [Acq 0; Wr 0; Call 2; Rel 0]); (2, [Wr 1])].

Theorem c19_recover_pattern_races :
  exists c i j g1 g2 f w1 w2,
    reach p2 (init p2 [0; 1]) c /\ i <> j /\
    accessing c i = Some (g1, f, w1) /\ accessing c j = Some (g2, f, w2) /\ w1 || w2 = true.
Proof.
  eexists. exists 0%nat, 1%nat, 2, 2, 1, true, true. split.
  - eapply run_reach_init with (sched := [0; 0; 1; 1; 1]%nat). vm_compute. reflexivity.
  - repeat split; try reflexivity. discriminate.
Qed.

Theorem c19_recover_pattern_rejected : forall E, lockset_check p2 E [0; 1] (fun _ _ _ => false) = false.
Proof.
  intros E. destruct (lockset_check p2 E [0; 1] (fun _ _ _ => false)) eqn:H; [|reflexivity]. exfalso.
  destruct c19_recover_pattern_races as [c [i [j [g1 [g2 [f [w1 [w2 [Hr [Hij [H1 [H2 Hw]]]]]]]]]]]].
  destruct (lockset_sound_prog p2 E [0; 1] _ H [0; 1] c (incl_refl _) Hr i j g1 g2 f w1 w2 Hij H1 H2 Hw); discriminate.
Qed.
