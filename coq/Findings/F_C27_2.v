(* Finding F_C27_2: the peer id "default" is the storage key of the global rate, so
   SetRate("default", ...) / DeleteRate("default", ...) change the rate of every other peer.
   Built separately; stops compiling when peers and the global row get distinct keys. *)
From Coq Require Import String ZArith Bool Lia List.
From PS Require Import Model.Premium Gen.ConstsPremium Model.C27Corr Proofs.C27 Props.C27.
Import ListNotations.
Open Scope Z_scope.

Lemma c27_map_refuted_by_reserved_peer :
  exists us p a o, Forall upd_fits us /\
    code_get_rate (code_run_upds [] us) p a o <> opt_res (spec_rate (spec_run [] us) (Some p) a o).
Proof.
  exists [USet "default" 1 2 7], "02c0ffee"%string, 1, 2. split.
  - repeat constructor. unfold key_fits. vm_compute. discriminate.
  - vm_compute. discriminate.
Qed.

(* setting a rate for the "peer" default makes another peer pay 7 ppm instead of the built-in 2000 *)
Example c27_alias_witness :
  code_get_rate (code_run_upds [] [USet "default" 1 2 7]) "02c0ffee" 1 2 = ROk 7 /\
  spec_rate (spec_run [] [USet "default" 1 2 7]) (Some "02c0ffee"%string) 1 2 = Some 2000.
Proof. split; reflexivity. Qed.

Lemma C27_full_refuted_by_alias : ~ C27_full.
Proof.
  intros (_ & H & _). destruct c27_map_refuted_by_reserved_peer as (us & p & a & o & F & Hne).
  apply Hne. now apply H.
Qed.
Print Assumptions C27_full_refuted_by_alias.
