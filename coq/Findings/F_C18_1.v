(* Finding C18/1 (D17, KNOWN): AwaitCsvAction / AwaitPaymentOrCsvAction call TxWatcher.AddWaitForCsvTx inline.  BlockchainRpcTxWatcher.AddWaitForCsvTx calls the CSV callback synchronously when
   the opening transaction is already past the CSV; the callback (SwapService.OnCsvPassed) calls SendEvent on the same
   swap, whose mutex is held by the SendEvent that is running the action: the goroutine waits for itself.
   The call structure is restated as a skeleton of its own; (3) below is about the generated skeleton.
   Not repaired here: registering from a goroutine in the action reorders the effects every state-machine model and
   harness of this framework observes, notifying asynchronously in the watcher changes what C20 models; see the report.
     f0 SendEvent      : Acq m; Call f1; Rel m         (m = swap.SwapStateMachine.mutex, lock 0)
     f1 AwaitCsvAction : Call f2
     f2 AddWaitForCsvTx: Call f3                        (transaction already mature: csvPassedCallback)
     f3 OnCsvPassed    : Call f0
   Replay on the real code: findings/replays/C18_D17_replay.json (psh c18, scenario rpc / long matured / cancel first). *)
From Coq Require Import NArith Bool String List.
Import ListNotations.
From PS Require Import Gen.Skel Model.Skel Model.C18Corr Proofs.Skel Proofs.C18.
Open Scope N_scope.

Definition p1 : prog := [(0, [Acq 0; Call 1; Rel 0]); (1, [Call 2]); (2, [Call 3]); (3, [Call 0])].

(* one thread is enough *)
Theorem c18_self_deadlock_prefix_refuted :
  exists c, reach p1 (init p1 [0]) c /\ deadlocked c.
Proof.
  eexists. split.
  - eapply run_reach_init with (sched := [0; 0; 0; 0; 0]%nat). vm_compute. reflexivity.
  - exists [0%nat]. split; [discriminate|]. intros i [<-|[]].
    exists 0, 0%nat. repeat split; try reflexivity. left. reflexivity.
Qed.

(* and no certificate makes the lock-order check accept this skeleton *)
Theorem c18_self_deadlock_prefix_rejected : forall A rk, lock_order_check p1 A rk = false.
Proof.
  intros A rk. destruct (lock_order_check p1 A rk) eqn:H; [|reflexivity]. exfalso.
  destruct c18_self_deadlock_prefix_refuted as [c [Hr Hd]].
  exact (lock_order_sound_prog p1 A rk H [0] c Hr Hd).
Qed.

(* (3) on the skeleton generated from the code the check fails, with the computed certificates, as soon as the call is
   not taken out; the only edge on a cycle is the self edge of the swap mutex *)
Theorem c18_full_check_refuted : c18_full_ok = false.
Proof. vm_compute. reflexivity. Qed.

Theorem c18_full_cycle_is_the_swap_mutex_self_edge :
  c18_cycle_edges_full = [("swap.SwapStateMachine.mutex"%string, "swap.SwapStateMachine.mutex"%string)].
Proof. vm_compute. reflexivity. Qed.
