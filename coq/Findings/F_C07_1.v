(* Finding C07/D6 (status FIXED by repo commit "fix: swap: look up the starting block height before
   broadcasting the opening transaction"): witness on the model of the code BEFORE the fix.

   act_cbo_before_fix is the earlier CreateAndBroadcastOpeningTransaction.Execute: wallet call first,
   GetBlockHeight afterwards.  With a failing height lookup it broadcasts the opening transaction and returns
   Event_ActionFailed with data that has no OpeningTxBroadcasted / OpeningTxHex: the swap is then cancelled
   (SendCancel -> SwapCanceled) and the output is abandoned.  The action as it is now (Model/Actions.v)
   returns Event_ActionFailed on the same inputs WITHOUT having broadcast anything.
   Replayed on the real code by the directed scenarios "plan:height_nil" of harness/c07_scen.go
   (violation before the fix, clean after). *)
From Coq Require Import String ZArith Bool List.
From RecordUpdate Require Import RecordSet.
From PS Require Import Base.Wrap Model.Data Model.Actions Model.Fsm Model.History Model.C07Corr Gen.ConstsSwap
  Proofs.C07Exec Proofs.C07Examples.
Import ListNotations RecordSetNotations.
Open Scope Z_scope.

Definition act_cbo_before_fix (tc : tl_consts) (d : swap_data) : M (string * swap_data) :=
  if negb (chain_known d) then fail d else
  match d_otb d with
  | Some _ => succeed d
  | None =>
    pre <- pop_preimage ;;
    let d1 := d <| d_claim_preimage := fst pre |> in
    match timelock_policy tc d1 with
    | None => fail d1
    | Some pol =>
      match get_claim_amount d1 with
      | None => panic d1
      | Some claim =>
        inv <- pop_mkinvoice ;;
        emit (EMkInvoice PKClaim (u64_mul claim 1000) (fst pre) (invoice_expiry d1) (invoice_cltv tc d1)) ;;;
        match inv with
        | None => fail d1
        | Some payreq =>
          let lb := String.eqb (get_chain d1) lbtc_chain in
          if lb && negb (str_nonempty (blinding_of d1)) then panic d1 else
          match get_opening_amount d1 with
          | None => panic d1
          | Some amt =>
            r <- pop_create_opening ;;
            emit (EBroadcastOpening (get_taker_pubkey d1) (get_maker_pubkey d1) (snd pre) amt (p_csv pol) lb r) ;;;
            match r with
            | None => fail d1
            | Some o =>
              h <- pop_height ;;
              match h with
              | None => fail d1      (* <- the defect: the transaction is out, the record is not set *)
              | Some height =>
                let d2 := d1 <| d_start_height := height |>
                             <| d_start_set := (if is_lbtc_v7 tc d1 then true else d_start_set d1) |>
                             <| d_opening_hex := or_hex o |> in
                let msg := mkOtb (match get_id d2 with Some i => i | None => EmptyString end) payreq
                                 (or_txid o) (or_vout o) (if lb then blinding_of d1 else EmptyString) in
                succeed (d2 <| d_otb := Some msg |> <| d_next_msg := Some (MOtb msg) |>)
              end
            end
          end
        end
      end
    end
  end.

(* the swap-in sender's data when the agreement has arrived *)
Definition d6_data : swap_data :=
  (fresh_data "peer" "me" "key") <| d_in_req := Some ex_req |> <| d_in_agr := Some ex_agr |>.

(* the environment of Proofs/C07Examples.v, but the height lookup fails *)
Definition d6_world : world :=
  mkWorld true true true 100000000 true false "" "regtest" (Some 0) ex_pk [("pre", "hash")]%string
          [None] [true] [true; true; true; true] [] [] [] [Some "lninv1"%string] [] [] [] []
          [Some ex_open] [] [true] [] [true] [] [("pre", "hash")]%string [] false.

Theorem C07_D6_refuted_before_fix :
  exists d w, let '(r, _, es) := act_cbo_before_fix tl_consts_gen d w in
    bcs es = [ex_open] /\ fst r = Ev_Failed /\ d_otb (snd r) = None /\ d_opening_hex (snd r) = EmptyString.
Proof. exists d6_data, d6_world. vm_compute. repeat split; reflexivity. Qed.

Theorem C07_D6_gone_after_fix :
  let '(r, _, es) := act_create_and_broadcast_opening tl_consts_gen d6_data d6_world in
  bcs es = [] /\ fst r = Ev_Failed.
Proof. vm_compute. split; reflexivity. Qed.
Print Assumptions C07_D6_refuted_before_fix.
