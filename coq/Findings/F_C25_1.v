(* Finding C25/1: removeLineFromFile compares text, so a peer whose line in a
   pre-existing file is spelled differently (here: spaces around '=') cannot be
   removed: RemoveFromAllowlist returns nil and the peer stays. *)
From Coq Require Import String ZArith Bool List.
From PS Require Import Model.Ini Model.Policy Model.C25Corr Proofs.C25 Props.C25.
Import ListNotations.
Open Scope string_scope.

Definition f1_file : string := "allowlisted_peers = " ++ ex_pk1 ++ String nl "".
Definition f1_ops : list op := [ORemAllow ex_pk1].

Theorem c25_full_refuted_1 : ~ C25_full.
Proof.
  intros H. destruct (H f1_file (mkPolicy 0 [ex_pk1] [] false 100000000 true) f1_ops eq_refl eq_refl) as [T _].
  vm_compute in T. discriminate T.
Qed.

(* what happens: no error, peer still present, in memory and after reload *)
Example c25_finding_1_behaviour :
  run_trace (mkSt f1_file (mkPolicy 0 [ex_pk1] [] false 100000000 true)) f1_ops =
  [(false, mkPolicy 0 [ex_pk1] [] false 100000000 true)].
Proof. vm_compute. reflexivity. Qed.
Print Assumptions c25_full_refuted_1.
