(* Finding C20/2 (KNOWN, not repaired): the full depth statement is false of the code when the
   notified height is ABOVE the height the node reports during the lookup (the node's chain got
   shorter between the poller's GetBlockHeight and the observer's query, e.g. a reorganisation
   onto a chain with fewer blocks or invalidateblock): confirmations are counted from the stale
   notified height. *)
From Coq Require Import ZArith Bool List.
From PS Require Import Model.RpcWatcher Proofs.C20 Props.C20.
Import ListNotations.
Open Scope Z_scope.

(* notified 105, node now at 103 with the tx in its tip (1 confirmation); requiredConfs 3 *)
Theorem c20_rpc_depth_full_refuted : ~ C20_rpc_depth_full.
Proof.
  intros H.
  specialize (H 3 100 504 0 105
    (mkView (Some 103) [(103, 1003)] (TxoSome 1003 1) [(1003, RawStr 77)]) 105 77 103 1003 1).
  assert (X : 3 <= 1) by (apply H; vm_compute; try reflexivity; split; congruence).
  vm_compute in X. apply X. reflexivity.
Qed.
