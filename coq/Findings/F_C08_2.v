(* Finding F_C08_2 (DESIGN D8), repaired by repo commit 75da28f:
   BitcoinOnChain.GetVoutAndVerify took the first output with the swap amount and
   only then compared its script; with a change output of exactly the swap amount
   placed first it returned (false, 0) and every caller drops the flag.  The full
   statement is false of the model of the code before the repair.  Replay on the
   real code: findings/replays/C08_replay_F2.json. *)
From Coq Require Import String ZArith NArith Bool List.
From PS Require Import Base.ScriptOps Model.Tx Model.OpeningTx Proofs.C03 Proofs.C08.
Import ListNotations.
Open Scope Z_scope.

Definition equal_change_first : list txout := [mk_out 100000 [0%N; 20%N]; mk_out 100000 ex_want].

Theorem c08_bitcoin_full_refuted_before_repair : ~ C08_bitcoin_full btc_get_vout_unrepaired.
Proof.
  intros H.
  assert (Hf : funds_request 100000 ex_want equal_change_first)
    by (exists 1, (mk_out 100000 ex_want); repeat split; reflexivity).
  destruct (redeem_script ex_params Gen.ConstsC03.gen_onchain_bitcoin_csv_c03) as [rd|] eqn:Er; [|vm_compute in Er; discriminate].
  assert (Ha : 0 <= sp_amount ex_params < Base.Wrap.two63) by (vm_compute; split; congruence).
  destruct (H ex_params ex_want equal_change_first rd Er Ha Hf) as (i & o & Hc & _).
  vm_compute in Hc. discriminate Hc.
Qed.
Print Assumptions c08_bitcoin_full_refuted_before_repair.
