(* Finding C17-D15 (FIXED by the repo commit named in findings/C17.json): before the fix
   State_SwapOutReceiver_AwaitFeeInvoicePayment accepted no Event_OnTimeout, although
   CreateSwapOutFromRequestAction arms a 10-minute timer and the fee invoice expires after
   600 s: the timer callback was rejected and the responder kept waiting (and kept the channel
   locked) until the node was restarted.  Refuted on the model for the pre-fix table. *)
From Coq Require Import String ZArith Bool List.
From PS Require Import Base.Wrap Model.Data Model.Actions Model.Fsm Model.History Model.C17Corr
  Gen.ConstsSwap Gen.Tables Proofs.C17.
Import ListNotations.
Open Scope Z_scope.
Open Scope string_scope.

Definition patch (t : table) (name : string) (sd : state_def) : table :=
  map (fun e => if String.eqb (fst e) name then (name, sd) else e) t.

Definition pk : string := "02aaaaaaaaaaaaaaaaaaaaaaaaaaaaaaaaaaaaaaaaaaaaaaaaaaaaaaaaaaaaaaaa".
Definition gw : world :=
  mkWorld true true true 0 true false "" "regtest" None "02bb" []
    [] [true; true] [true; true; true; true] [] [] [] [] [] [] [] [] [] [] [] [] [] [] [] [] false.

Definition wait_before_fix : state_def :=
  mkState (Some (ANode "AwaitFeeInvoicePayment" []))
    [("Event_ActionFailed", "State_SendCancel"); ("Event_OnCancelReceived", "State_SwapCanceled");
     ("Event_OnFeeInvoicePaid", "State_SwapOutReceiver_BroadcastOpeningTx")] true.
Definition table_before_fix : table := patch table_swap_out_receiver c17_out_receiver_wait wait_before_fix.

Definition rq : req := mkReq 7 "id" "regtest" "" "1x2x3" 100000 pk 1000.
Definition dat : swap_data :=
  mkData None None (Some rq) (Some (mkOutAgr 7 "id" pk "lnfee" 0)) None None None "peer" "peer" "key" "" 0 "" 0 false "" "" "" ""
         (Some (MOutAgr (mkOutAgr 7 "id" pk "lnfee" 0))) c17_out_receiver_wait.
Definition mach : machine := mkMachine "id" 2 2 c17_out_receiver_wait "" dat 0.

Theorem c17_fee_invoice_wait_ignores_timeout_refuted :
  c17_wait_ok table_before_fix terminal_states c17_out_receiver_wait = false /\
  stores_ok gw = true /\
  let '(o, _, es) := run_step tl_consts_gen (fun _ => None) table_before_fix terminal_states mach InTimeout gw in
  o_removed o = false /\ m_cur (o_machine o) = c17_out_receiver_wait /\
  existsb (is_cancel_to "peer") es = false /\ r_err (o_result o) = ErrRejected.
Proof. vm_compute. repeat split; reflexivity. Qed.
Print Assumptions c17_fee_invoice_wait_ignores_timeout_refuted.
