(* Finding C17-D14 (FIXED by repo commit 59a9ae7, see also Findings/F_C16_1.v): before the fix
   State_SwapInSender_AwaitAgreement was not FailOnrecover and had no Event_ActionFailed edge: a
   swap-in requester restarted while waiting for the agreement neither cancelled nor told the
   peer, and its 10-minute timer was gone with the old process.  Refuted on the model for the
   pre-fix table. *)
From Coq Require Import String ZArith Bool List.
From PS Require Import Base.Wrap Model.Data Model.Actions Model.Fsm Model.History Model.C17Corr
  Gen.ConstsSwap Gen.Tables Proofs.C17.
Import ListNotations.
Open Scope Z_scope.
Open Scope string_scope.

Definition patch (t : table) (name : string) (sd : state_def) : table :=
  map (fun e => if String.eqb (fst e) name then (name, sd) else e) t.

Definition pk : string := "02aaaaaaaaaaaaaaaaaaaaaaaaaaaaaaaaaaaaaaaaaaaaaaaaaaaaaaaaaaaaaaaa".
Definition gw : world :=
  mkWorld true true true 0 true false "" "regtest" None "02bb" []
    [] [true; true] [true; true; true; true] [] [] [] [] [] [] [] [] [] [] [] [] [] [] [] [] false.

Definition wait_before_fix : state_def :=
  mkState (Some (ANode "NoOpAction" []))
    [("Event_Invalid_Message", "State_SendCancel"); ("Event_OnCancelReceived", "State_SwapCanceled");
     ("Event_OnTimeout", "State_SendCancel");
     ("Event_SwapInSender_OnAgreementReceived", "State_SwapInSender_BroadcastOpeningTx")] false.
Definition table_before_fix : table := patch table_swap_in_sender c17_in_sender_wait wait_before_fix.

Definition rq : req := mkReq 7 "id" "regtest" "" "1x2x3" 100000 pk 1000.
Definition dat : swap_data :=
  mkData (Some rq) None None None None None None "peer" "me" "key" "" 0 "" 0 false "" "" "" "" (Some (MInReq rq)) c17_in_sender_wait.
Definition mach : machine := mkMachine "id" 1 1 c17_in_sender_wait "" dat 0.

Theorem c17_swap_in_requester_waits_after_restart_refuted :
  c17_wait_ok table_before_fix terminal_states c17_in_sender_wait = false /\
  stores_ok gw = true /\
  let '(o, _, es) := run_step tl_consts_gen (fun _ => None) table_before_fix terminal_states mach InRecover gw in
  m_cur (o_machine o) = c17_in_sender_wait /\ o_removed o = false /\
  existsb (fun e => match e with ESend _ _ => true | EArmTimer => true | _ => false end) es = false.
Proof. vm_compute. repeat split; reflexivity. Qed.
Print Assumptions c17_swap_in_requester_waits_after_restart_refuted.
