(* Finding C16-F2 (KNOWN): SendEvent stores the swap BEFORE the first transition
   (swapStore.UpdateData with Current = ""), so a crash right after that write leaves a
   record in the initial state.  RecoverSwaps locks the channel for it and Recover() returns
   ErrFsmConfig (the initial state has no action): the swap is never finished, never
   removed from the active set, and this repeats on every restart.  Refutes C16_full. *)
From Coq Require Import String ZArith Bool List.
From PS Require Import Base.Wrap Model.Data Model.Actions Model.Fsm Model.History Model.C16Corr
  Gen.ConstsSwap Gen.Tables Proofs.C16.
Import ListNotations.
Open Scope Z_scope.
Open Scope string_scope.

Definition rq : req := mkReq 7 "id" "regtest" "" "1x2x3" 100000 "02aaaaaaaaaaaaaaaaaaaaaaaaaaaaaaaaaaaaaaaaaaaaaaaaaaaaaaaaaaaaaaaa" 1000.
Definition dat : swap_data :=
  mkData None None (Some rq) None None None None "peer" "me" "key" "" 0 "" 0 false "" "" "" "" None "".
Definition mach : machine := mkMachine "id" 2 1 "" "" dat 0.
Definition gw : world :=
  mkWorld true true true 0 true false "" "regtest" None "02bb" []
    [Some 30000] [] (repeat true 8) [] [] [] [] [] [] [] [] [] (repeat (Some "tx") 70) (repeat true 70) [] [] [] [] [] false.

Lemma stuck n : ~ settles tl_consts_gen (fun _ => None) table_swap_out_sender terminal_states n mach.
Proof. revert n. apply settles_stuck. exists gw. vm_compute. auto. Qed.

(* this is the first store write of SwapOut: the record exists *)
Lemma record_is_written :
  let m0 := fresh_machine "id" 2 1 "peer" "me" "key" in
  let '(_, _, es) := run_step tl_consts_gen (fun _ => None) table_swap_out_sender terminal_states m0
                       (InEvent "Event_OnSwapOutStarted" (Some (MOutReq rq))) gw in
  restore m0 (firstn 1 es) = Some mach.
Proof. vm_compute. reflexivity. Qed.

Theorem c16_initial_state_record_refuted :
  exists t m sd, In t swap_tables_c16 /\ lookup_state t (m_cur m) = Some sd /\
    holds tl_consts_gen (c16_need (m_cur m)) (m_data m) = true /\
    forall n, ~ settles tl_consts_gen (fun _ => None) t terminal_states n m.
Proof.
  exists table_swap_out_sender, mach. eexists. split; [left; reflexivity|].
  split; [vm_compute; reflexivity|]. split; [vm_compute; reflexivity|]. exact stuck.
Qed.
Print Assumptions c16_initial_state_record_refuted.

From PS Require Props.C16.
Theorem c16_full_refuted : ~ PS.Props.C16.C16_full.
Proof.
  intros H. specialize (H (fun _ => None) table_swap_out_sender mach).
  assert (S : settles tl_consts_gen (fun _ => None) table_swap_out_sender terminal_states c16_rounds mach).
  { eapply H; [left; reflexivity|vm_compute; reflexivity|vm_compute; reflexivity]. }
  exact (stuck _ S).
Qed.
Print Assumptions c16_full_refuted.
