(* Refutation of C09_rejected_full on the faithful model: a swap-out sender waiting for the
   agreement receives a (valid) coop_close; the event is rejected, but the message has been
   stored in the swap data (and persisted). *)
From Coq Require Import String ZArith Bool List.
From PS Require Import Model.Data Model.Actions Model.Fsm Model.History Gen.Tables Gen.ConstsSwap Props.C09.
Import ListNotations.
Open Scope Z_scope.

Definition r0 := mkReq 7 "id" "regtest" "" "1x2x3" 100000 "pk" 0.
Definition d0 := mkData None None (Some r0) None None None None "peer" "me" "key" "" 0 "" 0 false "" "" "" "" None
                        "State_SwapOutSender_AwaitAgreement".
Definition m0 := mkMachine "id" 2 1 "State_SwapOutSender_AwaitAgreement" "" d0 0.
Definition coop0 := MCoop (mkCoop "id" "" "0000000000000000000000000000000000000000000000000000000000000001").
Definition w0 := mkWorld true true true 0 true false "" "regtest" None "" [] [] [] [true] [] [] [] [] [] [] [] [] [] [] [] [] [] [] [] [] false.

Theorem C09_rejected_refuted : ~ C09_rejected_full.
Proof.
  intros H.
  specialize (H tl_consts_gen (fun _ => None) table_swap_out_sender m0 "Event_OnCoopCloseReceived" (Some coop0) w0).
  destruct (send_event tl_consts_gen (fun _ => None) table_swap_out_sender m0 "Event_OnCoopCloseReceived" (Some coop0) w0)
    as [[[m' res] w'] es] eqn:E.
  vm_compute in E. inversion E; subst.
  specialize (H _ _ _ _ eq_refl eq_refl). vm_compute in H. discriminate.
Qed.
