(* Finding F_C27_1: PPM.Compute wraps around.  int64(amt) * ppm is computed in int64, so for
   amt * |rate| >= 2^63 (e.g. 9 223 372 036 855 sat at 10^6 ppm) or amt >= 2^63 the premium is not
   amt*rate/10^6.  Built separately; stops compiling when the arithmetic is repaired. *)
From Coq Require Import String ZArith Bool Lia List.
From PS Require Import Model.Premium Gen.ConstsPremium Model.C27Corr Proofs.C27 Props.C27.
Open Scope Z_scope.

Lemma c27_premium_exact_refuted :
  exists rate amt, -1000000 <= rate <= 1000000 /\ 0 <= amt < 2 ^ 64 /\
    code_ppm_compute rate amt <> Z.quot (amt * rate) 1000000.
Proof.
  exists 1000000, 9223372036855. split; [lia|]. split; [lia|]. vm_compute. discriminate.
Qed.

(* the code answers -9223372036854 where the property demands +9223372036855 *)
Example c27_overflow_witness :
  code_ppm_compute 1000000 9223372036855 = -9223372036854 /\
  Z.quot (9223372036855 * 1000000) 1000000 = 9223372036855.
Proof. split; reflexivity. Qed.

Lemma C27_full_refuted_by_overflow : ~ C27_full.
Proof.
  intros (H & _). destruct c27_premium_exact_refuted as (r & a & Hr & Ha & Hne).
  apply Hne. now apply H.
Qed.
Print Assumptions C27_full_refuted_by_overflow.
