(* Finding C18/2 (D17, FIXED by repo commit 6b80c18): before the fix BlockchainRpcTxWatcher.HandleCsvTx called the CSV callback while holding
   the watcher's mutex; the callback takes the swap's mutex (SendEvent).  In the other order, an event handler holds
   the swap's mutex while its action registers with the watcher (AddWaitForCsvTx takes the watcher's mutex).
     f0 HandleCsvTx     : Acq W; Call f1; Rel W        (W = txwatcher.BlockchainRpcTxWatcher.Mutex, lock 1)
     f1 OnCsvPassed     : Call f2
     f2 SendEvent(csv)  : Acq m; Rel m                  (m = swap mutex, lock 0)
     f3 SendEvent(cancel): Acq m; Call f4; Rel m
     f4 AddWaitForCsvTx : Acq W; Rel W
   Seen on the real code as the wait chain  SendEvent<OnCsvPassed<HandleCsvTx  (findings/replays/C18_D17_replay.json). *)
From Coq Require Import NArith Bool List.
Import ListNotations.
From PS Require Import Model.Skel Proofs.Skel Proofs.C18.
Open Scope N_scope.

Definition p2 : prog :=
  [(0, [Acq 1; Call 1; Rel 1]); (1, [Call 2]); (2, [Acq 0; Rel 0]); (3, [Acq 0; Call 4; Rel 0]); (4, [Acq 1; Rel 1])].

(* thread 0 = block notification, thread 1 = cancel message *)
Theorem c18_watcher_lock_cycle_prefix_refuted :
  exists c, reach p2 (init p2 [0; 3]) c /\ deadlocked c.
Proof.
  eexists. split.
  - eapply run_reach_init with (sched := [0; 1; 0; 0; 1]%nat). vm_compute. reflexivity.
  - exists [0%nat; 1%nat]. split; [discriminate|]. intros i [<-|[<-|[]]].
    + exists 0, 1%nat. repeat split; try reflexivity. right. left. reflexivity.
    + exists 1, 0%nat. repeat split; try reflexivity. left. reflexivity.
Qed.

Theorem c18_watcher_lock_cycle_prefix_rejected : forall A rk, lock_order_check p2 A rk = false.
Proof.
  intros A rk. destruct (lock_order_check p2 A rk) eqn:H; [|reflexivity]. exfalso.
  destruct c18_watcher_lock_cycle_prefix_refuted as [c [Hr Hd]].
  exact (lock_order_sound_prog p2 A rk H [0; 3] c Hr Hd).
Qed.
