(* Finding C17-D16 (FIXED by the repo commit named in findings/C17.json): before the fix a
   swap-out requester restarted while waiting for the agreement went from
   State_SwapOutSender_AwaitAgreement straight to State_SwapCanceled (FailOnrecover ->
   Event_ActionFailed -> State_SwapCanceled): the swap was cancelled locally but the peer was
   never told, so the responder kept its side (fee invoice, channel lock) until its own timeout.
   Refuted on the model for the pre-fix table. *)
From Coq Require Import String ZArith Bool List.
From PS Require Import Base.Wrap Model.Data Model.Actions Model.Fsm Model.History Model.C17Corr
  Gen.ConstsSwap Gen.Tables Proofs.C17.
Import ListNotations.
Open Scope Z_scope.
Open Scope string_scope.

Definition patch (t : table) (name : string) (sd : state_def) : table :=
  map (fun e => if String.eqb (fst e) name then (name, sd) else e) t.

Definition pk : string := "02aaaaaaaaaaaaaaaaaaaaaaaaaaaaaaaaaaaaaaaaaaaaaaaaaaaaaaaaaaaaaaaa".
Definition gw : world :=
  mkWorld true true true 0 true false "" "regtest" None "02bb" []
    [] [true; true] [true; true; true; true] [] [] [] [] [] [] [] [] [] [] [] [] [] [] [] [] false.

Definition wait_before_fix : state_def :=
  mkState (Some (ANode "NoOpAction" []))
    [("Event_ActionFailed", "State_SwapCanceled"); ("Event_Invalid_Message", "State_SendCancel");
     ("Event_OnCancelReceived", "State_SwapCanceled"); ("Event_OnFeeInvoiceReceived", "State_SwapOutSender_PayFeeInvoice");
     ("Event_OnTimeout", "State_SendCancel")] true.
Definition table_before_fix : table := patch table_swap_out_sender c17_out_sender_wait wait_before_fix.

Definition rq : req := mkReq 7 "id" "regtest" "" "1x2x3" 100000 pk 1000.
Definition dat : swap_data :=
  mkData None None (Some rq) None None None None "peer" "me" "key" "" 0 "" 0 false "" "" "" "" (Some (MOutReq rq)) c17_out_sender_wait.
Definition mach : machine := mkMachine "id" 2 1 c17_out_sender_wait "" dat 0.

Theorem c17_swap_out_requester_silent_cancel_refuted :
  c17_wait_ok table_before_fix terminal_states c17_out_sender_wait = false /\
  stores_ok gw = true /\
  let '(o, _, es) := run_step tl_consts_gen (fun _ => None) table_before_fix terminal_states mach InRecover gw in
  m_cur (o_machine o) = "State_SwapCanceled" /\ o_removed o = true /\
  existsb (fun e => match e with ESend _ _ => true | _ => false end) es = false.
Proof. vm_compute. repeat split; reflexivity. Qed.
Print Assumptions c17_swap_out_requester_silent_cancel_refuted.
