(* Finding C18/3 (D17, FIXED by repo commit 6b80c18): the same cycle with the electrum watcher: liquidBlockHeaderSubscriber.Update held its
   mutex while calling the observers' callbacks (-> OnCsvPassed / OnTxConfirmed -> SendEvent), and AwaitCsvAction
   registered a new observer (Register takes the subscriber's mutex) under the swap's mutex.
     f0 Update        : Acq S; Call f1; Rel S           (S = electrum.liquidBlockHeaderSubscriber.mu, lock 1)
     f1 OnCsvPassed   : Call f2
     f2 SendEvent(csv): Acq m; Rel m
     f3 SendEvent(cancel): Acq m; Call f4; Rel m
     f4 Register      : Acq S; Rel S
   Seen on the real code as  Register<AddWaitForCsvTx<SendEvent || SendEvent<OnCsvPassed<Update
   (findings/replays/C18_D17_replay.json, scenario electrum / not yet matured / concurrent). *)
From Coq Require Import NArith Bool List.
Import ListNotations.
From PS Require Import Model.Skel Proofs.Skel Proofs.C18.
Open Scope N_scope.

Definition p3 : prog :=
  [(0, [Acq 1; Call 1; Rel 1]); (1, [Call 2]); (2, [Acq 0; Rel 0]); (3, [Acq 0; Call 4; Rel 0]); (4, [Acq 1; Rel 1])].

Theorem c18_subscriber_lock_cycle_prefix_refuted :
  exists c, reach p3 (init p3 [3; 0]) c /\ deadlocked c.
Proof.
  eexists. split.
  - eapply run_reach_init with (sched := [0; 1; 0; 1; 1]%nat). vm_compute. reflexivity.
  - exists [0%nat; 1%nat]. split; [discriminate|]. intros i [<-|[<-|[]]].
    + exists 1, 1%nat. repeat split; try reflexivity. right. left. reflexivity.
    + exists 0, 0%nat. repeat split; try reflexivity. left. reflexivity.
Qed.

Theorem c18_subscriber_lock_cycle_prefix_rejected : forall A rk, lock_order_check p3 A rk = false.
Proof.
  intros A rk. destruct (lock_order_check p3 A rk) eqn:H; [|reflexivity]. exfalso.
  destruct c18_subscriber_lock_cycle_prefix_refuted as [c [Hr Hd]].
  exact (lock_order_sound_prog p3 A rk H [3; 0] c Hr Hd).
Qed.
