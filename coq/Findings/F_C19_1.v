(* Finding C19/1 (D18, KNOWN): SwapService.lockSwap holds the service lock and reads the SwapData of every active
   swap (swap.Data.GetScid(): SwapInRequest / SwapOutRequest) while the event handler of such a swap, holding only that
   swap's mutex, attaches the request to the data (ApplyToSwapData).  Confirmed by the race detector
   (findings/replays/C19_D18_replay.json).  Not repaired: taking each swap's mutex inside lockSwap would add the edge
   service lock -> swap mutex to a lock order that already has swap mutex -> service lock through GetActiveSwap in the
   callbacks; keeping the channel id in the service would change what lockSwap compares (C10's territory). *)
From Coq Require Import NArith Bool List.
Import ListNotations.
From PS Require Import Gen.Skel Model.Skel Model.C19Corr Proofs.Skel Proofs.C19.
Open Scope N_scope.

(* (1) on today's skeleton the lockset check fails as soon as the known pairs are not excluded *)
Theorem c19_full_check_refuted :
  lockset_check c19_prog_full (lookupL c19_must_full) skel_roots c19_excuse_full = false.
Proof. vm_compute. reflexivity. Qed.

(* (2) the pattern, as a skeleton of its own, has a reachable configuration with both accesses enabled:
     f0 lockSwap  : Acq S; Rd d; Rel S        (S = SwapService.RWMutex, lock 0; d = SwapData.SwapOutRequest, field 0)
     f1 SendEvent : Acq m; Wr d; Rel m        (m = the swap's mutex, lock 1) *)
Definition p1 : prog := [(0, [Acq 0; Rd 0; Rel 0]); (1, [Acq 1; Wr 0; Rel 1])].

Theorem c19_lockswap_pattern_races :
  exists c i j g1 g2 f w1 w2,
    reach p1 (init p1 [0; 1]) c /\ i <> j /\
    accessing c i = Some (g1, f, w1) /\ accessing c j = Some (g2, f, w2) /\ w1 || w2 = true.
Proof.
  eexists. exists 0%nat, 1%nat, 0, 1, 0, false, true. split.
  - eapply run_reach_init with (sched := [0; 1]%nat). vm_compute. reflexivity.
  - repeat split; try reflexivity. discriminate.
Qed.

Theorem c19_lockswap_pattern_rejected : forall E, lockset_check p1 E [0; 1] (fun _ _ _ => false) = false.
Proof.
  intros E. destruct (lockset_check p1 E [0; 1] (fun _ _ _ => false)) eqn:H; [|reflexivity]. exfalso.
  destruct c19_lockswap_pattern_races as [c [i [j [g1 [g2 [f [w1 [w2 [Hr [Hij [H1 [H2 Hw]]]]]]]]]]]].
  destruct (lockset_sound_prog p1 E [0; 1] _ H [0; 1] c (incl_refl _) Hr i j g1 g2 f w1 w2 Hij H1 H2 Hw); discriminate.
Qed.
