(* Finding C20/1 (D19, FIXED by repo commit f8d906e): before the fix observationLoop had no
   guard for a transaction first seen above the notified height; current-(firstSeen-1)
   wrapped around in uint32 and a transaction with ONE confirmation was reported as confirmed
   with requiredConfs = 3.  The pre-fix decision function is restated here so that the witness
   stays checkable after the repair. *)
From Coq Require Import ZArith Bool List.
From PS Require Import Model.RpcWatcher.
Import ListNotations.
Open Scope Z_scope.

Definition confirm_decision_prefix (req start limit current raw first : Z) : step_out :=
  if add32 start limit <? first then SCbErr
  else if req <=? sub32 current (sub32 first 1) then SCbOk raw
  else SContinue.

Definition observation_step_prefix (req start limit : Z) (last height : Z) (v : view) : Z * step_out :=
  let current := height in
  if current <=? last then (last, SContinue)
  else if add32 start limit <=? current then (current, SCbErr)
  else match is_tx_in_mempool_or_range v start with
       | LNotFound | LUnconfirmed | LOutOfSync => (current, SContinue)
       | LErr => (current, SCbErr)
       | LFound raw first => (current, confirm_decision_prefix req start limit current raw first)
       end.

(* notified height 100, node at 102, gettxout: 1 confirmation; requiredConfs 3 *)
Theorem c20_rpc_depth_prefix_refuted :
  exists req start limit last height v last' raw ct best conf,
    observation_step_prefix req start limit last height v = (last', SCbOk raw) /\
    v_height v = Some ct /\ v_txout v = TxoSome best conf /\ 0 <= conf < two32 /\
    height <= u32 ct /\ conf < req.
Proof.
  exists 3, 100, 504, 0, 100,
    (mkView (Some 102) [(102, 1002)] (TxoSome 1002 1) [(1002, RawStr 77)]), 100, 77, 102, 1002, 1.
  vm_compute. repeat split; congruence.
Qed.
