(* Finding F_C08_1 (DESIGN D5), repaired by repo commit 1ed8b2a:
   LiquidOnChain.CreateOpeningTransaction never assigned its named result [vout];
   opening_tx_broadcasted always carried script_out 0.  The full statement is
   false of the model of the code before the repair.  Replay on the real code:
   findings/replays/C08_replay_F1.json. *)
From Coq Require Import String ZArith NArith Bool List.
From PS Require Import Base.ScriptOps Model.Tx Model.OpeningTx Proofs.C03 Proofs.C08.
Import ListNotations.
Open Scope Z_scope.

Theorem c08_liquid_full_refuted_before_repair : ~ C08_liquid_full lbtc_create_opening_unrepaired.
Proof.
  intros H.
  destruct (redeem_script ex_params 10080) as [rd|] eqn:Er; [|vm_compute in Er; discriminate].
  destruct (H ex_params 10080 ex_want "txid"%string ex_louts 300 rd Er (proj1 ex_lbtc_open))
    as (v & o & Hc & Hn & Hs).
  vm_compute in Hc. inversion Hc; subst v. vm_compute in Hn. inversion Hn; subst o. discriminate Hs.
Qed.
Print Assumptions c08_liquid_full_refuted_before_repair.
