"""Shared driver library for the peerswap Coq verification checks.

Every check (bin/check Cxx) does, in this order:
  1. prepare(): rebuild the Go harness `psh` against /repo's working tree
     (build tag verif), regenerate coq/Gen/*.v from the running code, and
     `make` the property's theorem file (full .vo build);
  2. re-run coqc on Props/Cxx.v to capture `Print Assumptions` per theorem;
  3. run the property's correspondence harness (real code vs model, evaluated
     by vm_compute inside Coq) and its monitors on the observed behaviour;
  4. decide: VIOLATION / KNOWN-FINDING / ok, and write evidence/Cxx.json.
"""
import fcntl
import glob
import hashlib
import json
import os
import re
import subprocess
import sys
import time
from concurrent.futures import ThreadPoolExecutor

ROOT = os.environ.get("VERIF_ROOT") or os.path.dirname(os.path.dirname(os.path.abspath(__file__)))
def _repo_path():
    # a worktree used for parallel development may point at its own copy of the repository
    p = os.path.join(ROOT, ".repo_path")
    if os.environ.get("VERIF_REPO"):
        return os.environ["VERIF_REPO"]
    if os.path.exists(p):
        return open(p).read().strip()
    return "/repo"


REPO = _repo_path()
COQ = os.path.join(ROOT, "coq")
WORK = os.path.join(ROOT, "work")
PSH = os.path.join(WORK, "bin", "psh")
HARNESS = os.path.join(ROOT, "harness")

GOENV = dict(GOFLAGS="-mod=mod", GOPROXY="off", GOSUMDB="off", GOTOOLCHAIN="local",
             CGO_ENABLED="1")

# Axioms that may appear under Print Assumptions: kernel primitives (not axioms
# of ours) and axioms declared by Coq's standard library.  Everything else makes
# the proof unacceptable.
ALLOWED_AXIOM_PATTERNS = [
    r"^PrimInt63\.", r"^PrimFloat\.", r"^Uint63\.", r"^PrimArray\.",
    r"^functional_extensionality_dep$", r"^FunctionalExtensionality\.functional_extensionality_dep$",
    r"^Eqdep\.Eq_rect_eq\.eq_rect_eq$", r"^proof_irrelevance$", r"^ProofIrrelevance\.proof_irrelevance$",
    r"^JMeq\.JMeq_eq$", r"^JMeq_eq$", r"^Classical_Prop\.classic$", r"^classic$",
]

TRUSTED_BASE = [
    "Coq 8.16.1 kernel (coqc full .vo build; vm_compute; no native_compute)",
    "coqchk re-check in the thorough tier",
    "no Axiom/Parameter/Admitted in the development (scanned every run); Print Assumptions per theorem recorded below",
    "psh dump (Go, runtime reflection through verif-tagged hooks) that regenerates coq/Gen/*.v",
    "psh correspondence harness + its fakes and projection functions; bin/check driver",
    "hand-written Gallina model of the Go code (tied by the correspondence run, not verified against Go semantics)",
]


def log(*a):
    print(*a, file=sys.stderr, flush=True)


def sh(cmd, cwd=None, timeout=None, env=None, quiet=True):
    e = dict(os.environ)
    e.update(GOENV)
    if env:
        e.update(env)
    t0 = time.time()
    try:
        p = subprocess.run(cmd, cwd=cwd, env=e, shell=isinstance(cmd, str), timeout=timeout,
                           stdout=subprocess.PIPE, stderr=subprocess.PIPE, text=True, errors="replace")
        return p.returncode, p.stdout, p.stderr, time.time() - t0
    except subprocess.TimeoutExpired as ex:
        so = ex.stdout.decode("utf8", "replace") if isinstance(ex.stdout, bytes) else (ex.stdout or "")
        se = ex.stderr.decode("utf8", "replace") if isinstance(ex.stderr, bytes) else (ex.stderr or "")
        return 124, so, se + "\nTIMEOUT", time.time() - t0


class Lock:
    def __init__(self, name):
        os.makedirs(WORK, exist_ok=True)
        self.path = os.path.join(WORK, "." + name + ".lock")

    def __enter__(self):
        self.f = open(self.path, "w")
        fcntl.flock(self.f, fcntl.LOCK_EX)
        return self

    def __exit__(self, *a):
        fcntl.flock(self.f, fcntl.LOCK_UN)
        self.f.close()


def sync_gomod():
    """harness/go.mod mirrors /repo/go.mod's requirements (so versions match), go.sum copied."""
    src = open(os.path.join(REPO, "go.mod")).read()
    keep = []
    for l in src.splitlines():
        if l.startswith("module ") or re.match(r"^go \d", l) or l.startswith("toolchain "):
            continue
        keep.append(l)
    out = ("module psh\n\ngo 1.22.6\n\nrequire github.com/elementsproject/peerswap v0.0.0\n\n"
           "replace github.com/elementsproject/peerswap => " + REPO + "\n" + "\n".join(keep) + "\n")
    p = os.path.join(HARNESS, "go.mod")
    if not os.path.exists(p) or open(p).read() != out:
        open(p, "w").write(out)
    s = open(os.path.join(REPO, "go.sum")).read()
    p = os.path.join(HARNESS, "go.sum")
    if not os.path.exists(p) or open(p).read() != s:
        open(p, "w").write(s)


def build_harness():
    os.makedirs(os.path.join(WORK, "bin"), exist_ok=True)
    sync_gomod()
    rc, so, se, dt = sh(["go", "build", "-tags", "verif fast_test", "-o", PSH, "."], cwd=HARNESS, timeout=1500)
    return rc == 0, (so + se)[-6000:], dt


def dump_gen():
    rc, so, se, dt = sh([PSH, "dump", "-out", os.path.join(COQ, "Gen")], timeout=300)
    return rc == 0, (so + se)[-6000:], dt


def coq_make(targets, timeout=1500):
    rc, so, se, dt = sh([os.path.join(ROOT, "bin", "mkcoqproject")], timeout=120)
    if rc != 0:
        return False, "mkcoqproject failed\n" + so + se, dt
    rc, so, se, dt = sh(["make", "-j16"] + targets, cwd=COQ, timeout=timeout)
    txt = so + se
    return rc == 0, txt[-8000:], dt


FORBIDDEN = re.compile(r"\b(Admitted|admit|Axiom|Axioms|Parameter|Parameters|Conjecture|Conjectures|"
                       r"Unset\s+Guard\s+Checking|Unset\s+Positivity\s+Checking|Unset\s+Universe\s+Checking|"
                       r"bypass_check|Admit\s+Obligations|type-in-type|impredicative-set)\b")


def strip_coq_comments(s):
    out = []
    depth = 0
    i = 0
    while i < len(s):
        if s.startswith("(*", i):
            depth += 1
            i += 2
        elif s.startswith("*)", i) and depth > 0:
            depth -= 1
            i += 2
        else:
            if depth == 0:
                out.append(s[i])
            i += 1
    return "".join(out)


def scan_forbidden():
    """No Admitted/admit/Axiom/Parameter/... anywhere in the development; Variable/Hypothesis only inside sections."""
    bad = []
    for f in sorted(glob.glob(os.path.join(COQ, "**", "*.v"), recursive=True)):
        if "/Corr/" in f:
            continue
        txt = strip_coq_comments(open(f, errors="replace").read())
        # drop string literals
        txt2 = re.sub(r'"(?:[^"]|"")*"', '""', txt)
        for m in FORBIDDEN.finditer(txt2):
            bad.append("%s: %s" % (os.path.relpath(f, COQ), m.group(0)))
        depth = 0
        for line in txt2.splitlines():
            if re.match(r"\s*Section\s+\w+", line):
                depth += 1
            elif re.match(r"\s*End\s+\w+", line) and depth > 0:
                depth -= 1
            elif depth == 0 and re.match(r"\s*(Variable|Variables|Hypothesis|Hypotheses|Context)\b", line):
                bad.append("%s: %s outside a section" % (os.path.relpath(f, COQ), line.strip()[:60]))
    return bad


def props_assumptions(pid):
    """Re-run coqc on Props/<pid>.v; return (ok, [ {theorem, assumptions:[...], closed:bool, allowed:bool} ], log)."""
    src_path = os.path.join(COQ, "Props", pid + ".v")
    src = open(src_path).read()
    code = strip_coq_comments(src)
    theorems = re.findall(r"\b(?:Theorem|Corollary)\s+(\w+)", code)
    printed = re.findall(r"Print\s+Assumptions\s+(\w+)\s*\.", code)
    rc, so, se, dt = sh(["coqc", "-Q", ".", "PS", "-w", "-notation-overridden,-deprecated-hint-without-locality",
                         "Props/%s.v" % pid], cwd=COQ, timeout=900)
    out = so
    blocks = []
    cur = None
    for line in out.splitlines():
        if line.startswith("Closed under the global context"):
            if cur is not None:
                blocks.append(cur)
                cur = None
            blocks.append([])
        elif line.startswith("Axioms:"):
            if cur is not None:
                blocks.append(cur)
            cur = []
        elif cur is not None:
            m = re.match(r"^(\S+)\s*:", line)
            if m:
                cur.append(m.group(1))
            elif line.startswith(" ") or line.strip() == "":
                pass
            else:
                blocks.append(cur)
                cur = None
    if cur is not None:
        blocks.append(cur)
    res = []
    ok = rc == 0
    for i, name in enumerate(printed):
        ax = blocks[i] if i < len(blocks) else None
        if ax is None:
            res.append(dict(theorem=name, assumptions=None, closed=False, allowed=False))
            ok = False
            continue
        allowed = all(any(re.search(p, a) for p in ALLOWED_AXIOM_PATTERNS) for a in ax)
        res.append(dict(theorem=name, assumptions=ax, closed=(len(ax) == 0), allowed=allowed))
        if not allowed:
            ok = False
    missing = [t for t in theorems if t not in printed]
    if missing:
        ok = False
        for t in missing:
            res.append(dict(theorem=t, assumptions=None, closed=False, allowed=False, note="no Print Assumptions"))
    # every theorem in a Props file must be closed by `exact`
    return ok, res, (so + se)[-4000:], theorems


def parse_index_list(out, name):
    m = re.search(name + r"\s*=\s*(\[[^\]]*\])", out.replace("\n", " "))
    if not m:
        return None
    body = m.group(1).strip()[1:-1].strip()
    if not body:
        return []
    return [int(x.replace("%nat", "")) for x in re.split(r"[;\s]+", body) if x.strip()]


def eval_cases(case_dir, timeout=1200):
    """Run coqc on every cases_*.v shard (in parallel); returns dict with mismatch / monitor indexes (global)."""
    summ = json.load(open(os.path.join(case_dir, "summary.json")))
    cases = json.load(open(os.path.join(case_dir, "cases.json")))
    shard_size = summ.get("shard_size", 500)
    shards = sorted(glob.glob(os.path.join(case_dir, "cases_*.v")),
                    key=lambda p: int(re.search(r"cases_(\d+)\.v", p).group(1)))

    def one(path):
        k = int(re.search(r"cases_(\d+)\.v", path).group(1))
        rc, so, se, dt = sh(["coqc", "-Q", COQ, "PS", "-w", "-notation-overridden", os.path.basename(path)],
                            cwd=case_dir, timeout=timeout)
        mm = parse_index_list(so, "mismatches")
        mv = parse_index_list(so, "monitor_violations")
        return k, rc, mm, mv, (so + se)[-3000:], dt

    res = dict(mismatches=[], monitor_violations=[], errors=[], evaluated=0, coq_s=0.0)
    with ThreadPoolExecutor(max_workers=16) as ex:
        for k, rc, mm, mv, lg, dt in ex.map(one, shards):
            res["coq_s"] += dt
            if rc != 0 or mm is None:
                res["errors"].append(dict(shard=k, log=lg))
                continue
            for i in mm:
                res["mismatches"].append(k * shard_size + i)
            for i in (mv or []):
                res["monitor_violations"].append(k * shard_size + i)
    res["summary"] = summ
    res["cases"] = cases
    res["evaluated"] = len(cases)
    return res


def eval_nat_lists(case_dir, expr, timeout=1200):
    """Evaluate `map <f> cases` (f : case -> list nat) on every shard; returns one list of ints per case (global order)."""
    summ = json.load(open(os.path.join(case_dir, "summary.json")))
    shards = sorted(glob.glob(os.path.join(case_dir, "cases_*.v")),
                    key=lambda p: int(re.search(r"cases_(\d+)\.v", p).group(1)))

    def one(path):
        k = int(re.search(r"cases_(\d+)\.v", path).group(1))
        txt = open(path).read()
        head = txt[:txt.index("Definition mismatches")]
        tmp = os.path.join(case_dir, "extra_%d.v" % k)
        open(tmp, "w").write(head + "Definition extra := Eval vm_compute in (%s).\nPrint extra.\n" % expr)
        rc, so, se, dt = sh(["coqc", "-Q", COQ, "PS", "-w", "-notation-overridden", os.path.basename(tmp)],
                            cwd=case_dir, timeout=timeout)
        m = re.search(r"extra\s*=\s*(\[.*?\])\s*:\s*list", so.replace("\n", " "), re.S)
        if not m:
            return k, None
        body = m.group(1).replace("%nat", "")
        inner = re.findall(r"\[([^\[\]]*)\]", body[1:-1]) if body.strip() != "[]" else []
        return k, [[int(x) for x in re.split(r"[;\s]+", i) if x.strip()] for i in inner]

    out = []
    with ThreadPoolExecutor(max_workers=16) as ex:
        res = dict(ex.map(one, shards))
    for k in sorted(res):
        if res[k] is None:
            return None
        out.extend(res[k])
    return out


def load_known_findings():
    """known_findings.json (+ per-property findings/*.json while being developed in parallel)."""
    out = []
    p = os.path.join(ROOT, "known_findings.json")
    if os.path.exists(p):
        out += json.load(open(p)).get("findings", [])
    for f in sorted(glob.glob(os.path.join(ROOT, "findings", "*.json"))):
        try:
            out += json.load(open(f)).get("findings", [])
        except Exception:
            pass
    return out


class Ctx:
    def __init__(self, pid, tier, seed):
        self.pid = pid
        self.tier = tier
        self.seed = seed
        self.t0 = time.time()
        self.work = os.path.join(WORK, pid)
        os.makedirs(self.work, exist_ok=True)
        self.replay_dir = os.path.join(ROOT, "replays", pid)
        os.makedirs(self.replay_dir, exist_ok=True)
        self.notes = []
        # results
        self.evaluations = 0
        self.distinct_nontrivial = 0
        self.samples = []
        self.kinds = {}
        self.rules = []
        self.concrete = []      # list of dict(signature, what, case) : property violated on the REAL code
        self.tie_breaks = []    # list of dict(what, detail) : proof or correspondence no longer checks
        self.reproduced = set() # signatures of known findings that reproduced this run
        self.extra = {}

    @property
    def quick(self):
        return self.tier == "quick"

    def harness(self, sub, outdir=None, args=None, timeout=1500):
        outdir = outdir or os.path.join(self.work, sub)
        os.makedirs(outdir, exist_ok=True)
        cmd = [PSH, sub, "-out", outdir, "-seed", str(self.seed)] + [str(a) for a in (args or [])]
        rc, so, se, dt = sh(cmd, timeout=timeout)
        if rc != 0:
            self.tie_breaks.append(dict(what="harness psh %s failed (rc=%d)" % (sub, rc), detail=(so + se)[-3000:]))
            return None
        return outdir

    def absorb(self, res, label, signature=None, mismatch_is_violation=False, describe=None):
        """Fold the result of eval_cases into the context.

        monitor violations on observed data are concrete violations of the property;
        model/implementation mismatches are tie breaks (or concrete violations when the
        model *is* the property's spec for this family: mismatch_is_violation)."""
        summ = res["summary"]
        self.evaluations += summ["evaluations"]
        self.distinct_nontrivial += summ["distinct_nontrivial"]
        for k, v in summ.get("kinds", {}).items():
            self.kinds[label + ":" + k] = self.kinds.get(label + ":" + k, 0) + v
        self.samples.extend(summ.get("samples", [])[:4])
        for e in res["errors"]:
            self.tie_breaks.append(dict(what="correspondence file for %s does not evaluate (model/harness out of sync)" % label,
                                        detail=e["log"]))
        cases = res["cases"]
        seen = set()
        for i in res["monitor_violations"]:
            c = cases[i]
            sig = signature(c) if signature else label
            if (sig, "mon") in seen:
                continue
            seen.add((sig, "mon"))
            self.concrete.append(dict(signature=sig, what=(describe(c) if describe else "monitor violated on observed behaviour"),
                                      case=c, family=label))
        for i in res["mismatches"]:
            if i in res["monitor_violations"]:
                continue
            c = cases[i]
            if mismatch_is_violation:
                sig = signature(c) if signature else label
                if (sig, "mm") in seen:
                    continue
                seen.add((sig, "mm"))
                self.concrete.append(dict(signature=sig, what="implementation differs from the property's specification function",
                                          case=c, family=label))
            else:
                if ("mm", label) in seen:
                    continue
                seen.add(("mm", label))
                self.tie_breaks.append(dict(what="model/implementation mismatch in %s" % label, detail=json.dumps(c)[:2000], case=c))


def finish(ctx, prop, proof):
    """Decide, print, write evidence; returns exit code."""
    pid = ctx.pid
    known = [k for k in load_known_findings() if k.get("property") == pid and k.get("status", "known") == "known"]
    known_sigs = {k["signature"]: k for k in known}
    new_violations = []
    for v in ctx.concrete:
        if v["signature"] in known_sigs:
            ctx.reproduced.add(v["signature"])
        else:
            new_violations.append(v)
    lines = []
    for sig in sorted(ctx.reproduced):
        lines.append("KNOWN-FINDING: property=%s %s" % (pid, known_sigs[sig].get("what", sig)))
    rc = 0
    nviol = 0
    if new_violations:
        for n, v in enumerate(new_violations[:5]):
            path = os.path.join(ctx.replay_dir, "violation_%d.json" % n)
            json.dump(dict(property=pid, kind="concrete", signature=v["signature"], what=v["what"],
                           family=v.get("family"), input=v["case"],
                           replay="bin/check %s --replay %s" % (pid, path)), open(path, "w"), indent=1)
            lines.append("VIOLATION property=%s replay=%s" % (pid, path))
            nviol += 1
        rc = 1
    elif ctx.tie_breaks or not proof["ok"]:
        path = os.path.join(ctx.replay_dir, "unchecked.json")
        json.dump(dict(property=pid, kind="no-failing-input-found",
                       proof_ok=proof["ok"], proof_log=proof.get("log", "")[-4000:],
                       failed_obligations=proof.get("failed", []),
                       tie_breaks=ctx.tie_breaks[:10]), open(path, "w"), indent=1)
        lines.append("VIOLATION property=%s replay=%s no-failing-input-found" % (pid, path))
        nviol += 1
        rc = 1
    for l in lines:
        print(l, flush=True)
    wall = time.time() - ctx.t0
    theorems = proof.get("theorems", [])
    obligations = len(theorems)
    discharged = sum(1 for t in theorems if t.get("allowed")) if proof["ok"] else sum(
        1 for t in theorems if t.get("allowed") and proof.get("compiled"))
    ev = dict(
        property_id=pid, tier=ctx.tier, seed=ctx.seed, level="proof",
        coverage=dict(
            obligations=max(obligations, 1), discharged=discharged,
            checker_cmd="make -C <verif>/coq Props/%s.vo && coqc -Q <verif>/coq PS Props/%s.v (Print Assumptions per theorem)" % (pid, pid),
            trusted_base=TRUSTED_BASE + prop.get("trusted_extra", []),
            theorems=theorems,
            forbidden_scan=proof.get("forbidden", []),
            evaluations=ctx.evaluations, distinct_nontrivial=ctx.distinct_nontrivial,
            traces_validated_against_impl=ctx.evaluations,
            rule="; ".join(ctx.rules) or prop.get("rule", ""),
            input_distribution=ctx.kinds,
            samples=ctx.samples[:12] or [dict(note="no correspondence cases in this run")],
            known_findings_reproduced=sorted(ctx.reproduced),
            tie_breaks=[t["what"] for t in ctx.tie_breaks],
            notes=ctx.notes, **ctx.extra),
        assumptions=prop.get("assumptions", []),
        wall_s=round(wall, 2), violations=nviol)
    if discharged == 0:
        # nothing was proved in this run (broken build or proof): do not claim proof-level counts
        ev["coverage"].pop("discharged", None)
        ev["coverage"]["obligations_not_discharged"] = ev["coverage"].pop("obligations", 0)
    os.makedirs(os.path.join(ROOT, "evidence"), exist_ok=True)
    json.dump(ev, open(os.path.join(ROOT, "evidence", pid + ".json"), "w"), indent=1)
    log("[%s] %s tier=%s wall=%.1fs evaluations=%d theorems=%d/%d" % (
        pid, "OK" if rc == 0 else "FAIL", ctx.tier, wall, ctx.evaluations, discharged, obligations))
    return rc


def prepare(pid, corr=()):
    """Build harness, regenerate Gen, make the property's theorems. Returns proof dict."""
    proof = dict(ok=False, compiled=False, theorems=[], failed=[], log="")
    with Lock("build"):
        ok, lg, dt = build_harness()
        if not ok:
            proof["log"] = "go build -tags verif failed (hooks or harness no longer compile against /repo):\n" + lg
            proof["failed"] = ["harness build"]
            proof["stage"] = "build"
            return proof
        ok, lg, dt = dump_gen()
        if not ok:
            proof["log"] = "psh dump failed:\n" + lg
            proof["failed"] = ["Gen regeneration"]
            proof["stage"] = "dump"
            return proof
        if corr:
            ok, lg, dt = coq_make(list(corr))
            if not ok:
                proof["log"] = "model / correspondence files no longer compile:\n" + lg
                proof["failed"] = ["make " + " ".join(corr)]
                proof["stage"] = "make-corr"
                return proof
        ok, lg, dt = coq_make(["Props/%s.vo" % pid])
        proof["make_s"] = round(dt, 1)
        if not ok:
            m = re.findall(r'File "\./([^"]+)", line (\d+)', lg)
            proof["log"] = lg
            proof["failed"] = ["%s:%s" % x for x in m] or ["make Props/%s.vo" % pid]
            proof["stage"] = "make"
            # still collect theorem names so evidence counts obligations
            try:
                code = strip_coq_comments(open(os.path.join(COQ, "Props", pid + ".v")).read())
                proof["theorems"] = [dict(theorem=t, assumptions=None, closed=False, allowed=False)
                                     for t in re.findall(r"\b(?:Theorem|Corollary)\s+(\w+)", code)]
            except Exception:
                pass
            return proof
        proof["compiled"] = True
        ok, res, lg, names = props_assumptions(pid)
        proof["theorems"] = res
        bad = scan_forbidden()
        proof["forbidden"] = bad
        if bad:
            ok = False
            proof["failed"] += ["forbidden construct: " + b for b in bad]
        if not ok:
            proof["log"] = lg
            proof["failed"] += [t["theorem"] for t in res if not t.get("allowed")]
        proof["ok"] = ok
    return proof


def run_coqchk(pid, timeout=3000):
    rc, so, se, dt = sh(["coqchk", "-silent", "-o", "-Q", ".", "PS", "PS.Props." + pid], cwd=COQ, timeout=timeout)
    return rc == 0, (so + se)[-5000:], dt


def main(prop_module):
    import argparse
    ap = argparse.ArgumentParser()
    ap.add_argument("--tier", default=os.environ.get("VERIF_TIER", "quick"))
    ap.add_argument("--replay", default=None)
    a = ap.parse_args(sys.argv[2:])
    tier = a.tier if a.tier in ("quick", "thorough") else "quick"
    seed = int(os.environ.get("VERIF_SEED", "1") or "1")
    prop = prop_module.PROP
    ctx = Ctx(prop["id"], tier, seed)
    if a.replay:
        return prop_module.replay(ctx, a.replay) if hasattr(prop_module, "replay") else generic_replay(ctx, a.replay)
    proof = prepare(prop["id"], prop.get("corr", ()))
    if proof.get("stage") in ("build", "dump", "make-corr"):
        # nothing can run; report
        return finish(ctx, prop, proof)
    try:
        prop_module.run(ctx)
        if (ctx.tie_breaks or not proof["ok"]) and not ctx.concrete and hasattr(prop_module, "search"):
            ctx.notes.append("proof or correspondence broken: running failing-input search")
            prop_module.search(ctx)
    except Exception as ex:  # harness crash = tie break, never silent
        import traceback
        ctx.tie_breaks.append(dict(what="check driver exception: %r" % (ex,), detail=traceback.format_exc()[-3000:]))
    if tier == "thorough" and proof["ok"]:
        ok, lg, dt = run_coqchk(prop["id"])
        ctx.extra["coqchk"] = dict(ok=ok, seconds=round(dt, 1), tail=lg[-1500:])
        if not ok:
            proof["ok"] = False
            proof["log"] = "coqchk failed:\n" + lg
            proof["failed"] = ["coqchk PS.Props." + prop["id"]]
    return finish(ctx, prop, proof)


def generic_replay(ctx, path):
    d = json.load(open(path))
    print(json.dumps(d, indent=1))
    return 0
