import json

import vlib

PROP = dict(
    id="C02",
    corr=["Model/C02Corr.vo"],
    design_ref="DESIGN.md §6 C02",
    technique="Coq theorems (IFF over all witness stacks / sequences / tx versions / flags, for arbitrary checksig and sha256 functions) about an executable Gallina model of btcd's script engine applied to the opcode list DISASSEMBLED every run from the bytes the node's Bitcoin/Liquid code commits to; model tied to the code by vm_compute correspondence against ParamsToTxScript bytes and against btcd's txscript engine on real signed P2WSH spends, exhaustively over tagged witness stacks",
    level_text="Machine-checked Coq proofs: for each generated script (Bitcoin 1008, Liquid v7 10080, legacy Liquid 60) and every key pair, payment hash, witness stack of any length, sequence, tx version and MINIMALDATA/MINIMALIF setting, the engine model accepts iff the witness is (a) taker sig + 32-byte sha256 preimage + two items on which the maker check is false, (b) taker sig + maker sig + one such item, or (c) the maker sig alone with version>=2, sequence bits 31 and 22 clear and low 16 bits >= csv. Corollaries: no spend without a taker or maker signature; maker alone needs the CSV; taker alone needs a 32-byte preimage.",
    level_note="Trusted: Coq kernel; the hand model of btcd's engine for the ten opcodes that occur (compared with the real engine every run on 7381 witness stacks per transaction shape, 66430 in the thorough tier); secp256k1 verification and SHA-256 abstracted as arbitrary functions (theorems hold for all of them); P2WSH program/script hash match and Elements script semantics = Bitcoin's for these opcodes; psh dump disassembler (btcd tokenizer).",
    assumptions=[
        "signature verification and SHA-256 are arbitrary functions (Section variables); the tag oracle used only in the correspondence run says a DER signature verifies under its signer's key only",
        "witness script of the spend is the script committed to by the P2WSH output (SHA-256 collision resistance)",
        "Elements executes these opcodes like Bitcoin (no Elements interpreter offline)",
        "keys/hash pushed are at most 520 bytes for the IFF direction 'shape => accepted' (the builder refuses longer data); the 'only' direction needs no assumption",
    ],
    trusted_extra=["btcd txscript engine as the reference for BIP-68/112/141/143 semantics"],
)


def sig(c):
    fam = c.get("family")
    if fam == "engine":
        return "engine:%s" % c.get("chain")
    if fam == "chain":
        return "chain:%s" % c.get("chain")
    if fam == "enginecsv":
        return "enginecsv"
    return "script"


TEXT_CSV = {"bitcoin-v7": 1008, "liquid-v7": 10080, "liquid-v6": 60, "bitcoin-v6": 1008}


def expected_by_text(c):
    """The three shapes of the property text on tagged items (explanation aid for the replay only;
    the verdict is computed by c02_monitor inside Coq)."""
    std = c.get("flags") == "standard"
    same = c.get("same_key")
    taker_ok = (lambda t: t in ("sigTaker", "sigMaker")) if same else (lambda t: t == "sigTaker")
    maker_ok = (lambda t: t in ("sigTaker", "sigMaker")) if same else (lambda t: t == "sigMaker")
    sigs = ("sigTaker", "sigMaker", "sigOther")
    fails = lambda t: t == "empty" or ((not std) and t in sigs and not maker_ok(t))
    out = []
    n = c.get("max_witness_items", 4)
    sq, ver = c.get("sequence"), c.get("tx_version")
    csv_ok = (ver % 2**32) >= 2 and not (sq >> 31) & 1 and not (sq >> 22) & 1 and (sq % 65536) >= TEXT_CSV[c.get("chain")]
    for m in sigs:
        if maker_ok(m) and csv_ok:
            out.append([m])
    for st in sigs:
        if not taker_ok(st):
            continue
        for sm in sigs:
            if maker_ok(sm):
                for x in sigs + ("empty",):
                    if fails(x) and n >= 3:
                        out.append([st, sm, x])
        if c.get("hash_is_sha256_of") == "preimage32" and n >= 4:
            for y in sigs + ("empty",):
                for x in sigs + ("empty",):
                    if fails(y) and fails(x):
                        out.append([st, "preimage32", y, x])
    return out


def describe(c):
    fam = c.get("family")
    if fam == "engine":
        acc = c.get("accepted_witness_stacks") or []
        exp = expected_by_text(c)
        wrong_acc = [a for a in acc if a not in exp]
        wrong_rej = [e for e in exp if e not in acc]
        return ("btcd engine on the node's %s opening script (sequence %s, tx version %s, %s flags, hash = sha256(%s), same_key=%s): "
                "accepted although the property forbids it: %s; rejected although it is one of the three allowed spends: %s"
                % (c.get("chain"), c.get("sequence"), c.get("tx_version"), c.get("flags"), c.get("hash_is_sha256_of"),
                   c.get("same_key"), json.dumps(wrong_acc[:6]), json.dumps(wrong_rej[:6])))
    if fam == "enginecsv":
        return "btcd engine on GetOpeningTxScript(csv=%s) (sequence %s, tx version %s, %s flags) accepts %s: not the three shapes with that csv" % (
            c.get("csv"), c.get("sequence"), c.get("tx_version"), c.get("flags"), json.dumps(c.get("accepted_witness_stacks")))
    if fam == "chain" and c.get("output_script_validated") != c.get("output_script_funded_at_creation"):
        return "%s: the output script funded when the opening tx is created (%s) is not the one the node validates/spends (%s)" % (
            c.get("chain"), c.get("output_script_funded_at_creation"), c.get("output_script_validated"))
    if fam == "chain":
        return "opening script of %s (built with csv %s, timelock policy csv %s) does not contain <CSV of the property text> OP_CHECKSEQUENCEVERIFY, or the policy csv differs from it" % (
            c.get("chain"), c.get("script_csv"), c.get("policy_csv"))
    return "ParamsToTxScript output does not parse as a script"


def _run(ctx, label, outdir=None, thorough=False):
    args = ["-n", 2000 if thorough else 300, "-maxlen", 4]
    if thorough:
        args.append("-thorough")
    d = ctx.harness("c02", outdir=outdir, args=args)
    if d is None:
        return
    res = vlib.eval_cases(d)
    ctx.absorb(res, label, signature=sig, mismatch_is_violation=False, describe=describe)


def run(ctx):
    ctx.rules.append("three families: (script) ParamsToTxScript on generated hex strings (valid/invalid/odd, lengths 0..600 incl. every push-opcode boundary, single bytes 0..16/0x81) x csv boundary table, bytes and error compared with the builder model; "
                     "(chain) witness script behind GetOutputScript of the real Bitcoin/Liquid chain objects for params from SwapData.GetOpeningParams (policy CSV) with random real keys: bytes, Coq-disassembly vs generated template, csv vs the text's numbers; "
                     "(engine) btcd txscript.Engine on real P2WSH spends with real ECDSA signatures for EVERY witness stack of <= 4 (thorough: 5) items over 9 tagged items x sequences around the csv and the BIP-68 flag bits x tx versions {0,1,2,3,-1} x standard/consensus flags x hash of 32/33/31-byte secret x distinct/same keys; accepted set compared with the interpreter model (check) and with the three shapes of the property text (monitor). "
                     "(enginecsv) the same engine comparison for GetOpeningTxScript with 21 other csv values (0, 1, 16/17, 127/128, 2^15, 2^16, 2^22, 2^31 flag, 2^32-1: every AddInt64 encoding and every branch of the number decoding / BIP-112 check), stacks of <= 3 items. "
                     "non-trivial: every case; distinct by input")
    _run(ctx, "c02", thorough=not ctx.quick)


def search(ctx):
    _run(ctx, "c02-search", outdir=ctx.work + "/search", thorough=True)
