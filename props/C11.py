import sys, os
sys.path.insert(0, os.path.dirname(__file__))
import svc_common

PROP = dict(
    id="C11",
    corr=["Model/SvcCorr.vo", "Model/C09Corr.vo", "Model/C25Corr.vo"],
    design_ref="DESIGN.md §6 C11",
    technique="Coq theorems: CheckRequestWrapperAction succeeds only under the spelled-out conditions (any wrapped tree), reflective check that every agreement-creating state of the generated tables sits under that wrapper, service-level pre-check lemmas, swap-out balance lemma; vm_compute correspondence of request handling against the real SwapService; monitor = the property's conjunction evaluated on every observed request; plus the operation-sequence family of C25 on the real policy.Policy (the lists the admission check reads are what the operator's edits made them), judged with C25's model and monitor",
    level_text="Machine-checked: an agreement can only be produced by an action tree rooted at CheckRequestWrapperAction (checked on the tables regenerated from the code) which succeeds only if swaps are enabled, the chain enabled, version 7, amount >= minimum, asset/network match, requester allowlisted and not suspicious; requests reach a state machine only after premium <= limit, capacity, probe, unknown id and free channel; swap-out needs balance >= amount + fee. Comparisons use amount*1000 mod 2^64 as the code does; exactness below 2^64/1000 is a theorem, the region above is a known finding.",
    level_note="Trusted: Coq kernel, models of actions.go/service.go tied by correspondence, fakes, premium computation (C27). The end-to-end implication 'agreement message sent => all conditions' is decided on observed runs by the monitor and in Coq by the composition of the listed lemmas (action-level + table check + service pre-checks), not as one trace theorem.",
    assumptions=["policy answers are constant during one request"],
)


def classify(c):
    cl = sorted(set(c.get("_clauses") or []))
    if 9 in cl:
        return "c11:amount-times-1000-wraps"
    if 1 in cl:
        return "c11:agreement-without-conditions"
    if 2 in cl:
        return "c11:refused-without-cancel"
    return "c11:unclassified"


def run(ctx):
    svc_common.run_svc(ctx, "c11_monitor", "c11_clauses", classify,
                       lambda c: "request answered against the admission conditions (clauses %s)" % sorted(set(c.get("_clauses") or [])))
    run_policy_state(ctx)


def run_policy_state(ctx):
    """'allowlisted (or all peers accepted) and not suspicious' is evaluated on the policy object's lists: the admission
    conditions hold only if those lists are what the operator's edits made them. The operation-sequence family of C25
    (add / remove allowlisted and suspicious peers, reload, restart on the real policy.Policy) is run here too and judged
    with C25's model and monitor; C25's own known findings (signatures listed for C25) are not judged for C11."""
    import importlib
    import vlib
    c25 = importlib.import_module("C25")
    known = {k["signature"] for k in vlib.load_known_findings() if k.get("property") == "C25" and k.get("status", "known") == "known"}
    d = ctx.harness("c25", outdir=ctx.work + "/policy", args=["-n", 60 if ctx.quick else 1200])
    if d is None:
        return
    res = vlib.eval_cases(d)
    keep = lambda i: res["cases"][i].get("fam") == "seq" and c25.sig(res["cases"][i]) not in known
    res["monitor_violations"] = [i for i in res["monitor_violations"] if keep(i)]
    res["mismatches"] = [i for i in res["mismatches"] if keep(i)]
    ctx.rules.append("policy-state family (shared with C25, only operation sequences, C25's known findings excluded): add / remove allowlisted and suspicious peers, disable / enable, reload, restart on the real policy.Policy over a temp file; after every step the allowlist, the suspicious list and the three query functions the admission check uses are compared with the abstract policy machine")
    ctx.absorb(res, "policy", signature=lambda c: "policy:" + c25.sig(c), mismatch_is_violation=False,
               describe=lambda c: "after an operator edit the real policy.Policy's allowlist / suspicious list (what IsPeerAllowed / IsPeerSuspicious answer at admission) is not what the edits made it (%s): a peer that should be refused is admitted or the other way round" % c25.sig(c))


def search(ctx):
    run(ctx)
