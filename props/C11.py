import sys, os
sys.path.insert(0, os.path.dirname(__file__))
import svc_common

PROP = dict(
    id="C11",
    corr=["Model/SvcCorr.vo", "Model/C09Corr.vo"],
    design_ref="DESIGN.md §6 C11",
    technique="Coq theorems: CheckRequestWrapperAction succeeds only under the spelled-out conditions (any wrapped tree), reflective check that every agreement-creating state of the generated tables sits under that wrapper, service-level pre-check lemmas, swap-out balance lemma; vm_compute correspondence of request handling against the real SwapService; monitor = the property's conjunction evaluated on every observed request",
    level_text="Machine-checked: an agreement can only be produced by an action tree rooted at CheckRequestWrapperAction (checked on the tables regenerated from the code) which succeeds only if swaps are enabled, the chain enabled, version 7, amount >= minimum, asset/network match, requester allowlisted and not suspicious; requests reach a state machine only after premium <= limit, capacity, probe, unknown id and free channel; swap-out needs balance >= amount + fee. Comparisons use amount*1000 mod 2^64 as the code does; exactness below 2^64/1000 is a theorem, the region above is a known finding.",
    level_note="Trusted: Coq kernel, models of actions.go/service.go tied by correspondence, fakes, premium computation (C27). The end-to-end implication 'agreement message sent => all conditions' is decided on observed runs by the monitor and in Coq by the composition of the listed lemmas (action-level + table check + service pre-checks), not as one trace theorem.",
    assumptions=["policy answers are constant during one request"],
)


def classify(c):
    cl = sorted(set(c.get("_clauses") or []))
    if 9 in cl:
        return "c11:amount-times-1000-wraps"
    if 1 in cl:
        return "c11:agreement-without-conditions"
    if 2 in cl:
        return "c11:refused-without-cancel"
    return "c11:unclassified"


def run(ctx):
    svc_common.run_svc(ctx, "c11_monitor", "c11_clauses", classify,
                       lambda c: "request answered against the admission conditions (clauses %s)" % sorted(set(c.get("_clauses") or [])))


def search(ctx):
    run(ctx)
