import sys, os
sys.path.insert(0, os.path.dirname(__file__))
import svc_common

PROP = dict(
    id="C09",
    corr=["Model/SvcCorr.vo", "Model/C09Corr.vo"],
    design_ref="DESIGN.md §6 C09",
    technique="Coq theorems over an executable model of the service layer (OnMessageReceived routing, request handlers, lockSwap, store) on top of the state-machine model; operation-level vm_compute correspondence against the real SwapService with a real bbolt store; monitors on the observed node states",
    level_text="Machine-checked for all node states, tables and environments: a message from anyone but the counterparty, or about an unknown swap, changes nothing; a message for an active swap whose current state does not accept it changes nothing (no store write, no effect, map and store identical; after the fix: SendEvent rejects before applying the context); a request re-using a known swap id (active, finished, not yet recovered) is refused and changes nothing (after the fix: refuseKnownSwapId); no step changes a swap's request fields except by the context of that step.",
    level_note="Trusted: Coq kernel, the model of service.go and fsm.go (tied by the svc and fsm correspondence runs: every operation's resulting active map, store content, effects and result are compared), fakes, JSON decoding of messages (C21). Repaired defects: swap-id reuse; event context applied and persisted before the acceptance check (which also made a stray agreement of the other swap direction crash CheckPremiumAmount).",
    assumptions=["operations of the service layer are modelled sequentially (the handlers hold locks only briefly; interleavings are C10/C18/C19 territory)"],
)

NAMES = {1: "c09:foreign-message-changed-state", 2: "c09:request-reuses-known-id",
         3: "c09:rejected-event-context-applied", 4: "c09:handler-panic"}


def classify(c):
    cl = sorted(set(c.get("_clauses") or []))
    if not cl:
        return "c09:unclassified"
    if 4 in cl:
        kinds = [o.get("op") for o in c.get("ops", [])]
        if "in_agreement" in kinds or "out_agreement" in kinds:
            return "c09:panic-checkpremium-after-stray-agreement"
        return "c09:handler-panic"
    return NAMES[cl[0]] if cl[0] != 3 or len(cl) == 1 else NAMES[[x for x in cl if x != 3][0]]


def run(ctx):
    svc_common.run_svc(ctx, "c09_monitor", "c09_clauses", classify,
                       lambda c: "service operation sequence violates C09 clause(s) %s" % sorted(set(c.get("_clauses") or [])))


def search(ctx):
    run(ctx)
