import vlib

PROP = dict(
    id="C06",
    corr=["Model/FsmCorr.vo", "Model/CrashCorr.vo", "Model/C06Corr.vo"],
    design_ref="DESIGN.md §6 C06",
    technique="Coq: reflective check of the generated taker tables (the states reachable from the success edge of every paying state form a closed zone that only claims with the preimage), proved sound for arbitrary tables; engine rule for the zone, own induction for the paying step; lifted to all histories with crashes; refutation witnesses for the known findings; step-level vm_compute correspondence against the real SwapService incl. simulated process crashes; monitor on observed traces; plus, on the real lnd adapter: RebalancePayment over scripted payment-update streams (psh paystream, Model/C06PayStream.v; theorems c06_lnd_adapter_* for every stream: paid only after SUCCEEDED, failed only after FAILED, no verdict while in flight; observed each run: the adapter sets no deadline of its own on the stream)",
    level_text="Machine-checked for the generated swap-out-sender and swap-in-receiver tables, every history, environment and crash point: once RebalancePayment has returned the preimage in a step that runs to completion with its store writes succeeding, the taker never sends coop_close (nor any other message) again, never leaves the claim zone {ClaimSwap, ClaimedPreimage} and every later effect is a store write in that zone or a preimage-spend attempt; every recovery in ClaimSwap attempts the preimage claim again. The full statement (also for payments whose outcome was not durably recorded, or that are still in flight when the call errs) is refuted in Coq and on the real code: known findings D3, D4; D2 is repaired. lnd adapter: for every stream of payment updates the model of sendPaymentV2 reports 'paid' only after SUCCEEDED, 'failed' only after FAILED, each preceded by non-final updates only, and reaches no verdict while all updates are non-final (tied to the real lnd.Client.RebalancePayment by scripted streams on every run).",
    level_note="Trusted: Coq kernel; hand-written Gallina model of swap/actions.go, swap/fsm.go (tied by step-level correspondence incl. crash steps: effect prefix + stored record); fakes for Lightning/wallet/watcher/store; the label 'HTLC still in flight' of a failed attempt is the environment's (the Lightning interface returns only an error). Legacy (protocol 6) recovery through RecoverClaimPayment is covered by the monitor only, not by the theorem.",
    assumptions=[
        "a crash happens between two effects (mutating service calls / store writes); a call that was issued has its effect",
        "the fuel-bounded event loop of the model is not exhausted in the paying step (fewer than 64 store writes); the Go loop is unbounded",
    ],
)

ARGS = ["-focus", "C06", "-observer", "crash", "-casetype", "crash_case", "-check", "crash_check",
        "-monitor", "c06_monitor", "-imports", "From PS Require Import Model.CrashCorr Model.C06Corr."]

PAY_STATES = ("ValidateTxAndPayClaimInvoice", "AwaitTxConfirmation")


def sig(c):
    """Narrow signature of the first violation of the scenario (classification only; the judge is c06_monitor)."""
    paid = False
    pending = False
    not_durable = False   # the payment succeeded but the process died / a store write failed before ClaimSwap was durable
    role = c.get("role")
    for st in c.get("steps", []):
        inp = st.get("input", "")
        before = st.get("state_before", "")
        in_pay = any(p in before for p in PAY_STATES)
        pend = list(st.get("pend") or [])
        pi = 0
        for e in st.get("effects") or []:
            k = e.get("e")
            if k == "PayClaim":
                lab = pend[pi] if pi < len(pend) else False
                pi += 1
                if e.get("ok"):
                    paid = True
                elif lab:
                    pending = True
            elif k == "RecoverPay" and e.get("ok"):
                paid = True
            elif k == "Send" and e.get("type") == COOP_TYPE and (paid or pending):
                if paid and not_durable and in_pay and inp == "restart":
                    # the recorded finding: recovery RE-RUNS the pay state's action (its checks fail now) - the action's
                    # own store write precedes the one of the failure event. A restart that gives up without running
                    # the action (e.g. the state marked fail-on-recover) is a different defect.
                    effs = st.get("effects") or []
                    cut = next((i for i, x in enumerate(effs) if x.get("e") == "Persist" and "SendPrivkey" in (x.get("state") or "")), len(effs))
                    reran = sum(1 for x in effs[:cut] if x.get("e") == "Persist") >= 2 or any(x.get("e") == "Validate" for x in effs[:cut])
                    if not reran:
                        return "c06:paid-then-restart-in-pay-state-gives-up-without-running-the-action->coop_close:%s:%s" % (role, before)
                    return "c06:D4:paid-then-restart-in-pay-state->coop_close"
                if paid and not_durable and in_pay and inp == "tx_confirmed(err=true)":
                    return "c06:D4:paid-then-watcher-error-in-pay-state->coop_close"
                if pending and not paid:
                    return "c06:D3:pay-error-while-htlc-pending->coop_close"
                return "c06:coop_close_after_payment:%s:%s:%s" % (role, before, inp.split("(")[0])
            elif k == "BroadcastSpend" and paid and e.get("kind") not in (None, "SKPreimage"):
                return "c06:other_spend_after_payment:%s:%s" % (role, before)
        after = st.get("state_after", "")
        if paid and any(p in after for p in PAY_STATES) and ("crash" in st or st.get("store_failed")):
            not_durable = True
    return "c06:after_payment:%s:%s" % (role, c.get("steps", [{}])[-1].get("state_after", "?"))


COOP_TYPE = 42081  # messages.MESSAGETYPE_COOPCLOSE


def describe(c):
    return "coop_close (or another non-claim continuation) after the claim payment may have gone out: %s" % sig(c)


def run(ctx):
    n = 144 if ctx.quick else 700
    d = ctx.harness("fsm", args=["-n", n] + ARGS)
    if d is None:
        return
    res = vlib.eval_cases(d)
    ctx.rules.append("scenarios of one swap driven through the real SwapService (directed: every payment outcome x later timeout x claim-broadcast failure x crash at each effect around the payment followed by restart, both taker roles, btc/lbtc; then random walks with failure injection and restarts); failed attempts carry an environment label 'HTLC still in flight'; a scenario is non-trivial when it has more than one step")
    ctx.absorb(res, "fsm", signature=sig, describe=describe)
    run_paystream(ctx)


def run_paystream(ctx):
    d = ctx.harness("paystream", outdir=ctx.work + "/paystream", args=["-n", 8 if ctx.quick else 60])
    if d is None:
        return
    res = vlib.eval_cases(d)
    ctx.rules.append("paystream family: the real lnd.Client.RebalancePayment over a fake lnrpc client and a fake router whose payment stream delivers scripted updates (unknown / in flight / succeeded / failed / stream error / closed / refused); model: first final update decides; monitor: paid only after SUCCEEDED, an error only after FAILED or a broken / closed stream, and the adapter puts no deadline of its own on the stream (with one it reports 'not paid' while the HTLC is in flight and the taker goes on to coop_close)")
    ctx.absorb(res, "paystream", signature=lambda c: "paystream:error-while-htlc-in-flight",
               describe=lambda c: "lnd RebalancePayment on updates %s: paid=%s after %s updates, own stream deadline=%s - the adapter can report 'not paid' while lnd still has the HTLC in flight (a peer that holds the HTLC past the deadline and then settles also receives coop_close with the taker's key)" % (c.get("script"), c.get("paid"), c.get("updates_consumed"), c.get("stream_has_own_deadline")))


def search(ctx):
    d = ctx.harness("fsm", outdir=ctx.work + "/search", args=["-n", 700] + ARGS)
    if d is None:
        return
    res = vlib.eval_cases(d)
    ctx.absorb(res, "fsm-search", signature=sig, describe=describe)
