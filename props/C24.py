import vlib

PROP = dict(
    id="C24",
    corr=["Model/C24Corr.vo"],
    design_ref="DESIGN.md §6 C24",
    technique="Coq theorems over an executable Gallina model of clightning.payInvoiceViaChannel/buildDirectClaimRoute and lnd.payInvoiceViaChannel/CheckChannel/buildDirectClaimPaymentRequest (Go integer conversions explicit); model tied to the code by vm_compute correspondence against the real builders (verif hooks) and against the real PayInvoiceViaChannel/RebalancePayment methods run over a fake lightningd JSON-RPC socket and fake lnd RPC clients",
    level_text="Machine-checked Coq proofs for all invoices (destination, amount, CLTV), channel lists, channel-id strings and limits: CLN issues at most one sendpay whose route is exactly one hop {id = invoice payee, channel = scid with 'x', amount = invoice msat} and whose amount is the invoice amount, independent of the spelling of the channel id; LND calls SendPaymentV2 only with the given payreq, no amount/destination override, max_parts 1 and exactly one outgoing channel, namely the first listed channel whose id spells scid (either spelling, both select the same channel), and refuses when the invoice destination differs from that channel's peer; with a CLTV limit no integer wraps and delta(+padding) <= limit. The model is executed against the real Go code on generated inputs every run, and the property is monitored on the observed sendpay / SendPaymentRequest.",
    level_note="Trusted: Coq kernel, psh dump/harness and its fake lightningd / lnd clients, the projection of SendPaymentRequest (payment_request, cltv_limit, outgoing_chan_ids, max_parts, amt, amt_msat, len(dest)) and of sendpay params. Not covered: that lightningd rejects a hop whose id is not the channel's peer (CLN code does not compare payee and channel peer), that lnd pays exactly the invoice amount when no amount is given; the legacy (limit 0) CLTV arithmetic wraps for absurd final deltas (stated in the theorems' range hypotheses).",
    assumptions=[
        "lightningd sendpay fails a single-hop route whose node id is not the peer of the named channel (CLN side does not check the payee itself)",
        "lnd pays the invoice's own amount and destination when SendPaymentRequest.amt/amt_msat/dest are unset",
        "strings.ReplaceAll with one-byte old/new is a byte map; fmt %d prints decimal digits",
        "glightning.SendPay requires a non-empty payment hash (harness keeps it non-empty)",
    ],
)


def sig(c):
    return "%s" % c.get("fn")


def run(ctx):
    n = 400 if ctx.quick else 8000
    d = ctx.harness("c24", args=["-n", n])
    if d is None:
        return
    res = vlib.eval_cases(d)
    ctx.rules.append("four families, n each: buildDirectClaimRoute and buildDirectClaimPaymentRequest called directly; ClightningClient.PayInvoiceViaChannel/RebalancePayment over a fake lightningd socket (decode ok / decodepay fallback / errors / invalid / non-bolt11); lnd Client.PayInvoiceViaChannel/RebalancePayment over fake RPC clients (0-4 channels incl. duplicate ids, both spellings, mixed spelling, unknown id, balance boundary, foreign destination, RPC errors). CLTV deltas and limits from boundary tables (0, around the limit, 2^31, 2^32, 2^63, negative), amounts up to 2^64-1. Every case is non-trivial; distinct by input")
    ctx.absorb(res, "c24", signature=sig, mismatch_is_violation=False,
               describe=lambda c: "observed payment of %s is not a single HTLC over the swap channel to its peer for the invoice amount" % c.get("fn"))


def search(ctx):
    d = ctx.harness("c24", outdir=ctx.work + "/search", args=["-n", 8000])
    if d is None:
        return
    res = vlib.eval_cases(d)
    ctx.absorb(res, "c24-search", signature=sig, mismatch_is_violation=False)
