import vlib

PROP = dict(
    id="C26",
    corr=["Model/FsmCorr.vo", "Model/C17Corr.vo", "Model/C26Corr.vo"],
    design_ref="DESIGN.md §6 C26",
    technique="Coq: induction over the engine model (every step that enters a state whose action tree has AddSuspiciousPeerAction on its spine emits the policy call for the swap's peer; for ANY table), reflective checks on the regenerated tables (ClaimedCsv entered only by the CSV spend; request admission guarded by CheckRequestWrapperAction and followed by the cancel path), symbolic execution of the quarantined admission path, and lemmas over the peer-sync model of C28; correspondence: state-machine scenarios, and an end-to-end family on the real SwapService + real policy file + real peer-sync handler/poller; half of the scenarios add the quarantined peer to the allowlist and remove it again before the later attempts (the quarantine has to survive an unrelated policy edit)",
    level_text="Machine-checked: in both maker tables, for every swap data, entry point and environment, a step that brings the swap into State_ClaimedCsv calls AddToSuspiciousPeerList for the swap's peer, and that state is entered only by the success of the CSV spend; with the policy answering 'suspicious', a swap-in or swap-out request of that peer is cancelled (finished state, removed, cancel message) with no other effect than store writes and the rejected-request log; peer-sync ignores its messages (no store change, no answer) and the poller sends it nothing. Observed end to end on the real code with a real policy file: the line suspicious_peers=<peer> is written, survives a reload, both request kinds are cancelled, SwapOut/SwapIn towards the peer are refused without any message or active swap, peer-sync neither answers nor stores; an innocent peer and a peer of a swap that ended otherwise are served.",
    level_note="Trusted: Coq kernel; hand-written models (actions.go/fsm.go; peersync handler/poller from C28; policy from C25) tied by their correspondence runs. Not modelled: the IsPeerSuspicious guard at the top of SwapService.SwapOut/SwapIn (observed by the end-to-end family only). When the policy file cannot be written the action logs the error and the swap still finishes: the peer is then NOT quarantined (observed, stated; the property presupposes a writable policy file).",
    assumptions=[
        "the policy file is writable (AddToSuspiciousPeerList succeeds); a failure is logged and ignored by the code",
        "store writes succeed in the step that cancels a quarantined peer's request",
        "peer ids are compared as the same hex strings by swap, policy and peer-sync (lower-case hex; isValidPubkey accepts nothing else)",
    ],
)

MON = ["-monitor", "c26_fsm_monitor", "-imports", "From PS Require Import Model.C26Corr.", "-focus", "C26"]


def sig(c):
    if "End" in c:
        return "c26:e2e:%s:%s:writable=%s" % (c.get("Role"), c.get("End"), c.get("PolicyWritable"))
    return "c26:fsm:%s" % c.get("role")


def describe(c):
    if "End" in c:
        return "after a swap ending by %s (policy writable: %s) the peer was not quarantined as stated (or an innocent peer was): %s" % (
            c.get("End"), c.get("PolicyWritable"),
            {k: c.get(k) for k in ("InFile", "AfterReload", "ReqOutCancelled", "ReqInCancelled", "RpcOutRefused", "RpcInRefused", "RpcSent", "PsReqPollSends", "PsStored", "PsPollerSends")})
    return "state machine: CSV refund without AddToSuspiciousPeerList, or a suspicious peer's request not cancelled (role %s)" % c.get("role")


def run(ctx):
    d = ctx.harness("c26", args=["-n", 24 if ctx.quick else 192])
    if d is not None:
        res = vlib.eval_cases(d)
        ctx.rules.append("end to end: real SwapService with the real file-backed policy.Policy; maker roles x btc/lbtc x endings (csv, cancel+csv, paid, coop, csv with unwritable policy file); afterwards both request kinds from the peer, SwapOut and SwapIn towards it, request_poll/poll from it and a forced poll round on the real peer-sync wired to the same policy; an innocent control peer")
        ctx.absorb(res, "e2e", signature=sig, describe=describe)
    n = 90 if ctx.quick else 1200
    d = ctx.harness("fsm", args=["-n", n] + MON)
    if d is not None:
        res = vlib.eval_cases(d)
        ctx.rules.append("scenarios of one swap on the real SwapService with the fake policy (suspicious flag set in 1/16 of the random scenarios and by a successful AddToSuspiciousPeerList); non-trivial = more than one step")
        ctx.absorb(res, "fsm", signature=sig, describe=describe)


def search(ctx):
    d = ctx.harness("fsm", outdir=ctx.work + "/search", args=["-n", 500] + MON)
    if d is None:
        return
    res = vlib.eval_cases(d)
    ctx.absorb(res, "fsm-search", signature=sig, describe=describe)
