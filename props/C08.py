import vlib

PROP = dict(
    id="C08",
    corr=["Model/C08Corr.vo", "Model/C08Fsm.vo", "Model/FsmCorr.vo", "Model/C08Invoice.vo"],
    design_ref="DESIGN.md §6 C08",
    technique="Coq theorems over (a) the shared executable model of swap/actions.go CreateAndBroadcastOpeningTransaction (message fields = wallet result + invoice of that step, by symbolic execution of the action) and (b) an executable model of CreateOpeningTransaction of the CLN/LND adapters (GetVoutAndVerify) and of LiquidOnChain for ALL wallet funding results; invoice constants regenerated from the running code; tied by vm_compute correspondence against the REAL adapters on fake wallets that place the swap output in every position, and by a monitor on observed steps of the REAL swap state machine comparing the stored / sent message with what the (fake) wallet and Lightning node were asked and answered; plus the real GetPayreq of both Lightning adapters (the node is asked for exactly the requested amount / expiry / final CLTV / preimage)",
    level_text="Machine-checked Coq proofs: the stored opening_tx_broadcasted message carries exactly the txid and output index the wallet adapter returned for the opening amount, the invoice the node answered to ONE request of u64(claim*1000) msat (= claim*1000 below 2^64/1000 sat) on the preimage whose hash is locked in the output, with expiry 86400/3600 s and final CLTV 503/29 (Bitcoin/Liquid, constants regenerated from the code), and on Liquid the swap's blinding key; for EVERY funded transaction containing the requested output (any order and number of outputs and inputs, change of any amount incl. the swap amount) the CLN and LND adapters report the id of the transaction they hand over for broadcast and an index whose output carries the swap amount under the swap script, and LiquidOnChain reports the index of the output with the swap script, which the swap's blinding key unblinds to the swap amount whenever the transaction would pass validation. Both index statements were false of the code as found (findings F_C08_1, F_C08_2, repaired).",
    level_note="Trusted: Coq kernel; hand-written models (shared swap action model compared step by step with the real state machine; adapter models compared every run with the real adapters on fake wallet RPCs: result, txid, vout, fee, broadcast transaction); SHA-256 / P2WSH program and Liquid blinding are oracle inputs (the harness computes the P2WSH script from the script bytes itself and unblinds with go-elements); the wallet is assumed to fund the requested output (a wallet that omits it is outside the property); BOLT-11 encoding of the invoice is the Lightning node's (the fake records amount / hash / cltv it was asked for).",
    assumptions=[
        "the wallet's funded transaction contains an output paying the requested amount to the requested address (any position); on Liquid it pays the swap script once and blinds that output for the address it was given",
        "claim amount * 1000 < 2^64 for 'exactly the claim amount' (otherwise the product wraps; stated separately)",
        "the Lightning node creates the invoice it is asked for (amount, preimage, expiry, final CLTV are the observed request)",
    ],
    trusted_extra=["go-elements (unblinding of the wallet's Liquid outputs) as observation instrument"],
)

MON = ["-monitor", "c08_fsm_monitor", "-imports", "From PS Require Import Model.C08Fsm."]


def sig(c):
    fam = c.get("family")
    if fam == "btc":
        return "adapter:btc:%s:%s" % (c.get("backend"), c.get("layout"))
    if fam == "lbtc":
        return "adapter:lbtc:%s" % c.get("layout")
    if fam == "inv":
        return "invoice-constants:%s" % c.get("chain")
    return "fsm:%s:%s" % (c.get("role"), c.get("chain"))


def describe(c):
    fam = c.get("family")
    o = c.get("observed", {})
    if fam == "btc":
        return ("%s CreateOpeningTransaction, wallet layout %s, amount %s: returned txid %s vout %s, but the broadcast transaction is %s "
                "(txid differs, or output[vout] is not the swap amount under the swap script %s)"
                % (c.get("backend"), c.get("layout"), c.get("params", {}).get("amount"), o.get("returned_txid"), o.get("returned_vout"),
                   str(o.get("broadcast"))[:500], o.get("swap_output_script")))
    if fam == "lbtc":
        return ("LiquidOnChain.CreateOpeningTransaction, wallet layout %s: returned vout %s but the wallet's transaction has outputs %s "
                "(output[vout] does not carry the swap script %s / is not unblinded to the swap amount by the swap's blinding key)"
                % (c.get("layout"), o.get("returned_vout"), str(o.get("wallet_tx_outputs"))[:400], c.get("swap_output_script")))
    if fam == "inv":
        return "GetInvoiceExpiry/GetInvoiceCltv for %s protocol %s return %s / %s, not 86400/503 (Bitcoin) or 3600/29 (Liquid)" % (
            c.get("chain"), c.get("protocol_version"), o.get("invoice_expiry"), o.get("invoice_final_cltv"))
    return "the opening_tx_broadcasted message stored/sent by a %s on %s does not match the wallet result / invoice of that step" % (c.get("role"), c.get("chain"))


def run(ctx):
    d = ctx.harness("c08", args=["-n", 300 if ctx.quick else 5000, "-nl", 30 if ctx.quick else 400], timeout=3000)
    if d is not None:
        res = vlib.eval_cases(d)
        ctx.rules.append("(adapter) REAL clightning / lnd CreateOpeningTransaction over REAL BitcoinOnChain against a fake lightningd socket / fake lnd WalletKit that funds the requested output in 8 layouts (swap only / first / change first / change of EQUAL amount first / last / two changes with the swap output last / in the middle / requested output missing) with 1..3 inputs, amounts incl. 1, 546, 2^31, 2^32, wallet failures, malformed keys; REAL LiquidOnChain.CreateOpeningTransaction against a fake wallet daemon building really blinded transactions (swap output first / middle / last / after the fee output / equal-amount change first), csv 10080 and 60; returned (txid, vout, fee, hex) compared with the model and, as monitor, with the transaction handed over for broadcast; (inv) GetInvoiceExpiry / GetInvoiceCltv on real swap data, both chains, protocol 5..8, both roles. non-trivial: successful calls; distinct by input")
        ctx.absorb(res, "adapter", signature=sig, mismatch_is_violation=False, describe=describe)
    n = 96 if ctx.quick else 1200
    d2 = ctx.harness("fsm", args=["-n", n, "-focus", "C08"] + MON)
    if d2 is None:
        return
    res2 = vlib.eval_cases(d2)
    ctx.rules.append("(fsm) scenarios of one swap driven through the REAL SwapService (4 roles x btc/lbtc; directed flows, random walks with failure injection and restarts); in every step that stores the message: txid / script_out = the (fake) wallet's answer (random txid, index 0..2) for the opening amount, payreq decodes to claim*1000 msat, the hash the wallet was asked to lock, final CLTV 503/29, invoice requested with expiry 86400/3600, Liquid blinding key = the swap's; every sent opening_tx_broadcasted equals the stored one")
    ctx.absorb(res2, "fsm", signature=sig, describe=describe)
    run_invoice(ctx, 40 if ctx.quick else 800)


def run_invoice(ctx, n):
    """invoice side: the REAL GetPayreq of both Lightning adapters asks the node for exactly the requested invoice"""
    d = ctx.harness("invoice", outdir=ctx.work + "/invoice", args=["-n", n])
    if d is None:
        return
    res = vlib.eval_cases(d)
    ctx.rules.append("invoice family: the real clightning / lnd GetPayreq over a fake node recording the `invoice` / AddInvoice request: the protocol's own parameter sets (claim 86400 s / 503, 3600 s / 29; fee 600 s / 0) and random amounts, expiries and final CLTV deltas around 0, 18, 29, 80, 144, 503")
    ctx.absorb(res, "invoice", signature=lambda c: "invoice:%s:node-asked-for-other-amount-expiry-cltv-or-preimage" % c.get("backend", "?"),
               mismatch_is_violation=True,
               describe=lambda c: "GetPayreq of the %s adapter asked the node for %s when the swap requested %s" % (c.get("backend"), c.get("node_was_asked"), c.get("requested")))


def search(ctx):
    d = ctx.harness("c08", outdir=ctx.work + "/search", args=["-n", 3000, "-nl", 120], timeout=3000)
    if d is not None:
        res = vlib.eval_cases(d)
        ctx.absorb(res, "adapter-search", signature=sig, describe=describe)
    d2 = ctx.harness("fsm", outdir=ctx.work + "/search-fsm", args=["-n", 400, "-focus", "C08"] + MON)
    if d2 is not None:
        res2 = vlib.eval_cases(d2)
        ctx.absorb(res2, "fsm-search", signature=sig, describe=describe)
