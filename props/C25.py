import vlib

PROP = dict(
    id="C25",
    corr=["Model/C25Corr.vo"],
    design_ref="DESIGN.md §6 C25",
    technique="Coq theorems (refinement of the file-editing operations of policy.go to an abstract policy machine, invariant 'file parses to the policy in memory') over an executable Gallina model of the go-flags INI reader, addLineToFile, removeLineFromFile and the Policy operations; tied to the code by generated constants/key table and a vm_compute correspondence against the real policy.Policy on temp files",
    level_text="Machine-checked Coq proofs for ALL operation sequences and ALL pre-existing file contents outside two confirmed defect patterns (textual line removal of non-canonically written peer lines, section headers): every operation acts on the effective policy as the abstract machine says, rejected operations change nothing, and after every operation the file parses back to exactly the policy in memory. The two patterns are refuted in Coq (Findings/F_C25_1.v, F_C25_3.v), reproduced on the real code every run and listed as known findings; a third (line glued onto an unterminated last line, F_C25_2.v) was repaired in the repo and is now covered by the theorem.",
    level_note="Trusted: Coq kernel, psh harness/dump, hand-written model of the go-flags INI subset (tied by ~700 generated files/sequences per run). Not modelled: quoted values with backslash escapes, a section named like the option group (go-flags walks sections in map order, result not a function of the file), file-system errors, policies without a file.",
    assumptions=[
        "file bytes are ASCII or non-space UTF-8 (strings.TrimSpace also trims U+0085/U+00A0/...); lines shorter than 64 KiB (bufio.Scanner limit)",
        "the file system behaves (open/append/rewrite succeed); no concurrent writer between an edit and the reload",
        "restart = CreateFromFile on the same path; a failing restart keeps the previous policy object (harness convention)",
    ],
    trusted_extra=["go-flags v1.5.0 INI reader modelled by hand (Model/Ini.v, Model/Policy.v parse_lines)"],
)


def sig(c):
    if c.get("fam") != "seq":
        return "c25:%s" % c.get("fam")
    for s in c.get("steps", []):
        if s.get("diag"):
            return s["diag"]
    return "c25:seq"


def describe(c):
    if c.get("fam") == "seq":
        return "operation sequence on the real Policy violates the abstract policy machine / reload invariant (%s)" % sig(c)
    return "observed result of %s family violates the property" % c.get("fam")


RULE = ("three families: (seq) real policy.Policy on a temp file with generated pre-existing content "
        "(canonical, spaces around '=', Go field names as keys, quoted values, CRLF, comments, blank/whitespace lines, repeated keys, "
        "bool spellings, numeric boundaries 0/2^32/2^64-1, unknown keys, section headers, missing final newline, malformed lines) and 3-10 "
        "operations (add/remove allowlisted and suspicious peers incl. duplicates, absent and invalid pubkeys, disable/enable, reload, "
        "restart, operator edits); after every step memory, file bytes, the three query functions and a fresh CreateFromFile are compared "
        "with the model and judged by the monitor; (parse) CreateFromFile on generated files and single odd lines; (valid) isValidPubkey "
        "on boundary lengths/alphabets. A seq case is non-trivial when at least one operation ran; distinct by file+ops")


def build_findings(ctx):
    """Findings/F_C25_n.v refute the full statement on the model; they stop compiling when a defect is repaired."""
    import glob, os
    out = {}
    for f in sorted(glob.glob(os.path.join(vlib.COQ, "Findings", "F_C25_*.v"))):
        rc, so, se, dt = vlib.sh(["coqc", "-Q", ".", "PS", "-w", "-notation-overridden", os.path.relpath(f, vlib.COQ)],
                                 cwd=vlib.COQ, timeout=600)
        out[os.path.basename(f)] = "refutation checks" if rc == 0 else "no longer compiles (defect repaired or model changed)"
    ctx.extra["findings_refuted_in_coq"] = out


def run(ctx):
    build_findings(ctx)
    n = 120 if ctx.quick else 2400
    d = ctx.harness("c25", args=["-n", n])
    if d is None:
        return
    res = vlib.eval_cases(d)
    ctx.rules.append(RULE)
    ctx.extra["op_kinds"] = res["summary"].get("op_kinds", {})
    ctx.absorb(res, "c25", signature=sig, mismatch_is_violation=False, describe=describe)


def search(ctx):
    d = ctx.harness("c25", outdir=ctx.work + "/search", args=["-n", 1500])
    if d is None:
        return
    res = vlib.eval_cases(d)
    ctx.absorb(res, "c25-search", signature=sig, mismatch_is_violation=False, describe=describe)
