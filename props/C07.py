import glob
import os

import vlib

PROP = dict(
    id="C07",
    corr=["Model/FsmCorr.vo", "Model/C07Corr.vo", "Model/C07Table.vo", "Model/C20Corr.vo", "Model/C07Watch.vo", "Model/C07Lwk.vo"],
    design_ref="DESIGN.md §6 C07",
    technique="Coq: invariant over all crash histories of the maker state machines, carried by a generic engine rule indexed by an accumulator folded over the effects (what the wallet has broadcast, whether a durable write followed, whether a spend was broadcast); tree-aware rule for action trees; reflective boolean checks on the generated state tables proved sound for arbitrary tables and decided by vm_compute; step-level vm_compute correspondence against the real SwapService/FSM incl. simulated process crashes at a chosen effect (real bbolt file reopened, RecoverSwaps); monitor on observed scenarios; plus, on the real code: the RPC watcher's CSV watch list (kept until the notification was accepted) and the LWK wallet adapter over a fake lwk server / electrum (known finding: error after broadcast)",
    level_text="Machine-checked for both maker tables generated from the code (and for any table passing the check), every history with crashes after any effect and restarts, every environment and peer behaviour: once the wallet has broadcast opening transaction o, the last durable record and every later store write name o (txid, announced vout, tx hex); that record is in a finished state only if the claim-paid notification was delivered or a spending transaction was broadcast; OnCsvPassed in every waiting state broadcasts the CSV refund; every waiting state's action (entry and recovery) registers the CSV watch on the recorded (txid, vout). The full statement is refuted by one known pattern (crash or failed store write between the wallet broadcast and the next durable write, D7): Findings/F_C07_2.v; it is excluded by the visible hypothesis no_orphan and reproduced on the real code every run. D6 (error after the wallet broadcast cancels with no record) was repaired in the repo; Findings/F_C07_1.v keeps the pre-fix witness.",
    level_note="Trusted: Coq kernel; hand-written Gallina model of swap/actions.go and swap/fsm.go (tied by step-level correspondence on generated scenarios incl. crashed steps: the first k effects of the model equal the k effects observed before the simulated crash, and the machine RecoverSwaps loads equals the model's last durable record); fakes for wallet/watcher/Lightning (the wallet reports the vout it announces; onchain/liquid.go returning vout 0 (D5) and the LWK raw-tx fetch after broadcast are below the wallet interface and not covered here); the temporal composition of the CSV theorems (c1-c3) over a history is not a theorem; retry exhaustion (21 failed refund broadcasts leave the swap in the claim state until restart) is modelled but not exercised on the real code (back-off sleeps).",
    assumptions=[
        "inputs are those the environment can produce (hist_ok: callbacks only from registered watches/timers, requests only create swaps, restart after crash)",
        "no_orphan: no crash / failed store write between the wallet broadcast and the next durable write (known finding D7)",
        "c1: the first store write of OnCsvPassed succeeds (otherwise the watcher keeps the watch and calls again); c2: GetOutputScript succeeds for the swap's own parameters",
        "a crash DURING RecoverSwaps is covered by the model only (RecoverSwaps runs each swap in its own goroutine; the harness cannot intercept a panic there)",
    ],
    trusted_extra=["harness crash simulation: fake services panic at effect k+1, objects dropped, same bbolt file reopened (harness/c07_scen.go, fsm_ext.go)"],
)

ARGS = ["-focus", "C07", "-monitor", "c07_monitor", "-imports", "From PS Require Import Model.C07Corr.",
        "-observer", "c07", "-casetype", "c07_case", "-check", "c07_check"]

SIG_D7 = "maker:opening-broadcast-not-durable"
SIG_D6 = "maker:error-after-opening-broadcast:canceled-without-record"


def _entries(c):
    """effect lists in execution order: crashed steps (prefix only) and completed steps"""
    for s in c.get("steps", []):
        for cb in s.get("crashed_before", []):
            yield cb.get("effects") or []
        yield s.get("effects") or []


def sig(c):
    for effs in _entries(c):
        for i, e in enumerate(effs):
            if e.get("e") == "BroadcastOpening" and e.get("ok"):
                later = [x for x in effs[i + 1:] if x.get("e") == "Persist" and x.get("ok")]
                if not later:
                    return SIG_D7
                if later[0].get("state") in ("State_SendCancel", "State_SwapCanceled"):
                    return SIG_D6
                return "fsm:%s:%s" % (c.get("role"), c.get("chain"))
    return "fsm:%s:%s" % (c.get("role"), c.get("chain"))


def describe(c):
    return ("maker %s/%s: a broadcast opening transaction is not in the durable record, the swap finished without payment or spend, "
            "or a CSV event / waiting state without refund broadcast / CSV watch (signature %s)" % (c.get("role"), c.get("chain"), sig(c)))


def build_findings(ctx):
    from concurrent.futures import ThreadPoolExecutor

    def one(f):
        rc, so, se, dt = vlib.sh(["coqc", "-Q", ".", "PS", "-w", "-notation-overridden", os.path.relpath(f, vlib.COQ)],
                                 cwd=vlib.COQ, timeout=900)
        return os.path.basename(f), ("refutation checks" if rc == 0 else "no longer compiles (defect repaired or model changed)")

    files = sorted(glob.glob(os.path.join(vlib.COQ, "Findings", "F_C07_*.v")))
    with vlib.Lock("build"):
        ok, lg, dt = vlib.coq_make(["Proofs/C07Examples.vo"])   # the concrete histories the witnesses use
    if not ok:
        ctx.extra["findings_refuted_in_coq"] = {"Proofs/C07Examples.v": "does not compile"}
        ctx.tie_breaks.append(dict(what="Proofs/C07Examples.v (non-vacuity examples) no longer compiles", detail=lg[-3000:]))
        return
    with ThreadPoolExecutor(max_workers=4) as ex:
        ctx.extra["findings_refuted_in_coq"] = dict(ex.map(one, files))


RULE = ("scenarios of one swap driven through the real SwapService: the shared directed flows, then ~120 C07 directed maker flows "
        "(2 maker roles x btc/lbtc): height lookup failing in the broadcasting step, a simulated process crash after every effect of the "
        "broadcasting step and of the refund step (fake services panic, same bbolt file reopened, RecoverSwaps), paid / CSV / coop / cancel / "
        "invalid coop key / wallet spend failures / store, script, AddSender, invoice, wallet failures / swap output at vout 2 / a peer announcing "
        "an opening tx to the maker; then random walks with failure injection, deviating peer messages, restarts and random crash points; "
        "a scenario is non-trivial when it has more than one step; distinct by role/chain/step kinds/final state")


def run(ctx):
    build_findings(ctx)
    n = 215 if ctx.quick else 900
    d = ctx.harness("fsm", args=["-n", n] + ARGS)
    if d is None:
        return
    res = vlib.eval_cases(d)
    ctx.rules.append(RULE)
    ctx.absorb(res, "fsm", signature=sig, describe=describe)
    run_watch(ctx, 200 if ctx.quick else 3000)
    run_lwk(ctx)


def run_lwk(ctx):
    """LWK wallet adapter: a transaction that was broadcast is reported to the caller (known finding: not when the
    raw-transaction fetch fails afterwards)"""
    d = ctx.harness("lwkwallet", outdir=ctx.work + "/lwkwallet")
    if d is None:
        return
    res = vlib.eval_cases(d)
    ctx.rules.append("LWK wallet family: the real LWKRpcWallet.CreateAndBroadcastTransaction against a fake lwk JSON-RPC server and a fake electrum client, a failure injected at fund / sign / broadcast / raw-transaction fetch / nowhere; observed: transactions broadcast, error returned, txid and hex reported")
    ctx.absorb(res, "lwkwallet", signature=lambda c: "lwk:%s-fails-after-broadcast" % c.get("failure_injected_at"),
               mismatch_is_violation=False,
               describe=lambda c: "LWKRpcWallet.CreateAndBroadcastTransaction returned an error although the opening transaction was broadcast (failure injected at: %s): the maker cancels without a record of the output it funded" % c.get("failure_injected_at"))


def run_watch(ctx, n, outdir=None):
    """watcher side: the real BlockchainRpcTxWatcher keeps the output on its CSV watch list until the swap service
    accepted the notification (registration + HandleCsvTx sequences with refused callbacks, reorgs, RPC errors)"""
    d = ctx.harness("c20", outdir=outdir or (ctx.work + "/watch"),
                    args=["-n", n, "-only", "csv", "-monitor", "c07_watch_monitor", "-imports", "From PS Require Import Model.C07Watch."])
    if d is None:
        return
    res = vlib.eval_cases(d)
    ctx.rules.append("watcher family: CSV registration / HandleCsvTx sequences on the real BlockchainRpcTxWatcher over scripted gettxout answers (not yet / just / long matured, reorgs, errors, refused callbacks); compared with the C20 watcher model; monitor: still watched until a callback was accepted")
    ctx.absorb(res, "watch", signature=lambda c: "watch:matured-output-dropped-from-the-csv-watch-list-before-the-swap-accepted-the-notification",
               mismatch_is_violation=False,
               describe=lambda c: "the RPC watcher stopped watching a maker's opening output although no CSV notification was accepted: the refund is never triggered again")


def search(ctx):
    run_watch(ctx, 2000, outdir=ctx.work + "/search_watch")
    d = ctx.harness("fsm", outdir=ctx.work + "/search", args=["-n", 700] + ARGS)
    if d is None:
        return
    res = vlib.eval_cases(d)
    ctx.absorb(res, "fsm-search", signature=sig, describe=describe)
