import os

import vlib

PROP = dict(
    id="C05",
    corr=["Model/FsmCorr.vo", "Model/C05Corr.vo", "Model/C05LndWatch.vo"],
    design_ref="DESIGN.md §6 C05",
    technique="Coq: local pay-loop guard lifted to all crash histories (hist_local), invoice-CLTV bound from C01's invoice invariant, route CLTV from the C24 route models, window arithmetic; the FULL statement is refuted in Coq (Findings/F_C05_1.v) and on the real code by directed scenarios; step-level vm_compute correspondence + monitor with the confirmation height chosen by the simulated chain; plus the lnd back-end's TxWatcher confirmation decision (model with explicit uint32 arithmetic, theorem c05_lnd_watcher_confirms_below_half_csv, real watcher over fake lnd RPC clients)",
    level_text="Machine-checked for all histories/environments/crash points: every Bitcoin claim payment is made at a height P with start <= P <= start+504 (uint32 arithmetic explicit) for an invoice with final CLTV f <= 504, so with the route CLTV of either back-end (CLN f+1, lnd f+4) the HTLC expires by start+1012; the full statement P+delta < conf+1008 holds whenever the opening tx was mined at least 5 blocks after the taker's start height (exact region). Outside that region the full statement is REFUTED (Coq witness + replay on the real code): the taker's code never learns the confirmation height. Known finding, reproduced on every run.",
    level_note="Trusted: Coq kernel; hand-written Gallina model of swap/actions.go / fsm.go tied by step-level correspondence; the route-delay models of clightning/lnd (Model/PayRoute.v, tied by C24's correspondence); BOLT-11 decoders return a non-negative final CLTV (visible hypothesis); heights are uint32 and far below 2^32 (visible hypothesis); the confirmation height is the simulated chain's choice (observer c05), constrained only by the 3-confirmation rule.",
    assumptions=[
        "a decoded invoice has a non-empty payment hash and a non-negative final CLTV",
        "block heights are uint32 values with start+504 < 2^32",
        "the watcher reports the opening tx only with 3 confirmations (C20): conf+2 <= height of the callback",
    ],
)

MON = ["-monitor", "c05_monitor", "-imports", "From PS Require Import Model.C01Corr Model.C05Corr.",
       "-observer", "c05", "-casetype", "c05_case", "-check", "c05_check"]

KNOWN_BEFORE = "btc:opening-tx-mined-before-taker-start:margin<=0"
KNOWN_WITHIN = "btc:opening-tx-mined-less-than-5-blocks-after-taker-start:margin<=0"


def classify(c):
    """arithmetic region of the violated payment(s) of a case, from the numbers the observer recorded"""
    regs = set()
    for s in c.get("steps", []):
        o = s.get("c05")
        if not o:
            continue
        S, C, P, f = o["S"], o["C"], o["P"], o["f"]
        if P < S or P - S > 504 or f < 0 or f > 504:
            regs.add("btc:guard-broken:P-S=%d,f=%d" % (P - S, f))
        elif P + f + 4 >= C + 1008:
            if C < S:
                regs.add(KNOWN_BEFORE)
            elif C < S + 5:
                regs.add(KNOWN_WITHIN)
            else:
                regs.add("btc:margin<=0-outside-known-region:C-S=%d,P-S=%d,f=%d" % (C - S, P - S, f))
    if not regs:
        # no payment inside a bad region was recorded: the other clause of the monitor - a step moved the recorded
        # Bitcoin starting height
        return "btc:recorded-starting-height-moved"
    bad = sorted(r for r in regs if r not in (KNOWN_BEFORE, KNOWN_WITHIN))
    return bad[0] if bad else sorted(regs)[0]


def check_findings(ctx):
    out = {}
    for f in ("F_C05_1",):
        rc, so, se, dt = vlib.sh(["coqc", "-Q", ".", "PS", "-w", "-notation-overridden", "Findings/%s.v" % f],
                                 cwd=vlib.COQ, timeout=600)
        out[f] = "refutation holds (Closed under the global context)" if rc == 0 and "Closed under the global context" in so \
            else "refutation no longer compiles (defect repaired or model changed)"
    ctx.extra["findings_files"] = out


def run(ctx):
    n = 160 if ctx.quick else 2400
    d = ctx.harness("fsm", args=["-n", n, "-focus", "C05"] + MON)
    if d is None:
        return
    res = vlib.eval_cases(d)
    ctx.rules.append("scenarios of one swap driven through the real SwapService (focus: taker roles on Bitcoin; directed boundary flows first: announcement at start+503, invoice CLTV 504, payment at start+504/505, opening tx mined at start+1/+4/+5/-20/-600; then random walks); the simulated chain picks the mining height of the opening tx among the heights consistent with 3 confirmations; non-trivial = more than one step")
    ctx.absorb(res, "fsm", signature=classify,
               describe=lambda c: "Bitcoin claim payment whose HTLC can outlive the maker's CSV refund (%s)" % classify(c))
    check_findings(ctx)
    run_lndwatch(ctx, 60 if ctx.quick else 1500)


def run_lndwatch(ctx, n, outdir=None):
    """lnd back-end: the real lnd.TxWatcher's confirmation decision over fake lnd RPC clients"""
    d = ctx.harness("lndwatch", outdir=outdir or (ctx.work + "/lndwatch"), args=["-n", n])
    if d is None:
        return
    res = vlib.eval_cases(d)
    ctx.rules.append("lnd watcher family: the real lnd.TxWatcher (fake confirmation stream and GetInfo) on (confirmation height, node height) pairs: 1..4, 502..505, 1008, 1009 confirmations at four base heights incl. near 2^32, node height below the confirmation height, GetInfo failing, random pairs; compared with the model (uint32 arithmetic); monitor: confirmed only with fewer than 504 confirmations")
    ctx.absorb(res, "lndwatch", signature=lambda c: "lndwatch:confirmed-with-%s-confirmations" % (c.get("node_height", 0) - c.get("confirmation_height", 0) + 1),
               mismatch_is_violation=False,
               describe=lambda c: "the lnd watcher handed an opening transaction confirmed at height %s to the swap at node height %s (the taker goes on to pay): half of the CSV or more has passed" % (c.get("confirmation_height"), c.get("node_height")))


def search(ctx):
    run_lndwatch(ctx, 1500, outdir=ctx.work + "/search_lndwatch")
    d = ctx.harness("fsm", outdir=ctx.work + "/search", args=["-n", 800, "-focus", "C05"] + MON)
    if d is None:
        return
    res = vlib.eval_cases(d)
    ctx.absorb(res, "fsm-search", signature=classify)
