import vlib

PROP = dict(
    id="C13",
    corr=["Model/FsmCorr.vo", "Model/C13Corr.vo"],
    design_ref="DESIGN.md §6 C13",
    technique="Coq: relational engine rule (a preorder between the last durable record and every record written after it) lifted to all admissible histories with crashes after any effect; reflective check of the generated taker tables (anchor writers only in states entered from the default state, FailOnrecover set), sound for arbitrary tables; step-level vm_compute correspondence against the real SwapService incl. a crash-at-every-effect family over the real bbolt file; monitor on observed effect traces",
    level_text="Machine-checked for both generated taker tables (and any table passing the reflective check), every admissible history, environment and crash point: swap_out_request / swap_in_agreement of a Liquid protocol-7 swap leave only when the last durable record has the anchor; every store write after a durable anchored Liquid-v7 record carries the same anchor; a Liquid claim payment is attempted only with the anchor in the durable record. Tables and protocol constants are regenerated from the code on each run; the model is compared step by step with the real state machine, crashes included.",
    level_note="Trusted: Coq kernel; hand-written Gallina model of swap/actions.go and swap/fsm.go (tied by step-level correspondence); fakes for Lightning/wallet/watcher/messenger; bbolt's atomic put (the crash family dies between calls, not inside a bbolt transaction); JSON reload equality of the two anchor fields is C14's theorem and is re-observed here on every restart.",
    assumptions=[
        "hist_ok: the service layer hands request messages only to swaps it has just created, callbacks come only from what was registered (History.input_allowed)",
        "a crash loses everything but the bbolt store; the record found after a crash is the last one whose store write returned",
    ],
)

MON = ["-monitor", "c13_monitor", "-imports", "From PS Require Import Model.C13Corr."]


def sig(c):
    return "fsm:%s:%s" % (c.get("role"), c.get("chain"))


def describe(c):
    return "anchor ordering/stability violated for a %s swap on %s" % (c.get("role"), c.get("chain"))


def run(ctx):
    d0 = ctx.harness("c13crash", args=["-n", 1 if ctx.quick else 4])
    if d0 is not None:
        res0 = vlib.eval_cases(d0)
        ctx.rules.append("crash family: 8 scripted taker flows (out_sender / in_receiver on lbtc and btc), one scenario per (step, effect): the process dies before that store write / service call, the real bbolt file is reopened, RecoverSwaps runs, the remaining events of the flow are replayed and a final restart follows; the tip moves between all entry points")
        ctx.absorb(res0, "c13crash", signature=lambda c: "crash:%s:%s" % (c.get("role"), c.get("chain")), describe=describe)
    n = 80 if ctx.quick else 800
    d = ctx.harness("fsm", args=["-n", n, "-focus", "C13"] + MON)
    if d is None:
        return
    res = vlib.eval_cases(d)
    ctx.rules.append("scenarios of one swap driven through the real SwapService (4 roles x btc/lbtc; directed flows with a restart from every persisted taker state and duplicated later events first, then random walks with failure injection incl. failing store writes, deviating peer messages, chain advances, restarts); the monitor follows the last durable record across steps and compares the anchor of every record reloaded from the real store")
    ctx.absorb(res, "fsm", signature=sig, describe=describe)


def search(ctx):
    d = ctx.harness("fsm", outdir=ctx.work + "/search", args=["-n", 300, "-focus", "C13"] + MON)
    if d is None:
        return
    res = vlib.eval_cases(d)
    ctx.absorb(res, "fsm-search", signature=sig, describe=describe)
    d0 = ctx.harness("c13crash", outdir=ctx.work + "/search_crash", args=["-n", 3])
    if d0 is not None:
        ctx.absorb(vlib.eval_cases(d0), "c13crash-search", signature=lambda c: "crash:%s:%s" % (c.get("role"), c.get("chain")), describe=describe)
