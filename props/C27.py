import json
import os

import vlib

PROP = dict(
    id="C27",
    corr=["Model/C27Corr.vo"],
    design_ref="DESIGN.md §6 C27",
    technique="Coq theorems over an executable Gallina model of premium.Setting (bbolt bucket with the code's string keys, GetRate fallback chain, int64 PPM.Compute) and of peersync localCapabilityForPeer: key injectivity + refinement of every update sequence to a plain map, exact arithmetic outside the int64 wrap region, advertised = charged; model tied to the code by generated constants and a vm_compute correspondence run against the real Setting on real bbolt files and the real PeerSync poll payload",
    level_text="Machine-checked Coq proofs for all update/delete/reopen sequences, all peer ids, all int64 rates and all amounts: rate = peer row else global row else built-in default; premium = amount*rate/10^6 truncated toward zero whenever amount < 2^63 and the product fits int64 (covers +-10^6 ppm up to 9 223 372 036 854 sat); the four advertised rates equal GetRate for that peer on every store. Two known exceptions are kept as findings with refutation witnesses: int64 wrap-around in PPM.Compute, and the reserved peer id \"default\" aliasing the global row.",
    level_note="Trusted: Coq kernel, psh dump/harness, the hand-written model (tied by the correspondence run), bbolt as a map with MaxKeySize, fmt %d / Sscanf %d round trip on int64 (exercised at the boundaries), encoding/json of the poll payload. The call sites in swap/actions.go and swap/service.go (which pass swap.PeerNodeId / message.Amount to Setting.Compute) are not modelled.",
    assumptions=[
        "bbolt bucket = finite map on byte-string keys; Put fails only for keys longer than MaxKeySize (dumped); Delete of a missing key succeeds",
        "fmt.Appendf(%d) followed by fmt.Sscanf(%d) is the identity on int64",
        "bucket values are written only by SetRate (no foreign, malformed values in the bucket)",
        "fmt %s.%d.%d renders asset/operation as plain signed decimals",
    ],
    trusted_extra=[],
)


def sig(c):
    return "%s:%s" % (c.get("family"), c.get("region"))


def describe(c):
    return "observed rates/premiums of an op sequence (%s) differ from the property's map/arithmetic reading" % sig(c)


def check_findings(ctx):
    """Findings/F_C27_*.v are built separately; report whether the refutations still go through."""
    out = {}
    for f in ("F_C27_1", "F_C27_2"):
        rc, so, se, dt = vlib.sh(["coqc", "-Q", ".", "PS", "-w", "-notation-overridden", "Findings/%s.v" % f],
                                 cwd=vlib.COQ, timeout=300)
        out[f] = "refutation holds (Closed under the global context)" if rc == 0 and "Closed under the global context" in so \
            else "refutation no longer compiles (defect repaired or model changed)"
    ctx.extra["findings_files"] = out


def absorb(ctx, d, label):
    res = vlib.eval_cases(d)
    summ = res["summary"]
    ctx.extra.setdefault("branches", {})[label] = summ.get("branches", {})
    ctx.absorb(res, label, signature=sig, mismatch_is_violation=False, describe=describe)


def run(ctx):
    n = 300 if ctx.quick else 6000
    d = ctx.harness("c27", args=["-n", n])
    if d is None:
        return
    ctx.rules.append(
        "families: seq (6-22 random ops SetRate/SetDefaultRate/DeleteRate/GetRate/GetDefaultRate/Compute/advertisement/"
        "reopen/bucket dump over 2-5 peer ids incl. ids with dots, empty, non-ASCII; assets/operations incl. 0, 3, -1, int32 bounds; "
        "rates on the +-10^6 boundary table; always ends reopen+advert+dump), alias (same with the reserved id \"default\"), "
        "compute (set+get+Compute+PPM.Compute over int64 x uint64 incl. the wrap boundary 2^63/|rate| +-2 and fixed witnesses), "
        "keysize (bbolt MaxKeySize and MaxKeySize+1). Non-trivial = a read hits a configured peer or global row, or a PPM case; distinct by op list")
    absorb(ctx, d, "c27")
    check_findings(ctx)


def search(ctx):
    d = ctx.harness("c27", outdir=ctx.work + "/search", args=["-n", 2000])
    if d is None:
        return
    absorb(ctx, d, "c27-search")
