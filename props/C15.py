import vlib

PROP = dict(
    id="C15",
    corr=["Model/FsmCorr.vo", "Model/CrashCorr.vo", "Model/C15Corr.vo"],
    design_ref="DESIGN.md §6 C15",
    technique="Coq: local idempotence guards (OpeningTxBroadcasted, ClaimTxId, NextMessage, invoice) lifted by the history rule to all crash histories of all tables; a machine/record consistency invariant for 'no payment after a durable cancel' (reflective check of the generated tables: the cancel zone is closed and its actions never pay); monotonicity of the durable OpeningTxBroadcasted for the counting theorem; refutation witness for D7; step-level vm_compute correspondence against the real SwapService with the process dying at every effect (effect prefix + stored record), monitor on observed traces",
    level_text="Machine-checked for every state table (cancel zone: the four generated tables), history, environment and crash point: an opening transaction is created only while the durable record has no OpeningTxBroadcasted and a claim/refund only while it has no ClaimTxId; hence at most one opening transaction per swap unless the process dies (or the action errs) between the wallet's broadcast and the store write that records it (known finding D7, refuted in Coq and reproduced on the real code); every claim payment / recovery is for the invoice of the durable OpeningTxBroadcasted; no invoice is paid while the durable record is in SendCancel/SwapCanceled; every message sent (except cancel) is the stored NextMessage to the stored peer, so what is re-sent after a restart is identical.",
    level_note="Trusted: Coq kernel; hand-written Gallina model (tied by step-level correspondence incl. crash steps); fakes. 'Completes a second payment of the same invoice' rests on the Lightning node's per-payment-hash idempotence (a second RebalancePayment for a settled invoice creates no new HTLC): the theorem shows all attempts are for the one durable invoice; the fee invoice (no such assumption) is checked by the monitor (paid at most once) only.",
    assumptions=[
        "a crash happens between two effects (mutating service calls / store writes); a call that was issued has its effect",
        "the Lightning node settles a payment hash at most once (second RebalancePayment of a settled invoice returns the preimage without a new HTLC)",
    ],
)

ARGS = ["-focus", "C15", "-observer", "crash", "-casetype", "crash_case", "-check", "crash_check",
        "-monitor", "c15_monitor", "-imports", "From PS Require Import Model.CrashCorr Model.C15Corr."]


def sig(c):
    """Narrow signature of the violation (classification only; the judge is c15_monitor)."""
    role = c.get("role")
    openings = []   # (step index, effect index, crashed step?, last effect of the step?)
    for si, st in enumerate(c.get("steps", [])):
        effs = st.get("effects") or []
        for ei, e in enumerate(effs):
            if e.get("e") == "BroadcastOpening" and e.get("ok"):
                openings.append((si, ei, "crash" in st, ei == len(effs) - 1, st.get("state_after", "")))
    if len(openings) >= 2:
        si, ei, crashed, last, after = openings[0]
        if len(openings) == 2 and crashed and last:
            return "c15:D7:process-died-between-wallet-broadcast-and-record->second-opening-tx"
        return "c15:second_opening_tx:%s:%s" % (role, after)
    fees = sum(1 for st in c.get("steps", []) for e in (st.get("effects") or []) if e.get("e") == "PayFee" and e.get("ok"))
    if fees >= 2:
        return "c15:fee_paid_twice:%s" % role
    return "c15:other:%s:%s" % (role, c.get("steps", [{}])[-1].get("state_after", "?"))


def describe(c):
    return "a restart duplicated an opening transaction / payment, paid after a cancel, or re-sent a different message: %s" % sig(c)


def run(ctx):
    n = 228 if ctx.quick else 800
    d = ctx.harness("fsm", args=["-n", n] + ARGS)
    if d is None:
        return
    res = vlib.eval_cases(d)
    ctx.rules.append("scenarios of one swap driven through the real SwapService: the core flow of each of the four roles with the process dying at every effect of every step (fakes panic at the k-th effect, all objects dropped, same bbolt store reopened), RecoverSwaps, the input delivered again, continuation, second restart; crashes during recovery; cancelled swaps; then random walks with restarts. A crash step is compared with the model's effect prefix (firstn k) and the stored record; a scenario is non-trivial when it has more than one step")
    ctx.absorb(res, "fsm", signature=sig, describe=describe)


def search(ctx):
    d = ctx.harness("fsm", outdir=ctx.work + "/search", args=["-n", 1000] + ARGS)
    if d is None:
        return
    res = vlib.eval_cases(d)
    ctx.absorb(res, "fsm-search", signature=sig, describe=describe)
