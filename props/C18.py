import json
import os
import re

import vlib

PROP = dict(
    id="C18",
    corr=["Model/C18Corr.vo"],
    design_ref="DESIGN.md §6 C18, §8 (claimed partial)",
    technique="PARTIAL: Coq theorem lock_order_sound for arbitrary lock/access skeletons (small-step interleaving semantics, non-reentrant mutexes; ranked held->acquired relation through calls and synchronous callbacks => no reachable deadlock configuration) + the boolean check decided by vm_compute on the skeleton regenerated from the source on every run (go/types walk of swap, policy, txwatcher, electrum, lwk, peersync; binding tables for interfaces and callback registrations) + reflective check of the maker state tables (cancel / failed coop close / invalid message -> CSV wait -> CSV spend -> ClaimedCsv); run-time part: deadlock scenarios against the real SwapService with the real BlockchainRpcTxWatcher / lwk electrum watcher over a simulated chain, watchdog 5 s; plus dispatcher scenarios: the real RPC watcher keeps delivering blocks while / after a slow confirmation callback",
    level_text="Machine-checked proof that no schedule of any number of threads over today's WHOLE lock skeleton (no exclusion since the synchronous CSV callback under the swap mutex, finding C18/1, was repaired) reaches a configuration in which threads wait for each other's (or their own) mutexes; the skeleton is re-extracted from the working tree on every run and the lock-order check re-evaluated. 162 scenarios (3 watcher configurations x 2 maker roles x CSV not yet / just / long matured x cancel / failing coop close / invalid message x 3 orders of message and block notification) run the real code on every check and must end with the CSV refund.",
    level_note="Partial by design: the theorem is about the skeleton (control flow flattened to lexical order under extractor-checked balance conditions; locks and fields are classes, not instances; RLock treated as exclusive under an extractor-checked side condition). The skeleton cannot exhibit blocking inside RPC clients, channel sends/receives, select, sync.Cond.Wait, WaitGroup.Wait, time.Sleep (all listed in the evidence under blocking_primitives_outside_model) nor the Go scheduler; lnd's watcher and the cln/lnd clients are outside the analysed packages. The extractor is trusted.",
    assumptions=[
        "the skeleton extractor (harness/c18_skel.go) reports every sync.Mutex/RWMutex operation, call, go statement and callback registration of the analysed packages; interface calls are bound to all implementations inside those packages, callback fields to every function that flows into them",
        "code outside the analysed packages (lightning clients, wallets, messenger, bbolt) does not call back into the swap service while holding a lock that the service's callers wait for",
        "blocks keep arriving (the electrum watcher looks at a registration only when a header arrives)",
    ],
    trusted_extra=["skeleton extractor harness/c18_skel.go (go/parser + go/types, export data from `go list -export`)",
                   "deadlock harness harness/c18.go with the fakes of harness/c18_fakes.go (simulated chain, wallet, lightning, messenger)"],
)


def sig(c):
    o = c.get("observed", {})
    if not o.get("completed", True):
        chains = [x.strip() for x in (o.get("blocked_signature") or "unknown").split("||")]
        # a goroutine that waits for a mutex it holds itself (the chain starts and ends in SendEvent) is the cause; the
        # other goroutines queue up behind it
        selfc = [x for x in chains if x.startswith("wait:swap.SwapStateMachine.SendEvent<") and x.endswith("<swap.SwapStateMachine.SendEvent")]
        # ... provided they all wait for the swap mutex (innermost waiting function SendEvent); a goroutine stuck on any
        # other lock is a different defect
        others = [x for x in chains if x not in selfc and not x.startswith("wait:swap.SwapStateMachine.SendEvent<")]
        if selfc and not others:
            return "deadlock:" + sorted(selfc)[0]
        return "deadlock:" + " || ".join(chains)
    return "no-refund:%s:%s" % (c.get("scenario", {}).get("watcher"), o.get("final_state"))


def describe(c):
    o = c.get("observed", {})
    s = c.get("scenario", {})
    if not o.get("completed", True):
        return ("goroutine blocked > watchdog: maker %s, watcher %s, CSV %s, trigger %s, order %s; pending calls %s; lock wait chains: %s"
                % (s.get("role"), s.get("watcher"), s.get("maturity"), s.get("trigger"), s.get("order"), o.get("pending_calls"), o.get("blocked_signature")))
    return ("maker did not reach the CSV refund: %s / %s / %s / %s / %s ended in %s with %s CSV spends"
            % (s.get("role"), s.get("watcher"), s.get("maturity"), s.get("trigger"), s.get("order"), o.get("final_state"), o.get("csv_spends")))


QUERY = """From Coq Require Import NArith Bool String List.
Import ListNotations.
From PS Require Import Gen.Skel Model.Skel Model.C18Corr.
Definition q_ok := Eval vm_compute in c18_skeleton_ok.
Print q_ok.
Definition q_tables := Eval vm_compute in c18_tables_ok.
Print q_tables.
Definition q_cycle := Eval vm_compute in c18_cycle_edges.
Print q_cycle.
Definition q_edges := Eval vm_compute in c18_all_edges.
Print q_edges.
"""


def _strlist(txt, name):
    m = re.search(r"Definition " + name + r" : list string := \[(.*?)\]\.\n", txt, re.S)
    if not m:
        return []
    return re.findall(r'"((?:[^"]|"")*)"%string', m.group(1))


def read_gen_skel():
    txt = open(os.path.join(vlib.COQ, "Gen", "Skel.v"), errors="replace").read()
    m = re.search(r"Definition skel_roots : list N := \[(.*?)\]", txt)
    return dict(fn_names=_strlist(txt, "skel_fn_names"), lock_names=_strlist(txt, "skel_lock_names"), field_names=_strlist(txt, "skel_field_names"),
                warnings=_strlist(txt, "skel_warnings"), blocking=_strlist(txt, "skel_blocking"),
                n_roots=len([x for x in (m.group(1).split(";") if m else []) if x.strip()]),
                bindings=re.findall(r"\(\* (\S+ -> [^*]*?) \*\)", txt))


def coq_query(ctx):
    d = os.path.join(ctx.work, "query")
    os.makedirs(d, exist_ok=True)
    open(os.path.join(d, "q.v"), "w").write(QUERY)
    rc, so, se, dt = vlib.sh(["coqc", "-Q", vlib.COQ, "PS", "q.v"], cwd=d, timeout=600)
    out = so.replace("\n", " ")
    res = dict(rc=rc)
    for name in ("q_ok", "q_tables"):
        m = re.search(name + r"\s*=\s*(true|false)", out)
        res[name] = (m.group(1) == "true") if m else None
    for name in ("q_cycle", "q_edges"):
        m = re.search(name + r"\s*=\s*(\[.*?\])\s*:", out)
        res[name] = re.findall(r'\("([^"]+)"%?(?:string)?,\s*"([^"]+)"', m.group(1)) if m else None
    if rc != 0:
        res["log"] = (so + se)[-2000:]
    return res


def run(ctx):
    # 1. the skeleton was regenerated into Gen/Skel.v by `psh dump` before the theorems were compiled
    sk = read_gen_skel()
    ctx.extra["skeleton"] = dict(functions=len(sk["fn_names"]), lock_classes=sk["lock_names"], roots=sk["n_roots"],
                                 bindings=[b for b in sk["bindings"] if "swap.TxWatcher" in b or "Callback" in b or ".cb " in b or "callbackFactory" in b],
                                 extractor_warnings=sk["warnings"])
    ctx.extra["blocking_primitives_outside_model"] = sk["blocking"]
    if sk["warnings"]:
        ctx.tie_breaks.append(dict(what="skeleton extractor met constructs it cannot flatten soundly", detail="\n".join(sk["warnings"][:20])))
    q = coq_query(ctx)
    ctx.extra["lock_order"] = dict(check=q.get("q_ok"), tables=q.get("q_tables"), held_acquired_edges=q.get("q_edges"), edges_on_cycles=q.get("q_cycle"))
    if q.get("q_ok") is False:
        ctx.tie_breaks.append(dict(what="lock-order check fails on the regenerated skeleton (minus the known finding's call): held->acquired edges on a cycle (or self edge): %s"
                                        % "; ".join("%s -> %s" % e for e in (q.get("q_cycle") or [])),
                                   detail=json.dumps(q)[:3000]))
    if q.get("q_tables") is False:
        ctx.tie_breaks.append(dict(what="maker state tables no longer lead from the claim-payment wait through cancel / failed coop close / invalid message to the CSV refund",
                                   detail=""))
    if q.get("q_ok") is None:
        ctx.tie_breaks.append(dict(what="lock-order query does not evaluate", detail=q.get("log", "")))
    # 2. deadlock scenarios on the real code
    rounds = 1 if ctx.quick else 8
    d = ctx.harness("c18", args=["-rounds", rounds, "-watchdog", "5s"], timeout=1200)
    if d is None:
        return
    res = vlib.eval_cases(d)
    ctx.rules.append("deadlock scenarios: {rpc watcher driven directly, rpc watcher with its own goroutines, electrum watcher} x {swap-in sender, swap-out receiver} x CSV {not yet, just, long matured} when the trigger is delivered x trigger {cancel, coop close whose spend fails, invalid message} x order {trigger first, block notification first, concurrent with seeded jitter}; every injected call runs in its own goroutine, watchdog 5 s; observed = all calls returned, persisted final state, CSV spends built, active map; non-trivial: all; distinct by scenario tuple")
    ctx.absorb(res, "c18", signature=sig, mismatch_is_violation=False, describe=describe)
    # 3. the block dispatcher of the real RPC watcher while / after a slow confirmation callback
    d2 = ctx.harness("c18disp", outdir=ctx.work + "/disp", timeout=300)
    if d2 is not None:
        res2 = vlib.eval_cases(d2)
        ctx.rules.append("dispatcher scenarios: the real BlockchainRpcTxWatcher with its own block polling and dispatcher; 1-3 swaps whose confirmation callback runs 0.9-2.5 s while blocks arrive every 0.6-0.7 s, another swap's output maturing 4-8 blocks after it was mined; expected: the CSV notification is delivered (25 s limit)")
        ctx.absorb(res2, "disp", signature=lambda c: "dispatcher:blocks-no-longer-delivered-after-a-slow-confirmation-callback",
                   mismatch_is_violation=False,
                   describe=lambda c: "the RPC watcher stopped delivering blocks: a confirmation callback ran for %s ms, blocks every %s ms, and the CSV notification of another swap (csv %s) never arrived" % (
                       c.get("slow_confirmation_callback_ms"), c.get("block_interval_ms"), c.get("csv")))


def search(ctx):
    d = ctx.harness("c18", outdir=ctx.work + "/search", args=["-rounds", 10, "-watchdog", "5s"], timeout=2400)
    if d is None:
        return
    res = vlib.eval_cases(d)
    ctx.absorb(res, "c18-search", signature=sig, mismatch_is_violation=False, describe=describe)
