import vlib

PROP = dict(
    id="C20",
    corr=["Model/C20Corr.vo"],
    design_ref="DESIGN.md §6 C20",
    technique="Coq theorems over an executable Gallina model of the RPC watcher's observation loop / CSV handling (uint32 wrap-around explicit) and of the electrum observers, subscriber and header acceptance; model tied to the code by generated constants and a vm_compute correspondence against the real watchers driven over scripted fake bitcoind / electrum RPCs",
    level_text="Machine-checked Coq proofs for all RPC answers, notification sequences and heights: a 'confirmed' report implies the window is open and the located block is deep enough in the node's own view, a notification at or past the deadline yields a failure report, CSV reports imply confirmations >= csv, and every registration is reported at most once (acknowledged). The real watchers are executed against simulated chains with reorganisations, stale answers, RPC errors and notification lag on every run.",
    level_note="Trusted: Coq kernel, psh harness and its fake RPCs, hand-written model. Not modelled: the 500 ms poller/dispatcher goroutines (StartBlockWatcher), gRPC streams of lnd/txwatcher.go, electrum reconnect ticker.",
    assumptions=[
        "the node's RPC answers within one observation step are a function of the question (a step view), and the chain height the node reports does not fall below a height it reported earlier (notified height <= queried height) for the depth theorem",
        "the swap service's callback result is one of nil / ErrSwapDoesNotExist / other error",
    ],
    trusted_extra=["fake BlockchainRpc / electrum RPC in harness/c20.go; verif hook txwatcher/verif_hooks_watch.go (read-only accessors)"],
)


def sig(c):
    fn = c.get("fn")
    if fn == "rpc-confirmation":
        # arithmetic region: was a 'confirmed' issued while the notified height lagged the node's height by >= 2?
        for st, ob in zip(c.get("steps", []), c.get("observed_callbacks", [])):
            if any(o.startswith("ok") for o in ob):
                if st.get("has_truth") and st.get("truth_height", 0) - st.get("notified", 0) >= 2:
                    return "rpc-confirmation:confirmed-with-notified-height-lagging>=2"
                if st.get("has_truth") and st.get("truth_height", 0) < st.get("notified", 0):
                    return "rpc-confirmation:confirmed-with-notified-height-above-node-height"
                return "rpc-confirmation:confirmed"
        return "rpc-confirmation:other"
    return str(fn)


def describe(c):
    return "watcher %s: callbacks issued contradict the simulated chain's ground truth" % c.get("fn")


def run(ctx):
    n = 300 if ctx.quick else 6000
    d = ctx.harness("c20", args=["-n", n])
    if d is None:
        return
    res = vlib.eval_cases(d)
    ctx.extra["step_tags"] = res["summary"].get("step_tags", {})
    ctx.rules.append("four families: RPC watcher confirmation loop on simulated chains (mining, reorgs, spent outputs, stale height/hash answers, RPC errors, notification lag -2..3, repeats) and on synthetic uint32-boundary views; RPC CSV registration + HandleCsvTx sequences; lwk electrum watcher with 1-4 registrations over header sequences (nil/invalid/old/ahead headers, stale history, errors, callback refusals); non-trivial = a callback was issued or more than one step ran; distinct by full input")
    ctx.absorb(res, "c20", signature=sig, mismatch_is_violation=False, describe=describe)


def search(ctx):
    d = ctx.harness("c20", outdir=ctx.work + "/search", args=["-n", 3000])
    if d is None:
        return
    res = vlib.eval_cases(d)
    ctx.absorb(res, "c20-search", signature=sig, mismatch_is_violation=False, describe=describe)
