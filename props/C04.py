import os as _os, sys as _sys
_sys.path.insert(0, _os.path.dirname(_os.path.abspath(__file__)))
import vlib

PROP = dict(
    id="C04",
    corr=["Model/FsmCorr.vo", "Model/C04Corr.vo", "Model/TimelockCorr.vo"],
    design_ref="DESIGN.md §6 C04",
    technique="Coq: local guard lemma for the pay loop lifted by the generic engine rule to all histories with crashes (trace predicate relative to the last durable record); tables/constants regenerated from the code; step-level vm_compute correspondence against the real SwapService/FSM with fakes; monitor on observed effect traces",
    level_text="Machine-checked for every state table, history, environment and crash point: each RebalancePayment of a Liquid swap happens for a protocol-7 swap whose persisted record has the anchor set, with the tip in [anchor, anchor+60) and route limit 32; legacy Liquid swaps never pay; window arithmetic (60 + 10021 <= 10080 + 1). The timelock constants and state tables are regenerated from the code on each run and the model is compared step by step with the real state machine.",
    level_note="Trusted: Coq kernel; hand-written Gallina model of swap/actions.go and swap/fsm.go (tied by step-level correspondence on generated scenarios incl. directed ones); the fakes for Lightning/wallet/watcher; the invoice final-CLTV bound (<= 29) is checked by the monitor on observed traces and proved as part of C01's invoice invariant, not here; route construction (delay <= limit) is C24.",
    assumptions=[
        "the pay loop polls GetBlockHeight immediately before each RebalancePayment (modelled; the fake records the last polled tip)",
        "Liquid one-minute blocks and >= 32 Bitcoin blocks per 10021 minutes (stated by the property) for the resolution corollary",
    ],
)

MON = ["-monitor", "c04_monitor", "-imports", "From PS Require Import Model.C04Corr."]


def sig(c):
    return "fsm:%s:%s" % (c.get("role"), c.get("chain"))


def run(ctx):
    d0 = ctx.harness("timelockfn", args=["-n", 400 if ctx.quick else 8000])
    if d0 is not None:
        res0 = vlib.eval_cases(d0)
        ctx.rules.append("checkPaymentWindow / validateClaimInvoice on boundary grids (+-1 around anchor, anchor+window, 2^32 edge, msat +-1, cltv around 29) plus random values")
        ctx.absorb(res0, "timelockfn", signature=lambda c: c.get("fn"), mismatch_is_violation=True,
                   describe=lambda c: "%s accepts/rejects against the stated window / invoice rule" % c.get("fn"))
    n = 96 if ctx.quick else 1200
    d = ctx.harness("fsm", args=["-n", n, "-focus", "C04"] + MON)
    if d is None:
        return
    res = vlib.eval_cases(d)
    ctx.rules.append("scenarios of one swap driven through the real SwapService (4 roles x btc/lbtc; directed flows first, then random walks with failure injection, deviating peer messages, chain advances around both payment windows, restarts); a scenario is non-trivial when it has more than one step; distinct by role/chain/step kinds/final state")
    ctx.absorb(res, "fsm", signature=sig,
               describe=lambda c: "a Liquid claim payment was attempted outside the persisted window / with a wrong CLTV bound (role %s)" % c.get("role"))
    # watcher side: the Liquid tip the window check reads comes from the lwk electrum watcher (monotonic tip, opening tx
    # deadline): the C20 electrum family and monitor on the real watcher
    d2 = ctx.harness("c20", outdir=ctx.work + "/watch_elec", args=["-n", 150 if ctx.quick else 3000, "-only", "elec"])
    if d2 is not None:
        res2 = vlib.eval_cases(d2)
        ctx.rules.append("electrum watcher family (shared with C20): the real lwk electrum watcher over header sequences incl. lower / stale / invalid headers; compared with the watcher model (accepted tip never decreases), monitor: reports are true of the chain")
        ctx.absorb(res2, "watch-elec", signature=lambda c: "watcher:" + __import__("importlib").import_module("C20").sig(c),
                   mismatch_is_violation=False,
                   describe=lambda c: "the electrum watcher (%s) reported a height / confirmation that is not true of the simulated chain" % c.get("fn"))


def search(ctx):
    d = ctx.harness("fsm", outdir=ctx.work + "/search", args=["-n", 600, "-focus", "C04"] + MON)
    if d is None:
        return
    res = vlib.eval_cases(d)
    ctx.absorb(res, "fsm-search", signature=sig)
