"""Shared driver code for the service-layer properties C09, C10, C11 (psh svc)."""
import vlib

RULE = ("service-layer scenarios on one node with up to four swaps: peer requests (fresh / re-used ids of active, finished and "
        "stored-but-unrecovered swaps; both channel-id spellings; capacity and premium-limit boundaries; amounts in the "
        "amount*1000 wrap region), RPC SwapOut/SwapIn, messages of every type from the counterparty / a third party / about "
        "unknown ids / at the wrong time, restarts with and without recovery, one schedule-controlled concurrent lock; directed "
        "scenarios first; after every operation the active-swap map and the bbolt store are dumped and compared with the model; "
        "a scenario is non-trivial when it has more than one operation; distinct by operation kinds and results")


def run_svc(ctx, monitor, clauses_fn, classify, describe, n_quick=48, n_thorough=900, label="svc"):
    n = n_quick if ctx.quick else n_thorough
    d = ctx.harness("svc", args=["-n", n, "-monitor", monitor, "-imports", "From PS Require Import Model.C09Corr."])
    if d is None:
        return
    res = vlib.eval_cases(d)
    clauses = vlib.eval_nat_lists(d, "map %s cases" % clauses_fn) if res["monitor_violations"] else None
    cases = res["cases"]
    if clauses is not None:
        for i, c in enumerate(cases):
            c["_clauses"] = clauses[i] if i < len(clauses) else []
    ctx.rules.append(RULE)
    ctx.absorb(res, label, signature=classify, describe=describe)
