import vlib

PROP = dict(
    id="C30",
    corr=["Model/C30Corr.vo"],
    design_ref="DESIGN.md §6 C30",
    technique="Coq theorems (rate selection, floor gate, version total order) over an executable Gallina model; model tied to the code by generated constants + vm_compute correspondence against DetermineFeeFloor/GetFee/CompareVersionStrings",
    level_text="Machine-checked Coq proofs for all inputs: the floor is 25 exactly from version 29.2 and 253 otherwise, the selected rate is max(floor, fallback-or-estimate), and CompareVersionStrings is >= on zero-extended numeric components (reflexive, total, transitive, antisymmetric up to zero padding). The model is executed against the real Go functions on generated inputs every run.",
    level_note="Trusted: Coq kernel, psh dump/harness, hand-written model of the regexp and of strconv.Atoi range errors; float64 fee arithmetic modelled with Coq primitive floats (kernel primitives appear under Print Assumptions). Only the rate, not the float fee amount, is covered by the order theorems.",
    assumptions=[
        "regexp \\d / [0-9] match ASCII digits only; leftmost-first matching (Go regexp semantics) modelled by hand",
        "strconv.Atoi fails exactly above 2^63-1 on digit runs",
        "float64(int64) exact below 2^53 (harness keeps rates and sizes in that range)",
    ],
    trusted_extra=["Coq primitive floats/ints (PrimFloat.*, PrimInt63.*) used to model float64 fee arithmetic"],
)


def sig(c):
    return "%s" % c.get("fn")


def run(ctx):
    n = 600 if ctx.quick else 12000
    d = ctx.harness("c30", args=["-n", n])
    if d is None:
        return
    res = vlib.eval_cases(d)
    ctx.rules.append("three families (DetermineFeeFloor on generated version strings incl. non-ASCII digits and 2^63 boundaries; GetFee on boundary/random estimator answers, errors, fallbacks, floors, sizes; CompareVersionStrings on pairs incl. equal and zero-extended strings); a case is non-trivial when the version normalises / the strings are non-empty / always for GetFee; distinct by input")
    ctx.absorb(res, "c30", signature=sig, mismatch_is_violation=True,
               describe=lambda c: "observed result of %s violates the stated floor/fallback/order rule" % c.get("fn"))


def search(ctx):
    # thorough-scale generation as failing-input search
    d = ctx.harness("c30", outdir=ctx.work + "/search", args=["-n", 12000])
    if d is None:
        return
    res = vlib.eval_cases(d)
    ctx.absorb(res, "c30-search", signature=sig, mismatch_is_violation=True)
