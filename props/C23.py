import vlib

PROP = dict(
    id="C23",
    corr=["Model/FsmCorr.vo", "Model/C23Corr.vo"],
    design_ref="DESIGN.md §6 C23",
    technique="Coq: structural characterisation of every sent message relative to the last durable record, lifted by the (relational) engine rule to all admissible histories with crashes; reflective table check (TakerSendPrivkeyAction absent from the maker tables) via a name-aware exec rule; per-site information-flow lemmas (two runs differing only in the secrets write the same message); on the real code a byte scan of every sent message and persisted text for renderings of the secrets",
    level_text="Machine-checked for all four generated tables, every admissible history, environment and crash point: each sent message goes to the swap's peer and is a bare cancel or the durable record's pending own protocol message or the coop_close (swap id, \"\", swap key); makers never send a coop_close; only five actions write the pending slot and what request/agreement builders write is independent of the swap key, the claim/fee preimages and the drawn preimages. Real messages are byte-scanned on every run.",
    level_note="Trusted: Coq kernel; hand-written Gallina model (tied by step-level correspondence; cancel/coop message TEXTS are projected to \"\" in the model, so text content is covered by the byte scan only); fakes. Wallet keys never enter the swap package (the Wallet interface returns txids/addresses only) - not modelled. For opening_tx_broadcasted the independence of payreq/txid from the drawn preimage is the Lightning node's / wallet's behaviour (world answers), only the structure is proved (c23_opening_message_site_partial).",
    assumptions=[
        "hist_ok: the service layer hands request messages only to swaps it has just created (History.input_allowed)",
        "the invoice string returned by the own Lightning node and the txid returned by the wallet do not encode the preimage (environment; observed by the byte scan with the fakes)",
    ],
)

ARGS = ["-observer", "c23", "-casetype", "c23_case", "-check", "c23_check", "-monitor", "c23_monitor",
        "-imports", "From PS Require Import Model.C23Corr."]


def sig(c):
    return "fsm:%s:%s" % (c.get("role"), c.get("chain"))


def describe(c):
    return "a sent message / persisted text of a %s swap on %s contains a secret or is not one of the record's own messages" % (c.get("role"), c.get("chain"))


def run(ctx):
    n = 120 if ctx.quick else 1000
    d = ctx.harness("fsm", args=["-n", n, "-focus", "C23"] + ARGS)
    if d is None:
        return
    res = vlib.eval_cases(d)
    ctx.rules.append("scenarios of one swap driven through the real SwapService (4 roles x btc/lbtc; directed flows incl. every failure path that ends in cancel / coop_close, then random walks with failure injection, deviating peer messages, chain advances, restarts); real random keys and preimages; per step the bytes of every message handed to the messenger and the persisted cancel_message / last_err / rejection reasons are scanned for hex (both cases), raw, decimal-array (%v and JSON) and base64 renderings of the swap key, all preimages seen so far and the own blinding key")
    ctx.absorb(res, "fsm", signature=sig, describe=describe)


def search(ctx):
    d = ctx.harness("fsm", outdir=ctx.work + "/search", args=["-n", 300, "-focus", "C23"] + ARGS)
    if d is None:
        return
    res = vlib.eval_cases(d)
    ctx.absorb(res, "fsm-search", signature=sig, describe=describe)
