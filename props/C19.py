import json
import os
import re

import vlib

PSH_RACE = os.path.join(vlib.WORK, "bin", "psh-race")

PROP = dict(
    id="C19",
    corr=["Model/C19Corr.vo"],
    design_ref="DESIGN.md §6 C19, §8 (claimed partial)",
    technique="PARTIAL: Coq theorem lockset_sound for arbitrary lock/access skeletons (small-step interleaving semantics; every conflicting pair of access sites shares a lock, where the lockset of a site is what its function acquired so far plus what EVERY caller holds => conflicting accesses of different threads are never simultaneously enabled) + the boolean check decided by vm_compute on the skeleton regenerated from the source on every run, minus the named site pairs of the known finding; run-time part: the harness built with `go build -race` hammers every concurrent entry point of a real SwapService / real watchers / real policy.Policy, the race detector's reports are mapped back to skeleton sites",
    level_text="Machine-checked proof that, over today's lock/access skeleton, any schedule of any number of threads started at the concurrent entry points enables two conflicting accesses to a shared field class at the same time only at the site pairs of the two recorded findings (or inside start-up / not-yet-published-object functions, listed with reasons). The skeleton is re-extracted from the working tree and the lockset check re-evaluated on every run; a new unsynchronised access site falls outside the exclusion and fails the theorem. Every run also executes the race-detector stress (peer messages, watcher callbacks and block notifications, payment notifications, timeouts, restart recovery, RPC-style calls and policy commands, concurrently, on three node configurations).",
    level_note="Partial by design: the theorem is about the skeleton (field and lock CLASSES with the ownership assumption that a SwapData is reached only through its machine; control flow flattened under extractor-checked balance conditions; RLock treated as exclusive under an extractor-checked side condition; only the shared object types listed in the extractor are tracked). The Go memory model, the scheduler and the race detector are run-time: a race is observed only if the stress happens to execute both accesses concurrently. Accesses from packages outside the six analysed ones (peerswaprpc, clightning, lnd, cmd) are not in the skeleton.",
    assumptions=[
        "ownership: a SwapData / SwapStateMachine instance is reached only through its own machine and the service's active map; lock and field classes stand for the instance of the swap at hand",
        "the functions in c19_init_fns run before the service accepts any message, command or notification; the functions in c19_private_fns only touch objects that no other goroutine can reach yet (reasons in coq/Model/C19Corr.v)",
        "the skeleton extractor reports every access to a field of the tracked shared types, including whole-object reads by json/fmt",
    ],
    trusted_extra=["skeleton extractor harness/c18_skel.go", "race stress workload harness/c19.go with the fakes of harness/c18_fakes.go; Go race detector (ThreadSanitizer runtime)"],
)


def _in_recover(acc):
    # innermost first: the access is made by Recover's own, unlocked part if Recover is met before any SendEvent
    for fr in acc.get("frames") or []:
        if "SwapStateMachine).SendEvent" in fr:
            return False
        if "SwapStateMachine).Recover" in fr:
            return True
    return False


def sig(c):
    if c.get("kind") == "race" and (_in_recover(c.get("a", {})) or _in_recover(c.get("b", {}))):
        return "race:recover-without-mutex"
    if c.get("kind") == "race":
        return "race:%s:%s:%s" % (",".join(c.get("fields") or ["?"]), c.get("fn_a"), c.get("fn_b"))
    return "stress:%s:hung" % c.get("entry")


def describe(c):
    if c.get("kind") == "race":
        a, b = c.get("a", {}), c.get("b", {})
        return ("DATA RACE reported by the race detector on %s: %s at %s:%s (%s) vs %s at %s:%s (%s), %s report(s)"
                % (",".join(c.get("fields") or ["?"]), a.get("kind"), a.get("file"), a.get("line"), c.get("fn_a"),
                   b.get("kind"), b.get("file"), b.get("line"), c.get("fn_b"), c.get("reports")))
    return "stress workload did not stop: a worker goroutine is blocked"


QUERY = """From Coq Require Import NArith Bool String List.
Import ListNotations.
From PS Require Import Gen.Skel Model.Skel Model.C19Corr.
Definition q_ok := Eval vm_compute in c19_skeleton_ok.
Print q_ok.
Definition q_unexcused := Eval vm_compute in c19_unexcused.
Print q_unexcused.
Definition q_static := Eval vm_compute in (length c19_static_pairs_now).
Print q_static.
"""


def coq_query(ctx):
    d = os.path.join(ctx.work, "query")
    os.makedirs(d, exist_ok=True)
    open(os.path.join(d, "q.v"), "w").write(QUERY)
    rc, so, se, dt = vlib.sh(["coqc", "-Q", vlib.COQ, "PS", "q.v"], cwd=d, timeout=600)
    out = so.replace("\n", " ")
    res = dict(rc=rc)
    m = re.search(r"q_ok\s*=\s*(true|false)", out)
    res["ok"] = (m.group(1) == "true") if m else None
    m = re.search(r"q_unexcused\s*=\s*(\[.*?\])\s*:\s*list", out)
    res["unexcused"] = re.findall(r'\("([^"]+)",\s*\("([^"]+)",\s*"([^"]+)"\)\)', m.group(1)) if m else None
    m = re.search(r"q_static\s*=\s*(\d+)", out)
    res["static_pairs"] = int(m.group(1)) if m else None
    if rc != 0:
        res["log"] = (so + se)[-2000:]
    return res


def build_race(ctx):
    with vlib.Lock("build-race"):
        rc, so, se, dt = vlib.sh(["go", "build", "-race", "-tags", "verif fast_test", "-o", PSH_RACE, "."], cwd=vlib.HARNESS, timeout=3000)
    ctx.extra["race_build_s"] = round(dt, 1)
    if rc != 0:
        ctx.tie_breaks.append(dict(what="go build -race of the harness failed", detail=(so + se)[-3000:]))
        return False
    return True


def stress(ctx, label, dur, outdir=None, seed_shift=0):
    d = ctx.harness("c19", outdir=outdir, args=["-bin", PSH_RACE, "-dur", dur], timeout=3000) if seed_shift == 0 else None
    if seed_shift:
        outdir = outdir or os.path.join(ctx.work, "c19-" + label)
        os.makedirs(outdir, exist_ok=True)
        rc, so, se, dt = vlib.sh([vlib.PSH, "c19", "-out", outdir, "-seed", str(ctx.seed + seed_shift), "-bin", PSH_RACE, "-dur", dur], timeout=3000)
        if rc != 0:
            ctx.tie_breaks.append(dict(what="harness psh c19 failed (rc=%d)" % rc, detail=(so + se)[-3000:]))
            return
        d = outdir
    if d is None:
        return
    res = vlib.eval_cases(d)
    summ = res["summary"]
    ctx.extra.setdefault("stress", []).append(dict(label=label, duration=dur, race_reports=summ.get("race_reports"), distinct_races=summ.get("distinct_races"),
                                                   entry_point_calls=summ.get("stress_counts"), hung=summ.get("hung")))
    ctx.absorb(res, label, signature=sig, mismatch_is_violation=False, describe=describe)


def run(ctx):
    q = coq_query(ctx)
    ctx.extra["lockset"] = dict(check_minus_known=q.get("ok"), unexcused_pairs=q.get("unexcused"), pairs_failing_without_any_exclusion=q.get("static_pairs"),
                                exclusions="coq/Model/C19Corr.v: c19_known (site pairs of findings C19/1-2), c19_known_ops (the two unlocked calls of finding C19/2 taken out of Recover), c19_init_fns, c19_private_fns")
    if q.get("ok") is None:
        ctx.tie_breaks.append(dict(what="lockset query does not evaluate", detail=q.get("log", "")))
    elif q.get("unexcused"):
        ctx.tie_breaks.append(dict(
            what="lockset check fails on the regenerated skeleton: access pairs (field, function, function) without a common lock that are not a known finding: %s"
                 % "; ".join("%s: %s <-> %s" % t for t in q["unexcused"][:12]),
            detail=json.dumps(q["unexcused"])[:4000]))
    elif q.get("ok") is False:
        ctx.tie_breaks.append(dict(what="skeleton no longer well formed / extractor warnings / must-hold sets do not validate", detail=json.dumps(q)[:2000]))
    if not build_race(ctx):
        return
    ctx.rules.append("race stress: three nodes (rpc watcher on btc, electrum watcher on lbtc, rpc watcher on lbtc; real SwapService, real bbolt store, real policy.Policy on a file), per node 9 goroutines: 2 starting swaps in all four roles, 3 delivering cancel / coop close / invalid / duplicate messages, CSV, confirmation, payment and timeout notifications to the same few recent swaps, 1 RPC-style reader (list/get/resend/rejected swap-out), 1 policy commands, 1 miner (blocks + HandleCsvTx), 1 restart (new service over the same store recovering while messages arrive); cases = distinct race reports (both first repository frames + field classes of the source lines) and one case per entry-point family that ran; non-trivial = ran at least once")
    stress(ctx, "c19", "8s" if ctx.quick else "180s")


def search(ctx):
    if not os.path.exists(PSH_RACE) and not build_race(ctx):
        return
    stress(ctx, "c19-search", "45s", seed_shift=7)
