import vlib

PROP = dict(
    id="C03",
    corr=["Model/C03Corr.vo"],
    design_ref="DESIGN.md §6 C03",
    technique="Coq theorems over an executable Gallina model of the spending-transaction builders (CLN/LND wallet adapters over BitcoinOnChain, LiquidOnChain) for all validator-accepted opening transactions, keys, preimages, fee estimates; 'satisfies the opening script' obtained from C02's interpreter theorem for the witness the builder makes; BIP-68 maturity; model tied to the code by builder constants probed every run and by vm_compute correspondence against the REAL adapters run on fake wallet RPCs, with every Bitcoin spend executed by btcd's script engine and every Liquid spend unblinded / proof-verified / balance-checked / signature-checked with go-elements",
    level_text="Machine-checked Coq proofs: for every opening transaction the validator accepts (any output count and order), every key, hash, preimage, wallet address of the requested kind and every fee estimate that leaves a positive payout, each preimage claim, cooperative claim and CSV refund the CLN and LND adapters (Bitcoin) and LiquidOnChain (Liquid) build is ONE transaction with ONE input spending the validated swap output, whose witness is one of C02's three accepted shapes with signatures made over the consensus digest (swap amount / value commitment), with a single output to the wallet's address of amount minus fee (Bitcoin: estimator fee + fixed 200 sat margin; Liquid: plus the explicit fee output), version 2, sequence 1008/10080/60 for the refund (mineable at height h iff h >= confirmation + csv; no maker-only spend of these scripts is mineable earlier) and 0 for the claims.",
    level_note="Trusted: Coq kernel; hand-written model of the builders (compared every run with the real code: result, every field of every broadcast transaction, which key signed which digest, validator verdict, btcd engine verdict); ECDSA / BIP-143 / Elements sighash, SHA-256, blinding, range and surjection proofs are NOT modelled (signatures are abstract items constrained by the visible hypothesis sigs_verify; the harness checks the real digests, runs btcd's engine for Bitcoin and verifies real Liquid signatures, proofs and commitment balance); no Elements script interpreter offline (C02's assumption); float64 fee arithmetic enters only through C30's get_fee in the correspondence run, theorems quantify over all fee functions. Domain restriction: fee + 200 <= amount (Bitcoin), 0 < fee < amount (Liquid); outside it the value formula with wrap-around is a stated theorem (negative / unprovable output, the swap retries).",
    assumptions=[
        "signatures made over the digest consensus verification computes verify under the signer's public key (hypothesis sigs_verify of the theorems)",
        "the P2WSH program of the validated output is the SHA-256 of the opening script (oracle input `want`; SHA-256 collision resistance)",
        "wallet addresses are segwit v0 with 20- or 32-byte programs (the adapters request bech32 / WITNESS_PUBKEY_HASH; checked on the fake RPCs every run) and confidential on Liquid",
        "keys and payment hash decode to at most 520 bytes (longer data makes the script builder fail)",
        "Elements executes the opening script's opcodes like Bitcoin; BIP 68 as modelled by bip68_blocks",
    ],
    trusted_extra=["btcd txscript engine (reference for BIP-141/143/112 on every Bitcoin spend)", "go-elements / secp256k1-zkp (unblinding, proof verification, Elements sighash) as observation instruments"],
)


def sig(c):
    fam = c.get("family")
    if fam == "btc":
        return "btc:%s:%s:%s" % (c.get("backend"), c.get("kind"), c.get("layout"))
    return "lbtc:%s:%s" % (c.get("kind"), c.get("layout"))


def describe(c):
    o = c.get("observed", {})
    return ("%s %s built from a validator-accepted opening transaction (layout %s, amount %s): result %s, btcd engine accepts: %s, broadcast: %s — "
            "does not spend the validated output / does not satisfy the script / does not pay amount-fee to the wallet address / wrong relative lock"
            % (c.get("family"), c.get("kind"), c.get("layout"), c.get("params", {}).get("amount"), o.get("result"),
               o.get("btcd_engine_accepts"), str(o.get("broadcast"))[:600]))


def _run(ctx, label, outdir=None, thorough=False):
    args = ["-n", 6000 if thorough else 400, "-nl", 400 if thorough else 36]
    d = ctx.harness("c03", outdir=outdir, args=args, timeout=3000)
    if d is None:
        return
    res = vlib.eval_cases(d)
    ctx.absorb(res, label, signature=sig, mismatch_is_violation=False, describe=describe)


def run(ctx):
    ctx.rules.append("two families. (btc) REAL clightning / lnd Create{Preimage,Csv,Coop}SpendingTransaction over REAL BitcoinOnChain against a fake lightningd socket + bitcoind HTTP RPC / fake lnd gRPC clients: directed grid backend x kind x 9 opening layouts (swap only / first / change first / equal-amount change first / three outputs / swap twice / wrong amount / wrong script / no outputs), then random: amounts incl. 0, 199..201, 2^31, 2^32, 2^53, 2^63, 2^64-1, estimator answers (error, 0, below floor, huge), malformed key / hash / preimage / opening hex, wrong signer keys, wallet failures, p2wsh wallet address; every broadcast transaction parsed, digests handed to the signers compared with BIP-143 digests, btcd engine (standard flags) run against the spent opening output. "
                     "(lbtc) REAL LiquidOnChain builders with go-elements on opening transactions with really blinded outputs (10 layouts incl. swap output last, explicit, wrong amount / asset / blinding key, shadowed), fees 0 / error / = amount / > amount, legacy and protocol-7 csv; receiver output unblinded with the wallet key, range + surjection proofs verified, commitments balanced, signatures compared with the Elements segwit digest over the spent value commitment. "
                     "check = model equals observation on all projected fields; monitor = the property on observed data for in-domain cases (validator-accepted opening, right signers, matching preimage, fee leaves a payout). non-trivial: successful builds and all non-default layouts; distinct by input")
    _run(ctx, "c03", thorough=not ctx.quick)


def search(ctx):
    _run(ctx, "c03-search", outdir=ctx.work + "/search", thorough=True)
