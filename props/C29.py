import vlib

PROP = dict(
    id="C29",
    corr=["Model/C29Corr.vo"],
    design_ref="DESIGN.md §6 C29",
    technique="Coq theorems over an executable Gallina model of VersionService.SafeUpgrade + SwapService.HasActiveSwaps + bboltStore.ListAll + IsFinished (terminal set and version constant regenerated from the code, terminal set cross-checked against the four state tables); model tied to the code by a vm_compute correspondence run against the real services on real bbolt files holding swaps in every state",
    level_text="Machine-checked Coq proofs for all store contents (swaps in any state, undecodable records) and all stored versions (including none): the stored version changes only if every persisted swap is terminal, and then to the current version with startup succeeding; if a replacement is due and a swap is not terminal (or unreadable) startup fails and version and swaps are unchanged; swaps are never touched; extended by induction to all histories of starts of arbitrary binaries interleaved with arbitrary swap activity.",
    level_note="Trusted: Coq kernel, psh dump/harness, the hand-written model (tied by the correspondence run), bbolt as a map, encoding/json decoding of swap records (a record either yields its Current state or fails). IsFinished on state names outside the four tables is sampled, not enumerated. Reading of 'otherwise': with the stored version already current nothing is replaced and startup succeeds regardless of swaps (c29_same_version_is_noop).",
    assumptions=[
        "bbolt buckets are maps; a write transaction that is not reached leaves the file unchanged",
        "json.Unmarshal of a persisted swap either fails or yields the Current state that was stored",
        "IsFinished is false on every string that is not a state name of the four tables (sampled by the harness)",
    ],
    trusted_extra=[],
)


def sig(c):
    return "%s" % c.get("kind")


def run(ctx):
    n = 500 if ctx.quick else 10000
    d = ctx.harness("c29", args=["-n", n])
    if d is None:
        return
    res = vlib.eval_cases(d)
    ctx.rules.append(
        "boundary table: every state name of the four tables (and unknown/near-miss names) alone x stored version {older, none, current}; "
        "empty store, undecodable record, all terminal states together x {older, none, current, empty string}; random: 0-8 swaps (all terminal / "
        "terminal with one active / any states), 6% unknown state, 6% undecodable record, stored version from a pool incl. none, near-misses of the "
        "current version; real SwapStateMachine records written through bboltStore.UpdateData; a second SafeUpgrade on the same file is observed too. "
        "Non-trivial = stored version differs from the current one; distinct by (stored version, multiset of states)")
    ctx.absorb(res, "c29", signature=sig, mismatch_is_violation=False,
               describe=lambda c: "SafeUpgrade outcome violates the property (%s)" % c.get("kind"))


def search(ctx):
    d = ctx.harness("c29", outdir=ctx.work + "/search", args=["-n", 10000])
    if d is None:
        return
    res = vlib.eval_cases(d)
    ctx.absorb(res, "c29-search", signature=sig, mismatch_is_violation=False)
