import sys, os
sys.path.insert(0, os.path.dirname(__file__))
import svc_common

PROP = dict(
    id="C10",
    corr=["Model/SvcCorr.vo", "Model/C09Corr.vo", "Model/C10Scid.vo"],
    design_ref="DESIGN.md §6 C10",
    technique="Coq invariant (distinct active swaps have distinct normalised channel ids) proved by induction over all sequences of service operations, using a step-level frame lemma obtained from the generic engine rule; vm_compute correspondence of lockSwap/request handling against the real SwapService; monitor on observed nodes incl. one schedule-controlled interleaving; plus lightning.Scid.ClnStyle / LndStyle compared with the separator normalisation lockSwap relies on; plus, on the real lnd / clightning adapters: which spellings of a channel id SpendableMsat / ReceivableMsat resolve to the node's channel (psh scidres, Model/C10ScidRes.v; theorem c10_resolved_spelling_of_busy_channel_refused)",
    level_text="Machine-checked for every sequence of peer messages and RPC initiations (sequential semantics), every environment and table set: at most one active swap per channel in either spelling; a request for a busy channel is answered with cancel. The statement over ALL interleavings is kept in full, refuted (lock taken before the request is attached) and recorded as a known finding together with the request-before-recovery window; the spelling defect was repaired (fix: commit). Adapter side: any spelling of an active swap's channel that the adapters' look-up (equal after the separator normalisation; tied to the real lnd / clightning SpendableMsat / ReceivableMsat on every run) resolves to that channel is refused by lockSwap.",
    level_note="Trusted: Coq kernel, model of service.go tied by the svc correspondence, fakes. Partial: true concurrency is represented only by the two-caller lock interleaving (Coq witness + one schedule-controlled run on the real code); recovery of several stored swaps runs concurrently in the code and is not modelled.",
    assumptions=["handlers run to completion one after the other, except for the explicitly modelled lock/attach window"],
)


def classify(c):
    cl = sorted(set(c.get("_clauses") or []))
    kinds = [o.get("op") for o in c.get("ops", [])]
    if 1 in cl:
        if "rpc_out_blocked" in kinds:
            return "c10:concurrent-lock-before-request-attached"
        if "restart_norecover" in kinds:
            return "c10:request-before-recovery"
        return "c10:two-active-swaps-on-one-channel"
    if 2 in cl:
        return "c10:busy-channel-request-not-cancelled"
    return "c10:unclassified"


def run(ctx):
    svc_common.run_svc(ctx, "c10_monitor", "c10_clauses", classify,
                       lambda c: "two active swaps on one channel / busy-channel request not cancelled (clauses %s)" % sorted(set(c.get("_clauses") or [])))
    run_scid(ctx)
    run_scidres(ctx)


def run_scidres(ctx):
    import vlib
    d = ctx.harness("scidres", outdir=ctx.work + "/scidres", args=["-n", 6 if ctx.quick else 150])
    if d is None:
        return
    res = vlib.eval_cases(d)
    ctx.rules.append("scidres family: the real lnd.Client (fake lnrpc client) and the real ClightningClient (fake lightningd socket) are asked for SpendableMsat / ReceivableMsat of many spellings of the node's only channel (canonical, other separator, leading zeros, signs, blanks, extra / missing blocks, neighbouring channels, values that alias modulo 2^24 / 2^16); model: resolved iff equal after the separator normalisation; monitor: every resolved spelling is one lockSwap takes for that channel (theorem c10_resolved_spelling_of_busy_channel_refused)")
    ctx.absorb(res, "scidres", signature=lambda c: "scidres:adapter-resolves-a-spelling-lockSwap-keeps-apart",
               mismatch_is_violation=False,
               describe=lambda c: "%s %s(%r) resolves to the node's channel %s although lockSwap does not take that spelling for this channel: a request naming a busy channel this way passes the look-up and the one-swap-per-channel guard" % (c.get("backend"), c.get("fn"), c.get("id"), c.get("node_channel")))


def run_scid(ctx):
    import vlib
    d = ctx.harness("scid", outdir=ctx.work + "/scid", args=["-n", 150 if ctx.quick else 3000])
    if d is None:
        return
    res = vlib.eval_cases(d)
    ctx.rules.append("scid family: the real lightning.Scid.ClnStyle / LndStyle on canonical ids, ids with leading zeros, mixed / other separators and junk, compared with the separator normalisation lockSwap uses; monitor: both renderings name the channel lockSwap takes the id for")
    ctx.absorb(res, "scid", signature=lambda c: "scid:rendering-changes-more-than-the-separator",
               mismatch_is_violation=True,
               describe=lambda c: "lightning.Scid renders %r as %r / %r: the adapters would resolve it to a channel that lockSwap does not take it for" % (c.get("id"), c.get("cln_style"), c.get("lnd_style")))


def search(ctx):
    run(ctx)
