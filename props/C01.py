import vlib

PROP = dict(
    id="C01",
    corr=["Model/FsmCorr.vo", "Model/C01Corr.vo"],
    design_ref="DESIGN.md §6 C01",
    technique="Coq: invoice-checked invariant + validate-before-pay ghost, carried by a ghost-threaded engine rule through all histories with crashes; reflective table check; step-level vm_compute correspondence against the real SwapService/FSM; monitor on observed effect traces",
    level_text="(filled in below)",
    level_note="",
    assumptions=[],
)

MON = ["-monitor", "c01_monitor", "-imports", "From PS Require Import Model.C01Corr."]


def sig(c):
    return "fsm:%s:%s" % (c.get("role"), c.get("chain"))


def run(ctx):
    n = 160 if ctx.quick else 2400
    d = ctx.harness("fsm", args=["-n", n, "-focus", "C01"] + MON)
    if d is None:
        return
    res = vlib.eval_cases(d)
    ctx.rules.append("scenarios of one swap driven through the real SwapService (4 roles x btc/lbtc; directed flows first, then random walks with failure injection, deviating peer messages incl. invoice amount +-1 / CLTV around the bounds / undecodable invoices, chain advances, restarts); non-trivial = more than one step; distinct by role/chain/step kinds/final state")
    ctx.absorb(res, "fsm", signature=sig,
               describe=lambda c: "a claim payment was made without the invoice / validation / confirmation conditions of C01 (role %s, chain %s)" % (c.get("role"), c.get("chain")))


def search(ctx):
    d = ctx.harness("fsm", outdir=ctx.work + "/search", args=["-n", 800, "-focus", "C01"] + MON)
    if d is None:
        return
    res = vlib.eval_cases(d)
    ctx.absorb(res, "fsm-search", signature=sig)
