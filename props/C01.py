import os as _os, sys as _sys
_sys.path.insert(0, _os.path.dirname(_os.path.abspath(__file__)))
import vlib

PROP = dict(
    id="C01",
    corr=["Model/FsmCorr.vo", "Model/C01Corr.vo", "Model/C03Corr.vo", "Model/C01Validator.vo", "Model/C01Decoder.vo", "Model/C20Corr.vo"],
    design_ref="DESIGN.md §6 C01",
    technique="Coq: invoice-checked invariant + validate-before-pay ghost, carried by a ghost-threaded engine rule through all histories with crashes; reflective table check; step-level vm_compute correspondence against the real SwapService/FSM; monitor on observed effect traces; plus, on the real code: the validators of both chains on generated opening transactions, DecodePayreq of both Lightning adapters, and the RPC / electrum watchers' confirmation families (monitors Model/C01Validator.v, Model/C01Decoder.v, C20's)",
    level_text="Machine-checked for every state table passing a reflective check (decided on the four generated tables each run), every invoice decoder, every history the environment can produce (requests only create swaps, confirmation callbacks only for a watch registered in the current process, any environment answers, crashes after any effect + restarts from the last durable record): every RebalancePayment pays exactly the invoice of the peer's opening_tx_broadcasted message of the durable record, of a Bitcoin or protocol-7 Liquid swap, whose invoice has amount = claim amount*1000 (mod 2^64), final CLTV <= 504 / 0..29 and whose hash is the bound ClaimPaymentHash, and is preceded in the same action by ValidateTx(both pubkeys, that hash, negotiated on-chain amount, CSV 1008/10080, peer's blinding key, delivered OpeningTxHex) = true; every confirmation watch is for the announced txid/vout; every record persisted in a paying state satisfies the invoice invariant. Non-vacuity: an observed paying history satisfies the predicate, perturbed traces are rejected.",
    level_note="Trusted: Coq kernel; hand-written Gallina model of swap/actions.go and swap/fsm.go tied by step-level correspondence on generated + directed scenarios (incl. crashes around the payment); fakes for Lightning/wallet/watcher/validator: what ValidateTx checks on real transactions is C03/C08, watcher depth (3/2 confirmations, constants pinned here) is C20; that a payment happens only in a confirmation callback for a watch registered since the last restart, or in a restart that finds the paying state, is checked by the monitor on observed scenarios (the theorem covers it through the invariant, it is not a separate statement).",
    assumptions=[
        "BOLT-11 decoding is a pure function of the invoice string and never yields an empty payment hash",
        "confirmation callbacks are delivered only for a watch registered in the current process (hist_ok / input_allowed)",
    ],
)

MON = ["-monitor", "c01_monitor", "-imports", "From PS Require Import Model.C01Corr."]


def sig(c):
    return "fsm:%s:%s" % (c.get("role"), c.get("chain"))


def run(ctx):
    n = 160 if ctx.quick else 2400
    d = ctx.harness("fsm", args=["-n", n, "-focus", "C01"] + MON)
    if d is None:
        return
    res = vlib.eval_cases(d)
    ctx.rules.append("scenarios of one swap driven through the real SwapService (4 roles x btc/lbtc; directed flows first, then random walks with failure injection, deviating peer messages incl. invoice amount +-1 / CLTV around the bounds / undecodable invoices, chain advances, restarts); non-trivial = more than one step; distinct by role/chain/step kinds/final state")
    ctx.absorb(res, "fsm", signature=sig,
               describe=lambda c: "a claim payment was made without the invoice / validation / confirmation conditions of C01 (role %s, chain %s)" % (c.get("role"), c.get("chain")))
    run_validators(ctx, 150 if ctx.quick else 3000, 24 if ctx.quick else 120)
    run_decoder(ctx, 150 if ctx.quick else 3000)
    run_watchers(ctx, 150 if ctx.quick else 3000)


def _c20sig(c):
    # the arithmetic regions of C20's classification (a known region there is the same defect here)
    import importlib
    return importlib.import_module("C20").sig(c)


def run_watchers(ctx, n):
    """watcher side: the real RPC / electrum watchers report the opening transaction confirmed only with the required depth on the best chain (the C20 families and monitor)"""
    for fam in ("conf", "elec"):
        d = ctx.harness("c20", outdir=ctx.work + "/watch_" + fam, args=["-n", n, "-only", fam])
        if d is None:
            continue
        res = vlib.eval_cases(d)
        ctx.absorb(res, "watch-" + fam, signature=lambda c: "watcher:" + _c20sig(c),
                   mismatch_is_violation=False,
                   describe=lambda c: "watcher %s reported the opening transaction confirmed although the simulated chain does not hold it at the required depth" % c.get("fn"))
    ctx.rules.append("watcher families (shared with C20): the real BlockchainRpcTxWatcher confirmation loop on simulated chains with reorgs / stale answers / notification lag, and the real lwk electrum watcher over header sequences; monitor: a confirmation report is true of the chain")


def run_decoder(ctx, n, outdir=None):
    """decoder side: the REAL DecodePayreq of the CLN and LND adapters hands over exactly what the node decoded"""
    d = ctx.harness("decoder", outdir=outdir or (ctx.work + "/decoder"), args=["-n", n])
    if d is None:
        return
    res = vlib.eval_cases(d)
    ctx.rules.append("decoder family: the real clightning / lnd DecodePayreq over a fake node answering payment hash, amount in msat (whole and fractional satoshi, +-1 msat around a whole number) and final CLTV delta; monitor: the returned triple is the node's")
    ctx.absorb(res, "decoder", signature=lambda c: "decoder:%s:returned-amount-hash-or-cltv-differs-from-what-the-node-decoded" % c.get("backend", "?"),
               mismatch_is_violation=True,
               describe=lambda c: "DecodePayreq of the %s adapter returned %s for an invoice the node decoded as %s: the taker's amount / hash / CLTV checks run on wrong numbers" % (c.get("backend"), c.get("returned"), c.get("node_decoded")))


def run_validators(ctx, n, nl, outdir=None):
    """validator side: the REAL BitcoinOnChain / LiquidOnChain ValidateTx on generated opening transactions"""
    d = ctx.harness("c03", outdir=outdir or (ctx.work + "/validators"),
                    args=["-n", n, "-nl", nl, "-monitor", "c01_validator_monitor", "-imports", "From PS Require Import Model.C01Validator."])
    if d is None:
        return
    res = vlib.eval_cases(d)
    ctx.rules.append("validator family: the real BitcoinOnChain.ValidateTx / LiquidOnChain.ValidateTx on generated opening transactions (swap output alone / first / after change / after an equal-amount change / among three / twice, wrong amount, wrong script, no outputs, amount and script on DIFFERENT outputs; Liquid: blinded / explicit outputs, wrong asset, wrong blinding key); compared with the validator model of C03; monitor: accepted => one output has exactly the amount and the swap script")
    ctx.absorb(res, "validators", signature=lambda c: "validator:accepted-an-opening-tx-without-an-output-of-the-amount-to-the-swap-script:%s" % c.get("family", "?"),
               describe=lambda c: "the real opening-transaction validator accepted a transaction in which no single output carries the negotiated amount under the swap script (%s / %s)" % (c.get("family"), c.get("layout")))


def search(ctx):
    run_validators(ctx, 1500, 60, outdir=ctx.work + "/search_validators")
    d = ctx.harness("fsm", outdir=ctx.work + "/search", args=["-n", 800, "-focus", "C01"] + MON)
    if d is None:
        return
    res = vlib.eval_cases(d)
    ctx.absorb(res, "fsm-search", signature=sig)
