import vlib

PROP = dict(
    id="C12",
    corr=["Model/FsmCorr.vo", "Model/C12Corr.vo", "Model/C27Corr.vo"],
    design_ref="DESIGN.md §6 C12",
    technique="Coq: arithmetic of the amount getters with explicit int64/uint64 wrap, CheckPremiumAmount as guard of the wrapped actions, claim-invoice equality from C01's invoice invariant; pure-function boundary grids + step-level correspondence against the real SwapService; monitor with integer (unwrapped) arithmetic; plus the op-sequence family of C27 on the real premium.Setting (the rate a responder charges is the one configured at that moment), judged with C27's monitor",
    level_text="Machine-checked: inside the range CheckPremiumAmount accepts (premium <= limit, 0 <= amount+premium <= MaxUint64/1000) GetClaimAmount / GetOpeningTXAmount / *1000 do not wrap (int64/uint64 arithmetic explicit); the CheckPremiumAmount wrapper lets its action run only when that check passed; for ALL histories (C01's quantifiers) the claim invoice a taker pays has msat = GetClaimAmount()*1000, which for a swap-in responder is amount*1000 and for a swap-out initiator whose record passed the check is (amount+premium)*1000 <= (amount+limit)*1000 as integers (PARTIAL: that the check state dominates the paying state is a premise, monitored on every observed scenario); the responder's agreement carries the configured premium. D13 (negative premium + *1000 wrap) was confirmed on the real code and FIXED (repo commit 0078b77).",
    level_note="Trusted: Coq kernel; hand-written Gallina model of swap/actions.go (CheckPremiumAmount incl. the new range check, PayFeeInvoiceAction with 3*estimate exact below 2^51) tied by the pure-function grid (c12fn) and step-level correspondence; fee bound (i), swap-in initiator amounts (iii) and the dominance of the premium check are checked by the monitor on observed scenarios (directed boundary scenarios), not proved over all histories.",
    assumptions=[
        "Go types: amount is a uint64, premium an int64",
        "a decoded invoice has a non-empty payment hash (C01)",
        "fee estimate below 2^51 sat (float64 3x is exact)",
    ],
)

MON = ["-monitor", "c12_monitor", "-imports", "From PS Require Import Model.C12Corr."]


def sig_fn(c):
    return "c12fn:%s:passed=%s" % ("swap-out" if c.get("swap_out") else "swap-in", c.get("passed"))


def sig(c):
    return "fsm:%s:%s" % (c.get("role"), c.get("chain"))


def run(ctx):
    d0 = ctx.harness("c12fn", args=["-n", 400 if ctx.quick else 8000])
    if d0 is not None:
        res0 = vlib.eval_cases(d0)
        ctx.rules.append("GetClaimAmount / GetOpeningTXAmount / GetClaimAmount()*1000 / CheckPremiumAmount on boundary grids (amount 0, 1, maxSat+-1, 2^62, 2^63+-1, 2^64-1; premium 0, +-1, +-amount, -amount-1, limit+-1, int64 extremes, the wrap solutions of 1000*k = X mod 2^64) plus random values")
        ctx.absorb(res0, "c12fn", signature=sig_fn, mismatch_is_violation=False,
                   describe=lambda c: "CheckPremiumAmount lets a swap continue whose amounts are not amount(+premium) as integers / premium above limit: amount=%s premium=%s limit=%s accepted invoice msat=%s" % (
                       c.get("amount"), c.get("premium"), c.get("limit"), c.get("accepted_invoice_msat")))
    n = 160 if ctx.quick else 2400
    d = ctx.harness("fsm", args=["-n", n, "-focus", "C12"] + MON)
    if d is None:
        return
    res = vlib.eval_cases(d)
    ctx.rules.append("scenarios of one swap driven through the real SwapService (focus: initiator roles; directed: premiums 0 / -amount / -amount-1 / int64 max / the D13 wrap solution, fee invoices at 3x and 3x+1 of the estimate); non-trivial = more than one step")
    ctx.absorb(res, "fsm", signature=sig,
               describe=lambda c: "an amount paid / locked / requested differs from amount(+premium) or exceeds the agreed bounds (role %s, chain %s)" % (c.get("role"), c.get("chain")))
    run_rates(ctx)


def run_rates(ctx):
    """responder side: 'charges exactly the premium of its configured rate for that peer' needs the real premium.Setting
    to answer with the rate configured NOW; the op-sequence family of C27 (set / set-default / delete / get / compute /
    reopen on the real bbolt settings) is run here too and judged with C27's monitor. Only the family 'seq' is judged
    for C12 (rates within +-10^6 ppm, amounts that cannot wrap); 'alias' and 'compute' carry C27's known findings."""
    d = ctx.harness("c27", outdir=ctx.work + "/rates", args=["-n", 120 if ctx.quick else 2000])
    if d is None:
        return
    res = vlib.eval_cases(d)
    keep = lambda i: res["cases"][i].get("family") == "seq"
    res["monitor_violations"] = [i for i in res["monitor_violations"] if keep(i)]
    res["mismatches"] = [i for i in res["mismatches"] if keep(i)]
    ctx.rules.append("rates family (shared with C27, only the op-sequence family 'seq' is judged here): SetRate / SetDefaultRate / DeleteRate / GetRate / GetDefaultRate / Compute / reopen sequences on the real premium.Setting over bbolt; monitor: every read and every computed premium is that of the rate configured at that moment (peer rate, else stored default, else built-in default)")
    ctx.absorb(res, "rates", signature=lambda c: "rates:responder-premium-not-of-the-configured-rate",
               describe=lambda c: "the premium / rate the real premium.Setting answers for a peer is not that of the rate configured at that moment (op sequence family %s): a responder would charge a premium other than its configured rate" % c.get("family"))


def search(ctx):
    d = ctx.harness("fsm", outdir=ctx.work + "/search", args=["-n", 800, "-focus", "C12"] + MON)
    if d is None:
        return
    res = vlib.eval_cases(d)
    ctx.absorb(res, "fsm-search", signature=sig)
