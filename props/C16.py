import glob
import os

import vlib

PROP = dict(
    id="C16",
    corr=["Model/FsmCorr.vo", "Model/C16Corr.vo"],
    design_ref="DESIGN.md §6 C16",
    technique="Coq: abstract interpretation of one 'good late round' (RecoverSwaps, then the CSV callback when a CSV watch was registered) over state names and a few facts about the swap data, computed reflectively on the state tables; proved sound for ARBITRARY tables against the executable engine model by world-aware symbolic execution of every action (Proofs/C16.v); decided by vm_compute on the tables regenerated from the code; step-level correspondence of the model with the real SwapService; monitor on observed scenarios that end with restarts under a silent peer",
    level_text="Machine-checked: for every stored swap record of every role in any state except the initial one, whose data has the shape its state implies, two good late rounds (restart in any environment where store writes, on-chain spends and script building succeed and the chain is beyond every window; CSV callback when a watch was registered; peer silent, all other answers arbitrary) end in a terminal state with the swap removed from the active set. The check is proved sound for every table and re-decided on the regenerated tables each run. The initial-state record (crash between the first store write and the first transition) never terminates: refuted in Coq (Findings/F_C16_2.v), reproduced on the real code every run, known finding. The swap-in AwaitAgreement wait (D14) was refuted (Findings/F_C16_1.v), confirmed on the real code and repaired by a table fix; the repaired table satisfies the theorem.",
    level_note="Trusted: Coq kernel; hand-written model of actions.go/fsm.go tied by step-level correspondence; fakes. The hypothesis 'data has the shape its state implies' (c16_need) is checked by the monitor on every observed machine, not proved as an invariant of all histories. Liveness is stated as bounded-round termination under the fairness assumptions of the property (restarts happen, services eventually work, chain advances), not over real time; a swap that cannot be re-locked in RecoverSwaps (two stored swaps on one channel) is C10's matter.",
    assumptions=[
        "a good late round: store writes succeed, spends are broadcast, output scripts are built, every reported height is beyond the swap's payment window (csv/2 resp. window blocks after the recorded start/anchor) and non-zero; the peer sends nothing",
        "the CSV watcher delivers its callback in the process that registered the watch once the chain is beyond the CSV",
        "the stored record has the shape its state implies (opening-tx message present once announced, agreement present once negotiated, coop_close message present in ClaimSwapCoop, ...): checked on all observed machines",
    ],
)

MON = ["-monitor", "c16_monitor", "-imports", "From PS Require Import Model.C16Corr.", "-focus", "C16"]
TERMINAL = ("State_SwapCanceled", "State_ClaimedCoop", "State_ClaimedCsv", "State_ClaimedPreimage")


def sig(c):
    steps = c.get("steps", [])
    if not steps:
        return "c16:empty"
    last = steps[-1]
    if last.get("state_after") in TERMINAL and last.get("removed"):
        return "c16:record-shape:%s" % c.get("role")
    if last.get("state_after") == "":
        return "c16:stuck:initial-state-record"
    return "c16:stuck:%s:%s" % (c.get("role"), last.get("state_after"))


def describe(c):
    s = sig(c)
    if s.startswith("c16:record-shape"):
        return "an observed swap record lacks a fact the termination theorem assumes of its state (role %s)" % c.get("role")
    return "after three good late rounds with a silent peer the swap is still active (%s)" % s


def build_findings(ctx):
    out = {}
    for f in sorted(glob.glob(os.path.join(vlib.COQ, "Findings", "F_C16_*.v"))):
        rc, so, se, dt = vlib.sh(["coqc", "-Q", ".", "PS", "-w", "-notation-overridden", os.path.relpath(f, vlib.COQ)],
                                 cwd=vlib.COQ, timeout=600)
        out[os.path.basename(f)] = "refutation checks" if rc == 0 else "no longer compiles (defect repaired or model changed)"
    ctx.extra["findings_refuted_in_coq"] = out


RULE = ("scenarios of one swap on the real SwapService (4 roles x btc/lbtc): directed prefixes stopped at every wait of every role, "
        "records left by a crash of the creating step after its k-th effect, then random walks (failure injection, deviating peer, "
        "chain advances, restarts); EVERY scenario is followed by three good late rounds (chain +20000, restart without injected "
        "failure, CSV callback iff a watch was registered); non-trivial = more than one step; distinct by role/chain/step kinds/final state")


def run(ctx):
    build_findings(ctx)
    n = 120 if ctx.quick else 1500
    d = ctx.harness("fsm", args=["-n", n] + MON)
    if d is None:
        return
    res = vlib.eval_cases(d)
    ctx.rules.append(RULE)
    ctx.absorb(res, "fsm", signature=sig, describe=describe)


def search(ctx):
    d = ctx.harness("fsm", outdir=ctx.work + "/search", args=["-n", 500] + MON)
    if d is None:
        return
    res = vlib.eval_cases(d)
    ctx.absorb(res, "fsm-search", signature=sig, describe=describe)
