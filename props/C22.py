import vlib

PROP = dict(
    id="C22",
    corr=["Model/FsmCorr.vo", "Model/C22Corr.vo"],
    design_ref="DESIGN.md §6 C22",
    technique="Coq: invariant (recorded opening_tx_broadcasted = NextMessage) through the engine model for any table passing a reflective check; reflective check on the state tables (an announcing state is entered only from states without a live retransmitter; every edge leaving the live states leads to a state whose action tree calls RemoveSender on every path) proved sound for ARBITRARY tables by induction over the engine model and lifted to all histories with crashes; exec-level lemmas over all action trees; vm_compute on the regenerated tables; three correspondence families on the real code: state-machine scenarios (effects), the real messages.Manager/RedundantMessenger under generated Add/Remove/Wait sequences, and end-to-end runs of the real SwapService with the real Manager and a 1 s retry interval; the Manager / RedundantMessenger family runs every operation sequence twice: peer reachable, and peer gone after the first copy (every later send fails)",
    level_text="Machine-checked for every history of every role with crashes and restarts: no retransmitter is ever started while one is live, and a retransmitter is live only while the stored swap is in the announcing state or in the wait for the taker's reaction (for the code's tables exactly SendTxBroadcastedMessage / AwaitClaim(Invoice)Payment of the two maker roles; takers never retransmit); every successor state's action tree stops the retransmitter on every execution. The message handed to a retransmitter is opening_tx_broadcasted for every maker history from the swap's creation (invariant on machines, sound for every table that passes c22_msg_table_ok). This clause was false before the repair 5728a51 (premature opening_tx_broadcasted stored although rejected, root cause D10/C09): refuted then (Findings/F_C22_1.v), reproduced on the real code by directed scenarios that now pass. On the real code: the Manager refuses a second sender per swap id and forgets removed ones (model = observed), at most one copy goes out after RemoveSender returns, and end to end (payment, cancel, coop_close, CSV, invalid message) opening_tx_broadcasted is resent while waiting and at most once afterwards.",
    level_note="Trusted: Coq kernel; hand-written model of actions.go/fsm.go tied by step-level correspondence; Go select/ticker semantics of RedundantMessenger are not modelled: 'at most one already-due copy' is observed on the real type with a 250 ms tick (Manager harness) and the 1 s fast_test interval (end to end), not proved. The production interval (10 s) differs from the tested one only by the constant selected by the fast_test build tag.",
    assumptions=[
        "a process crash ends its retransmitter goroutines (they live in memory only)",
        "MessengerManager.AddSender fails when a sender for the id exists (checked on the real Manager); the model lets the environment decide and proves that the state machine never asks for a second one",
    ],
)

MON = ["-monitor", "c22_monitor", "-imports", "From PS Require Import Model.C22Corr.", "-focus", "C22"]


def sig(c):
    if c.get("fam") == "mgr":
        return "c22:manager"
    if c.get("fam") == "e2e":
        return "c22:e2e:%s:%s" % (c.get("role"), c.get("move"))
    if stale_message(c):
        return "c22:retransmitter-gets-non-otb-message"
    return "c22:fsm:%s" % c.get("role")


OTB = 42077


def stale_message(c):
    """a retransmitter was started for a message that is not opening_tx_broadcasted"""
    for s in c.get("steps", []):
        effs = s.get("effects") or []
        for i, e in enumerate(effs):
            if e.get("e") == "RetransStart":
                nxt = effs[i + 1] if i + 1 < len(effs) else {}
                if not (nxt.get("e") == "Send" and nxt.get("type") == OTB):
                    return True
    return False


def describe(c):
    if c.get("fam") == "mgr":
        return "real messages.Manager/RedundantMessenger: second sender accepted, or more than one copy after RemoveSender (ops %s)" % c.get("ops")
    if c.get("fam") == "e2e":
        return "end to end: opening_tx_broadcasted resent %s times after the swap moved on by %s (before: %s)" % (c.get("after"), c.get("move"), c.get("before"))
    if stale_message(c):
        return "a retransmitter was started for a message that is not opening_tx_broadcasted (role %s)" % c.get("role")
    return "a retransmitter was live outside the wait for the taker's reaction, or started twice (role %s)" % c.get("role")


def build_findings(ctx):
    import glob
    import os
    out = {}
    for f in sorted(glob.glob(os.path.join(vlib.COQ, "Findings", "F_C22_*.v"))):
        rc, so, se, dt = vlib.sh(["coqc", "-Q", ".", "PS", "-w", "-notation-overridden", os.path.relpath(f, vlib.COQ)],
                                 cwd=vlib.COQ, timeout=600)
        out[os.path.basename(f)] = "refutation checks" if rc == 0 else "no longer compiles (defect repaired or model changed)"
    ctx.extra["findings_refuted_in_coq"] = out


def run(ctx):
    build_findings(ctx)
    n = 100 if ctx.quick else 1400
    d = ctx.harness("fsm", args=["-n", n] + MON)
    if d is not None:
        res = vlib.eval_cases(d)
        ctx.rules.append("scenarios of one swap on the real SwapService (4 roles x btc/lbtc; directed: every way a maker leaves the wait, restarts in the live states, late timers; then random walks with failure injection incl. AddSender refusals, deviating peer, restarts); non-trivial = more than one step")
        ctx.absorb(res, "fsm", signature=sig, describe=describe)
    d = ctx.harness("c22", outdir=ctx.work + "/mgr", args=["-fam", "mgr", "-n", 24 if ctx.quick else 240])
    if d is not None:
        res = vlib.eval_cases(d)
        ctx.rules.append("real messages.Manager + RedundantMessenger (250 ms tick, counting messenger): 4 directed and random Add/Remove/Wait sequences over 3 swap ids; compared with the set model; sends after RemoveSender counted")
        ctx.absorb(res, "manager", signature=sig, describe=describe, mismatch_is_violation=True)
    d = ctx.harness("c22", outdir=ctx.work + "/e2e", args=["-fam", "e2e", "-n", 10 if ctx.quick else 40])
    if d is not None:
        res = vlib.eval_cases(d)
        ctx.rules.append("real SwapService + real Manager, 1 s retry interval: both maker roles x btc/lbtc x five ways of leaving the wait; copies of opening_tx_broadcasted counted 2.6 s before and 2.6 s after")
        ctx.absorb(res, "e2e", signature=sig, describe=describe)


def search(ctx):
    d = ctx.harness("fsm", outdir=ctx.work + "/search", args=["-n", 500] + MON)
    if d is None:
        return
    res = vlib.eval_cases(d)
    ctx.absorb(res, "fsm-search", signature=sig, describe=describe)
