import vlib

PROP = dict(
    id="C28",
    corr=["Model/C28Corr.vo"],
    design_ref="DESIGN.md §6 C28",
    technique="Coq theorems over an executable Gallina model of the peersync store, message handler, poller and compatibility query (all operation sequences, all clock readings); model tied to the code by generated constants and a vm_compute correspondence against the real bbolt store / handler / poller driven through verif hooks",
    level_text="Machine-checked Coq proofs for all operation sequences and clock readings: the stored capability is the latest poll unless it advertises a lower version, records reload unchanged, a peer disappears only by a cleanup sweep that found it expired and not connected, request polls to unknown connected peers respect the request interval unless forced, and HasCompatiblePeer holds only for a stored capability with this node's protocol version. The model is run against the real code on generated operation sequences every run, and the property is also evaluated directly on the observed behaviour.",
    level_note="Trusted: Coq kernel, psh dump/harness, hand-written model (tied by the correspondence run), encoding/json and bbolt (a map with atomic transactions), the fake lightning node. The clock is advanced by ageing stored timestamps through a verif hook; one clock reading per operation is assumed (no comparison falls on an exact boundary: the harness keeps ages strictly between whole seconds).",
    assumptions=[
        "one clock reading per operation; Time.Sub saturates at the int64 Duration bounds",
        "a stored record's id equals its bucket key (SavePeerState always writes it so)",
        "asset tickers in payloads are ASCII (strings.TrimSpace / ToUpper modelled on ASCII)",
        "json.Unmarshal of the payload is done by the real decoder in the harness; undecodable stored JSON is not generated",
    ],
    trusted_extra=["verif hook peersync/verif_hooks_c28.go (ageing of stored timestamps = clock advance; raw record dump/put)"],
)


def sig(c):
    return "peersync-sequence"


def run(ctx):
    n = 320 if ctx.quick else 6400
    d = ctx.harness("c28", args=["-n", n])
    if d is None:
        return
    res = vlib.eval_cases(d)
    ctx.rules.append("operation sequences (4-15 operations from: inbound poll / request-poll / other message with valid, lower/equal/higher version, invalid-asset, out-of-range-rate, undecodable and empty payloads; PollAllPeers / ForcePollAllPeers; cleanup sweep; direct CleanupExpiredExcept with boundary timeouts; connect / disconnect; clock advances at +-1 s around 10 s, 10 min, 15 min, 30 min and two centuries; suspicious list, failing sends, failing ListPeers; store reload; HasCompatiblePeer with valid, unknown, empty and over-long ids; legacy / unreadable records; RemovePeerState) against the real bbolt store, handler and poller; every case is non-trivial (each sequence reaches the store) and distinct by the hash of its operations")
    ctx.absorb(res, "c28", signature=sig, mismatch_is_violation=False,
               describe=lambda c: "observed peersync behaviour violates the C28 statement (capability-after-poll / reload / removal-only-when-expired-and-disconnected / request interval / compatibility)")


def search(ctx):
    d = ctx.harness("c28", outdir=ctx.work + "/search", args=["-n", 3000])
    if d is None:
        return
    res = vlib.eval_cases(d)
    ctx.absorb(res, "c28-search", signature=sig, mismatch_is_violation=False)
