import glob
import os

import vlib

PROP = dict(
    id="C17",
    corr=["Model/FsmCorr.vo", "Model/C17Corr.vo", "Model/C08Invoice.vo"],
    design_ref="DESIGN.md §6 C17",
    technique="Coq: reflective check on the state tables (a negotiation wait accepts OnTimeout and is FailOnrecover, both leading through a cancel-sending state to a finished state) proved sound for ARBITRARY tables by symbolic execution of the engine model along the cancel path; leaf lemmas for the timer-arming actions; decided by vm_compute on the tables regenerated from the code; step-level correspondence with the real SwapService; monitor on observed scenarios with the timer durations seen by a step observer; plus the real GetPayreq of both adapters (the fee invoice the node is asked for expires after the requested 600 s)",
    level_text="Machine-checked for every swap data, every environment whose store writes succeed and every history with crashes/restarts: in each of the three negotiation waits (swap-out and swap-in requester without agreement, swap-out responder without fee payment) the 10-minute timer callback and a restart both cancel the swap, remove it from the active set and send the peer a cancel message (and do nothing else); the actions that begin the waits arm the timer and the fee invoice expires after 600 s. Three defects predicted by reading (D14, D15, D16) were refuted in Coq on the pre-fix tables (Findings/F_C17_*.v), reproduced on the real code and repaired by table fixes; the repaired tables satisfy the full statement.",
    level_note="Trusted: Coq kernel; hand-written model of actions.go/fsm.go tied by step-level correspondence; fakes. The duration of the timer (10 minutes) is a literal in three actions and is observed at run time by the monitor (step observer), not generated into Coq; the lightning node's 'invoice expired' notification is not used by the code (clightning AddPaymentNotifier ignores it): the swap-level timer with the same 600 s is what fails the swap.",
    assumptions=[
        "store writes succeed in the step that cancels (otherwise the step stops with ErrStore and the next restart cancels)",
        "the timeout service calls back after the armed duration in the process that armed it (timers live in memory; after a restart the FailOnrecover path cancels instead)",
    ],
)

ARGS = ["-monitor", "c17_monitor", "-imports", "From PS Require Import Model.C17Corr.", "-focus", "C17",
        "-observer", "c17", "-casetype", "c17_case", "-check", "c17_check"]


def sig(c):
    for s in c.get("steps", []):
        pass
    # classify by role and the first timeout/restart taken in a negotiation wait that did not cancel
    prev = ""
    for s in c.get("steps", []):
        st = s.get("state_after")
        if s.get("input") in ("timeout", "restart") and prev in WAITS and not (st == "State_SwapCanceled" and s.get("removed")):
            return "c17:%s:%s:%s->%s" % (c.get("role"), s.get("input"), prev.replace("State_", ""), (st or "").replace("State_", ""))
        if s.get("input") in ("timeout", "restart") and prev in WAITS:
            sent_cancel = any(e.get("e") == "Send" and e.get("type") == 42079 for e in s.get("effects", []))
            if not sent_cancel:
                return "c17:%s:%s:%s:no-cancel-message" % (c.get("role"), s.get("input"), prev.replace("State_", ""))
        prev = st
    return "c17:%s" % c.get("role")


WAITS = ("State_SwapOutSender_AwaitAgreement", "State_SwapInSender_AwaitAgreement", "State_SwapOutReceiver_AwaitFeeInvoicePayment")


def describe(c):
    return "negotiation wait not bounded: %s" % sig(c)


def build_findings(ctx):
    out = {}
    for f in sorted(glob.glob(os.path.join(vlib.COQ, "Findings", "F_C17_*.v"))):
        rc, so, se, dt = vlib.sh(["coqc", "-Q", ".", "PS", "-w", "-notation-overridden", os.path.relpath(f, vlib.COQ)],
                                 cwd=vlib.COQ, timeout=600)
        out[os.path.basename(f)] = "refutation checks" if rc == 0 else "no longer compiles (defect repaired or model changed)"
    ctx.extra["findings_refuted_in_coq"] = out


RULE = ("scenarios of one swap on the real SwapService (4 roles x btc/lbtc): directed flows with the timer firing / the node restarting in "
        "every negotiation wait and after the negotiation is over, then random walks (failure injection, deviating peer, timers and "
        "restarts at random points); the step observer records the duration of every armed timer; non-trivial = more than one step")


def run(ctx):
    build_findings(ctx)
    n = 110 if ctx.quick else 1500
    d = ctx.harness("fsm", args=["-n", n] + ARGS)
    if d is None:
        return
    res = vlib.eval_cases(d)
    ctx.rules.append(RULE)
    ctx.absorb(res, "fsm", signature=sig, describe=describe)
    # adapter side: the fee invoice the node is asked to create really expires after the 600 s the swap asked for
    d2 = ctx.harness("invoice", outdir=ctx.work + "/invoice", args=["-n", 40 if ctx.quick else 800])
    if d2 is not None:
        res2 = vlib.eval_cases(d2)
        ctx.rules.append("invoice family: the real clightning / lnd GetPayreq over a fake node recording the `invoice` / AddInvoice request (fee invoice 600 s, claim invoices, random expiries): the expiry the node is asked for is the requested one")
        ctx.absorb(res2, "invoice", signature=lambda c: "invoice:%s:expiry-or-other-field-differs-from-the-request" % c.get("backend", "?"),
                   mismatch_is_violation=True,
                   describe=lambda c: "GetPayreq of the %s adapter asked the node for %s when the swap requested %s (the fee invoice must expire with the 10 minute negotiation timeout)" % (c.get("backend"), c.get("node_was_asked"), c.get("requested")))


def search(ctx):
    d = ctx.harness("fsm", outdir=ctx.work + "/search", args=["-n", 600] + ARGS)
    if d is None:
        return
    res = vlib.eval_cases(d)
    ctx.absorb(res, "fsm-search", signature=sig, describe=describe)
