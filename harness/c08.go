package main

// C08 — the opening_tx_broadcasted message describes the broadcast transaction
// exactly.  The part decided below the swap action: the REAL wallet adapters'
// CreateOpeningTransaction (clightning, lnd over BitcoinOnChain; LiquidOnChain)
// against fake wallets that fund the requested output in every position
// (swap first / change first / change of EQUAL amount first / several changes,
// 1..3 inputs), and SwapData.GetInvoiceExpiry / GetInvoiceCltv.  The message
// itself (txid, script_out, payreq, blinding key copied from these results) is
// observed in the fsm family (props/C08.py).

import (
	"bytes"
	"crypto/sha256"
	"encoding/hex"
	"errors"
	"flag"
	"fmt"
	"strings"

	"github.com/btcsuite/btcd/btcec/v2"
	"github.com/btcsuite/btcd/btcutil"
	"github.com/btcsuite/btcd/txscript"
	"github.com/btcsuite/btcd/wire"
	"github.com/elementsproject/peerswap/onchain"
	"github.com/elementsproject/peerswap/swap"
	"github.com/vulpemventures/go-elements/address"
	"github.com/vulpemventures/go-elements/transaction"
)

const (
	c08LaySwapOnly = iota
	c08LaySwapFirst
	c08LayChangeFirst
	c08LayEqualChangeFirst
	c08LayEqualChangeLast
	c08LayTwoChangesSwapLast
	c08LayTwoChangesSwapMiddle
	c08LayDropped // the wallet does not create the requested output
	c08NLayouts
)

var c08LayNames = []string{"swap-only", "swap-first", "change-first", "equal-amount-change-first", "equal-amount-change-last",
	"two-changes-swap-last", "two-changes-swap-middle", "requested-output-missing"}

func c08Layout(r *Rng, lay int, amount uint64) ([]c03OutSpec, bool) {
	chg := func(v int64) c03OutSpec {
		_, s := c03P2wpkh(r)
		return c03OutSpec{Amount: v, Script: s}
	}
	other := func() int64 {
		v := r.Range(600, 9000000)
		if uint64(v) == amount {
			v++
		}
		return v
	}
	sw := c03OutSpec{Swap: true}
	switch lay {
	case c08LaySwapOnly:
		return []c03OutSpec{sw}, false
	case c08LaySwapFirst:
		return []c03OutSpec{sw, chg(other())}, false
	case c08LayChangeFirst:
		return []c03OutSpec{chg(other()), sw}, false
	case c08LayEqualChangeFirst:
		return []c03OutSpec{chg(int64(amount)), sw}, false
	case c08LayEqualChangeLast:
		return []c03OutSpec{sw, chg(int64(amount))}, false
	case c08LayTwoChangesSwapLast:
		return []c03OutSpec{chg(other()), chg(other()), sw}, false
	case c08LayTwoChangesSwapMiddle:
		return []c03OutSpec{chg(other()), sw, chg(int64(amount))}, false
	}
	return []c03OutSpec{chg(other()), sw}, true
}

func c08CoqTxOuts(tx *wire.MsgTx) string {
	return fmt.Sprintf("(%s, %s)", CoqStr(tx.TxHash().String()), c03CoqOuts(tx.TxOut))
}

func c08BtcCase(cf *CaseFile, r *Rng, w *c03World, idx int, directed int) error {
	keys := c03Keys{c02RandKey(r), c02RandKey(r), c02RandKey(r)}
	backend := idx % 2
	lay := r.Intn(c08NLayouts)
	amount := uint64(r.Range(10000, 20000000))
	if r.Chance(10) {
		amount = PickU(r, []uint64{1, 546, 1000, 1 << 31, 1<<32 - 1, 1 << 32, 2100000000000000})
	}
	fundFail, bcastFail := false, false
	pre := c03RandBytes(r, 32)
	hash := sha256.Sum256(pre)
	takerHex := hex.EncodeToString(keys.taker.PubKey().SerializeCompressed())
	makerHex := hex.EncodeToString(keys.maker.PubKey().SerializeCompressed())
	hashHex := hex.EncodeToString(hash[:])
	if directed >= 0 {
		backend, lay = directed%2, (directed/2)%c08NLayouts
	} else {
		switch r.Intn(20) {
		case 0:
			fundFail = true
		case 1:
			bcastFail = true
		case 2:
			takerHex = PickS(r, []string{takerHex[:65], "zz", takerHex + "0"})
		case 3:
			hashHex = hashHex[:63]
		}
	}
	params := &swap.OpeningParams{TakerPubkey: takerHex, MakerPubkey: makerHex, ClaimPaymentHash: hashHex, Amount: amount, CSV: 1008}
	var want []byte
	redeem, rerr := onchain.ParamsToTxScript(params, onchain.BitcoinCsv)
	if rerr == nil {
		want = c03P2wsh(redeem)
	}
	layout, dropped := c08Layout(r, lay, amount)
	nin := 1 + r.Intn(3)
	var outSum int64
	for _, o := range layout {
		if o.Swap {
			if !dropped {
				outSum += int64(amount)
			}
		} else {
			outSum += o.Amount
		}
	}
	inValue := (outSum+int64(r.Range(150, 5000)))/int64(nin) + 1
	// every other case: one of the wallet's inputs is a nested-segwit output (the final txid differs from the unsigned one)
	nested := r.Bool()
	w.wallet.reset(c03WalletCfg{NIn: nin, InValue: inValue, Layout: layout, DropRequest: dropped, FundFail: fundFail, BcastFail: bcastFail, NestedInput: nested})
	chain := onchain.NewBitcoinOnChain(&fakeEstimator{btcutil.Amount(1000), nil}, 253, 253, c03Net)
	ad, closeAd, err := w.adapter(backend, chain)
	if err != nil {
		return err
	}
	defer closeAd()

	result := 0
	var rHex, rAddr, rTxid string
	var rFee uint64
	var rVout uint32
	func() {
		defer func() {
			if p := recover(); p != nil {
				result = 2
			}
		}()
		var e error
		rHex, rAddr, rTxid, rFee, rVout, e = ad.CreateOpeningTransaction(params)
		if e != nil {
			result = 1
		}
	}()
	obs := w.wallet.observed()
	var bc []string
	var jsBc []interface{}
	hexOK := false
	for i, raw := range obs.Broadcasts {
		t := wire.NewMsgTx(2)
		if err := t.Deserialize(bytes.NewReader(raw)); err != nil {
			return fmt.Errorf("broadcast opening transaction does not parse: %v", err)
		}
		bc = append(bc, c08CoqTxOuts(t))
		jsBc = append(jsBc, c03JsTx(t))
		if i == 0 {
			hexOK = rHex == hex.EncodeToString(raw)
		}
	}
	requestOK := false
	if obs.Funded != nil && want != nil {
		a, e := btcutil.DecodeAddress(obs.FundAddr, c03Net)
		if e == nil {
			s, _ := txscript.PayToAddrScript(a)
			requestOK = bytes.Equal(s, want) && obs.FundAmount == amount && rAddr == obs.FundAddr
		}
	}
	funded := "None"
	if obs.Funded != nil {
		// the wallet's answer as the model sees it: the id of the transaction the wallet finalizes (LND; it differs
		// from the id of the unsigned funded transaction when an input needs a scriptSig) and the funded outputs
		idOf := obs.Funded
		if obs.Final != nil {
			idOf = obs.Final
		}
		funded = fmt.Sprintf("(Some (%s, %s))", CoqStr(idOf.TxHash().String()), c03CoqOuts(obs.Funded.TxOut))
	}
	in := fmt.Sprintf("(mk_boi %d%%N %s %s %s %s %s %s %s %s)", backend, CoqStr(takerHex), CoqStr(makerHex), CoqStr(hashHex), CoqZu(amount),
		coqBytes(want), funded, CoqZ(inValue*int64(nin)), CoqBool(bcastFail))
	ob := fmt.Sprintf("(mk_boo %d%%N %s %d%%Z %s %s %s %s)", result, CoqStr(rTxid), rVout, CoqZu(rFee), CoqList(bc), CoqBool(hexOK), CoqBool(requestOK))
	beName := []string{"cln", "lnd"}[backend]
	cf.Add("C08Btc "+in+" "+ob, fmt.Sprintf("btc|%d|%d|%d|%d|%v%v|%s|%s", backend, lay, amount, nin, fundFail, bcastFail, takerHex, hashHex),
		result == 0, fmt.Sprintf("btc:%s:%s:res%d", beName, c08LayNames[lay], result), map[string]interface{}{
			"family": "btc", "backend": beName, "layout": c08LayNames[lay], "inputs": nin,
			"params":   map[string]interface{}{"taker": takerHex, "maker": makerHex, "hash": hashHex, "amount": amount},
			"observed": map[string]interface{}{"result": []string{"ok", "error", "panic"}[result], "returned_txid": rTxid, "returned_vout": rVout, "returned_fee": rFee, "broadcast": jsBc, "swap_output_script": hex.EncodeToString(want)},
		})
	return nil
}

// ---------- Liquid

const (
	c08LLaySwapFirst = iota
	c08LLaySwapMiddle
	c08LLaySwapLast
	c08LLayEqualChangeFirst
	c08LLaySwapAfterFee
	c08NLLayouts
)

var c08LLayNames = []string{"swap-first", "swap-middle", "swap-last", "equal-amount-change-first", "swap-after-fee-output"}

func c08LbtcCase(cf *CaseFile, r *Rng, idx int, directed int) error {
	keys := c03Keys{c02RandKey(r), c02RandKey(r), c02RandKey(r)}
	lay := r.Intn(c08NLLayouts)
	chainID := 1 + idx%2
	walletFail := false
	if directed >= 0 {
		lay, chainID = directed%c08NLLayouts, 1+(directed/c08NLLayouts)%2
	} else if r.Chance(8) {
		walletFail = true
	}
	csv := uint32(10080)
	if chainID == 2 {
		csv = 60
	}
	amount := uint64(r.Range(5000, 20000000))
	pre := c03RandBytes(r, 32)
	hash := sha256.Sum256(pre)
	blindKey, _ := btcec.PrivKeyFromBytes(c03Scalar(r))
	params := &swap.OpeningParams{TakerPubkey: hex.EncodeToString(keys.taker.PubKey().SerializeCompressed()),
		MakerPubkey: hex.EncodeToString(keys.maker.PubKey().SerializeCompressed()), ClaimPaymentHash: hex.EncodeToString(hash[:]),
		Amount: amount, CSV: csv, BlindingKey: blindKey}
	redeem, err := onchain.ParamsToTxScript(params, csv)
	if err != nil {
		return err
	}
	want := c03P2wsh(redeem)
	policy := c03PolicyAsset()
	policy33 := append([]byte{0x01}, policy...)
	fee := uint64(r.Range(30, 600))
	var walletTx *transaction.Transaction
	var walletHex string
	wallet := &c03LWallet{}
	wallet.mkOpening = func(p *swap.OpeningParams, asset []byte) (string, string, uint64, error) {
		if walletFail {
			return "", "", 0, errors.New("fake wallet: insufficient funds")
		}
		script, err := address.ToOutputScript(p.OpeningAddress)
		if err != nil {
			return "", "", 0, err
		}
		ca, err := address.FromConfidential(p.OpeningAddress)
		if err != nil {
			return "", "", 0, err
		}
		pub, err := btcec.ParsePubKey(ca.BlindingKey)
		if err != nil {
			return "", "", 0, err
		}
		otherKey, _ := btcec.PrivKeyFromBytes(c03Scalar(r))
		sw, err := c03BlindOut(r, p.Amount, asset[1:], script, pub)
		if err != nil {
			return "", "", 0, err
		}
		chgAmt := uint64(r.Range(1000, 3000000))
		if lay == c08LLayEqualChangeFirst {
			chgAmt = p.Amount
		}
		chg, err := c03BlindOut(r, chgAmt, asset[1:], c03LP2wpkhScript(r), otherKey.PubKey())
		if err != nil {
			return "", "", 0, err
		}
		feeOut := c03ExplicitOut(fee, policy33, []byte{})
		tx := transaction.NewTx(2)
		for i := 0; i < 1+r.Intn(2); i++ {
			tx.AddInput(transaction.NewTxInput(c03RandBytes(r, 32), uint32(r.Intn(3))))
		}
		var outs []*transaction.TxOutput
		switch lay {
		case c08LLaySwapFirst:
			outs = []*transaction.TxOutput{sw.out, chg.out, feeOut}
		case c08LLaySwapMiddle, c08LLayEqualChangeFirst:
			outs = []*transaction.TxOutput{chg.out, sw.out, feeOut}
		case c08LLaySwapLast:
			outs = []*transaction.TxOutput{chg.out, feeOut, sw.out}
		default:
			outs = []*transaction.TxOutput{feeOut, sw.out, chg.out}
		}
		for _, o := range outs {
			tx.AddOutput(o)
		}
		h, err := tx.ToHex()
		if err != nil {
			return "", "", 0, err
		}
		walletTx, walletHex = tx, h
		return tx.TxHash().String(), h, fee, nil
	}
	chain := onchain.NewLiquidOnChain(wallet, c03LNet)
	result := 0
	var rHex, rAddr, rTxid string
	var rFee uint64
	var rVout uint32
	func() {
		defer func() {
			if p := recover(); p != nil {
				result = 2
			}
		}()
		var e error
		rHex, rAddr, rTxid, rFee, rVout, e = chain.CreateOpeningTransaction(params)
		if e != nil {
			result = 1
		}
	}()
	addrOK := false
	if wallet.openAddr != "" {
		s, e1 := address.ToOutputScript(wallet.openAddr)
		ca, e2 := address.FromConfidential(wallet.openAddr)
		addrOK = e1 == nil && e2 == nil && bytes.Equal(s, want) && bytes.Equal(ca.BlindingKey, blindKey.PubKey().SerializeCompressed()) &&
			(result != 0 || rAddr == wallet.openAddr)
	}
	wterm := "None"
	var jsOuts []interface{}
	if walletTx != nil {
		outs := make([]string, len(walletTx.Outputs))
		for i, o := range walletTx.Outputs {
			outs[i] = c03LOutTerm(o, blindKey)
			jsOuts = append(jsOuts, map[string]interface{}{"script": hex.EncodeToString(o.Script), "confidential": o.IsConfidential()})
		}
		wterm = fmt.Sprintf("(Some (%s, %s, %s))", CoqStr(walletTx.TxHash().String()), CoqList(outs), CoqZu(fee))
	}
	in := fmt.Sprintf("(mk_loi %s %s %s %s %d%%Z %d%%N %s %s)", CoqStr(params.TakerPubkey), CoqStr(params.MakerPubkey), CoqStr(params.ClaimPaymentHash),
		CoqZu(amount), csv, chainID, coqBytes(want), wterm)
	ob := fmt.Sprintf("(mk_loo %d%%N %s %d%%Z %s %s %s)", result, CoqStr(rTxid), rVout, CoqZu(rFee), CoqBool(result == 0 && rHex == walletHex), CoqBool(addrOK))
	cf.Add("C08Lbtc "+in+" "+ob, fmt.Sprintf("lbtc|%d|%d|%d|%v", lay, chainID, amount, walletFail), result == 0,
		fmt.Sprintf("lbtc:%s:csv%d:res%d", c08LLayNames[lay], csv, result), map[string]interface{}{
			"family": "lbtc", "layout": c08LLayNames[lay], "csv": csv,
			"params": map[string]interface{}{"taker": params.TakerPubkey, "maker": params.MakerPubkey, "hash": params.ClaimPaymentHash, "amount": amount,
				"blinding_key": hex.EncodeToString(blindKey.Serialize())},
			"wallet_tx_hex": walletHex, "swap_output_script": hex.EncodeToString(want),
			"observed": map[string]interface{}{"result": []string{"ok", "error", "panic"}[result], "returned_txid": rTxid, "returned_vout": rVout, "returned_fee": rFee,
				"wallet_tx_outputs": jsOuts},
		})
	return nil
}

// ---------- invoice expiry / final CLTV on real swap data

func c08InvCases(cf *CaseFile) {
	for chainID, asset := range []string{"", c03LNet.AssetID} {
		for _, ver := range []uint8{5, 6, 7, 8} {
			for role := 0; role < 2; role++ {
				sd := &swap.SwapData{}
				if role == 0 {
					req := &swap.SwapOutRequestMessage{ProtocolVersion: ver, Amount: 100000, Scid: "1x1x1", Asset: asset}
					if asset == "" {
						req.Network = "regtest"
					}
					sd.SwapOutRequest = req
				} else {
					req := &swap.SwapInRequestMessage{ProtocolVersion: ver, Amount: 100000, Scid: "1x1x1", Asset: asset}
					if asset == "" {
						req.Network = "regtest"
					}
					sd.SwapInRequest = req
				}
				e, c := sd.GetInvoiceExpiry(), sd.GetInvoiceCltv()
				term := fmt.Sprintf("C08Inv %d%%N %d%%Z %s %s true", chainID, ver, CoqZu(e), CoqZu(c))
				cf.Add(term, fmt.Sprintf("inv|%d|%d|%d", chainID, ver, role), true, fmt.Sprintf("inv:%s:v%d", []string{"btc", "lbtc"}[chainID], ver),
					map[string]interface{}{"family": "inv", "chain": []string{"btc", "lbtc"}[chainID], "protocol_version": ver, "role": []string{"swap-out", "swap-in"}[role],
						"observed": map[string]interface{}{"invoice_expiry": e, "invoice_final_cltv": c}})
			}
		}
	}
}

func init() {
	registerDump("ConstsC08.v", func() (string, error) {
		var b strings.Builder
		b.WriteString("From Coq Require Import ZArith.\nOpen Scope Z_scope.\n")
		mk := func(asset string, ver uint8) *swap.SwapData {
			req := &swap.SwapOutRequestMessage{ProtocolVersion: ver, Amount: 100000, Scid: "1x1x1", Asset: asset}
			if asset == "" {
				req.Network = "regtest"
			}
			return &swap.SwapData{SwapOutRequest: req}
		}
		b.WriteString("(* SwapData.GetInvoiceExpiry / GetInvoiceCltv evaluated on swap data of each chain and supported protocol version *)\n")
		for _, x := range []struct {
			name, asset string
			ver         uint8
		}{{"btc_v6", "", 6}, {"btc_v7", "", swap.PEERSWAP_PROTOCOL_VERSION}, {"lbtc_v6", c03LNet.AssetID, 6}, {"lbtc_v7", c03LNet.AssetID, swap.PEERSWAP_PROTOCOL_VERSION}} {
			sd := mk(x.asset, x.ver)
			fmt.Fprintf(&b, "Definition gen_invoice_expiry_%s : Z := %d.\n", x.name, sd.GetInvoiceExpiry())
			fmt.Fprintf(&b, "Definition gen_invoice_cltv_%s : Z := %d.\n", x.name, sd.GetInvoiceCltv())
		}
		return b.String(), nil
	})
	register("c08", "opening transaction: real CreateOpeningTransaction of the CLN/LND adapters and LiquidOnChain for all wallet output orderings; invoice expiry / cltv", runC08)
}

func runC08(args []string) error {
	fs := flag.NewFlagSet("c08", flag.ExitOnError)
	out := fs.String("out", "/verif/work/C08", "output dir")
	seed := fs.Uint64("seed", 1, "seed")
	n := fs.Int("n", 300, "random Bitcoin cases")
	nl := fs.Int("nl", 30, "random Liquid cases")
	fs.Parse(args)
	restore := c03Quiet()
	defer restore()
	r := NewRng(*seed)
	cf := NewCaseFile("From PS Require Import Base.ScriptOps Model.Tx Model.OpeningTx Model.C08Corr.", "c08_case", "c08_check", "c08_monitor")
	w, err := c03NewWorld()
	if err != nil {
		return err
	}
	defer w.close()
	c08InvCases(cf)
	for d := 0; d < 2*c08NLayouts; d++ {
		if err := c08BtcCase(cf, r, w, d, d); err != nil {
			return err
		}
	}
	for d := 0; d < 2*c08NLLayouts; d++ {
		if err := c08LbtcCase(cf, r, d, d); err != nil {
			return err
		}
	}
	for i := 0; i < *n; i++ {
		if err := c08BtcCase(cf, r, w, i, -1); err != nil {
			return err
		}
	}
	for i := 0; i < *nl; i++ {
		if err := c08LbtcCase(cf, r, i, -1); err != nil {
			return err
		}
	}
	shard := (len(cf.Cases) + 15) / 16
	if shard < 1 {
		shard = 1
	}
	return cf.Write(*out, shard, map[string]interface{}{"seed": *seed})
}
