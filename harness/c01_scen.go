package main

// C01 / C05 / C12: scripted steps and directed scenarios for the taker's payment path
// (malicious maker announcements, invoices at the boundaries, re-delivery, crashes around
// the payment), and the generator focus for these properties (taker roles).

import (
	"errors"
	"fmt"
	"strconv"
	"strings"

	"github.com/elementsproject/peerswap/messages"
	"github.com/elementsproject/peerswap/swap"
)

func parseKV(arg string) map[string]string {
	kv := map[string]string{}
	for _, p := range strings.Split(arg, ",") {
		if p == "" {
			continue
		}
		if i := strings.Index(p, "="); i >= 0 {
			kv[p[:i]] = p[i+1:]
		} else {
			kv[p] = "1"
		}
	}
	return kv
}

func kvInt(kv map[string]string, k string, dflt int64) int64 {
	if v, ok := kv[k]; ok {
		n, err := strconv.ParseInt(v, 10, 64)
		if err == nil {
			return n
		}
	}
	return dflt
}

func kvU64(kv map[string]string, k string, dflt uint64) uint64 {
	if v, ok := kv[k]; ok {
		n, err := strconv.ParseUint(v, 10, 64)
		if err == nil {
			return n
		}
	}
	return dflt
}

// otbx:dmsat=N,cltv=N,msat=N,nodecode,emptyhash,vout=N  - opening_tx_broadcasted with a chosen invoice
func stepOtbX(sc *Scen, arg string) {
	kv := parseKV(arg)
	r := sc.r
	claim := sc.claimAmount()
	msat := claim*1000 + uint64(kvInt(kv, "dmsat", 0))
	if _, ok := kv["msat"]; ok {
		msat = kvU64(kv, "msat", msat)
	}
	cltv := kvInt(kv, "cltv", sc.policyFinalCltv())
	payreq := sc.env.fresh("lnclaim")
	if _, no := kv["nodecode"]; !no {
		sc.env.Decode[payreq] = DecodeRes{Hash: randHex(r, 32), Msat: msat, Cltv: cltv}
	}
	bk := ""
	if sc.chain == "lbtc" {
		bk = randHex(r, 32)
	}
	msg := &swap.OpeningTxBroadcastedMessage{SwapId: sc.id, Payreq: payreq, TxId: randHex(r, 32), ScriptOut: uint32(kvInt(kv, "vout", 1)), BlindingKey: bk}
	sc.stepPeerMsg("otb", "Event_OnTxOpenedMessage", msg, messages.MESSAGETYPE_OPENINGTXBROADCASTED, "(MOtb "+coqOtb(msg)+")")
}

// out_agreementx:prem=N,fee=N  - swap_out_agreement with a chosen premium / fee invoice amount (sat)
func stepOutAgreementX(sc *Scen, arg string) {
	kv := parseKV(arg)
	r := sc.r
	fee := kvU64(kv, "fee", 300)
	payreq := sc.env.fresh("lnfee")
	sc.env.Decode[payreq] = DecodeRes{Hash: randHex(r, 32), Msat: fee*1000 + kvU64(kv, "feemsat", 0), Cltv: 18}
	msg := &swap.SwapOutAgreementMessage{ProtocolVersion: sc.version, SwapId: sc.id, Pubkey: sc.peerPub(), Payreq: payreq, Premium: kvInt(kv, "prem", 1000)}
	sc.stepPeerMsg("out_agreement", "Event_OnFeeInvoiceReceived", msg, messages.MESSAGETYPE_SWAPOUTAGREEMENT, "(MOutAgr "+coqOutAgr(msg)+")")
}

// in_agreementx:prem=N
func stepInAgreementX(sc *Scen, arg string) {
	kv := parseKV(arg)
	msg := &swap.SwapInAgreementMessage{ProtocolVersion: sc.version, SwapId: sc.id, Pubkey: sc.peerPub(), Premium: kvInt(kv, "prem", 1000)}
	sc.stepPeerMsg("in_agreement", "Event_SwapInSender_OnAgreementReceived", msg, messages.MESSAGETYPE_SWAPINAGREEMENT, "(MInAgr "+coqInAgr(msg)+")")
}

// tx_confirmedx:err,fail=N,invalid,tips=a+b+c - confirmation callback with chosen watcher error /
// payment failures / validator answer / chain tips (offsets from the swap's start height) polled by the pay loop
func stepTxConfirmedX(sc *Scen, arg string) {
	kv := parseKV(arg)
	r := sc.r
	hexs := "0200" + randHex(r, 16)
	_, withErr := kv["err"]
	var p Plan
	for i := int64(0); i < kvInt(kv, "fail", 0); i++ {
		p.Pay = append(p.Pay, nil)
	}
	if _, inv := kv["invalid"]; inv {
		p.Validate = []*bool{boolp(false)}
	}
	if t, ok := kv["tips"]; ok {
		if m := sc.current(); m != nil {
			for _, o := range strings.Split(t, "+") {
				off, _ := strconv.ParseInt(o, 10, 64)
				p.Height = append(p.Height, u32p(uint32(int64(m.Data.StartingBlockHeight)+off)))
			}
		}
	}
	sc.doStep(stepSpec{kind: fmt.Sprintf("tx_confirmed(err=%v)", withErr), plan: p,
		input: func(post *swap.SwapStateMachine) string {
			return fmt.Sprintf("InTxConfirmed %s %s", CoqStr(hexs), CoqBool(withErr))
		},
		call: func() error {
			var e error
			if withErr {
				e = errors.New("watcher: payment window closed")
			}
			return sc.node.svc.OnTxConfirmed(sc.ident(), hexs, e)
		}})
}

// crash_tx_confirmed:K - the confirmation callback runs and the process dies when the K-th
// effect of the step is about to happen (the step itself is not recorded: the next step must be
// "restart", whose pre-state is the durable record)
func stepCrashTxConfirmed(sc *Scen, arg string) {
	k, _ := strconv.Atoi(arg)
	if sc.current() == nil || k <= 0 {
		return
	}
	hexs := "0200" + randHex(sc.r, 16)
	e := sc.env
	e.beginStep(Plan{})
	e.mu.Lock()
	e.crashAt = k
	e.mu.Unlock()
	func() {
		defer func() { recover() }()
		sc.node.svc.OnTxConfirmed(sc.ident(), hexs, nil)
	}()
	e.mu.Lock()
	e.crashAt = 0
	e.mu.Unlock()
	sc.held = nil
}

func init() {
	registerStep("pre_amount", func(sc *Scen, arg string) {
		if v, err := strconv.ParseUint(arg, 10, 64); err == nil {
			sc.amount = v
		}
	})
	registerStep("otbx", stepOtbX)
	registerStep("out_agreementx", stepOutAgreementX)
	registerStep("in_agreementx", stepInAgreementX)
	registerStep("tx_confirmedx", stepTxConfirmedX)
	registerStep("crash_tx_confirmed", stepCrashTxConfirmed)

	takerFocus := func(sc *Scen, idx int) {
		if sc.r.Chance(75) {
			sc.role = []string{"out_sender", "in_receiver"}[idx%2]
		}
	}
	registerFocus("C01", takerFocus)
	registerFocus("C05", func(sc *Scen, idx int) {
		takerFocus(sc, idx)
		if sc.r.Chance(60) {
			sc.chain = "btc"
		}
	})
	registerFocus("C12", func(sc *Scen, idx int) {
		if sc.r.Chance(60) {
			sc.role = []string{"out_sender", "in_sender"}[idx%2]
		}
	})

	registerDirected(
		// C01: invoices a malicious maker can announce
		directed{"out_sender", "btc", []string{"start", "out_agreement", "otbx:dmsat=1", "tx_confirmed"}},
		directed{"out_sender", "btc", []string{"start", "out_agreement", "otbx:dmsat=-1", "tx_confirmed"}},
		directed{"in_receiver", "btc", []string{"request", "otbx:dmsat=1", "tx_confirmed"}},
		directed{"in_receiver", "lbtc", []string{"request", "otbx:dmsat=-1", "tx_confirmed"}},
		directed{"in_receiver", "btc", []string{"request", "otbx:cltv=504", "tx_confirmed"}},
		directed{"in_receiver", "btc", []string{"request", "otbx:cltv=505", "tx_confirmed"}},
		directed{"out_sender", "lbtc", []string{"start", "out_agreement", "otbx:cltv=29", "tx_confirmed"}},
		directed{"out_sender", "lbtc", []string{"start", "out_agreement", "otbx:cltv=30", "tx_confirmed"}},
		directed{"out_sender", "lbtc", []string{"start", "out_agreement", "otbx:cltv=-1", "tx_confirmed"}},
		directed{"in_receiver", "btc", []string{"request", "otbx:nodecode", "tx_confirmed"}},
		// orders of announcement / confirmation / re-delivery
		directed{"in_receiver", "btc", []string{"request", "tx_confirmed", "otb", "tx_confirmed"}},
		directed{"out_sender", "btc", []string{"start", "out_agreement", "otb", "duplicate", "tx_confirmed", "duplicate", "tx_confirmed"}},
		directed{"in_receiver", "lbtc", []string{"request", "otb", "otbx:dmsat=5", "tx_confirmed"}},
		directed{"in_receiver", "btc", []string{"request", "otb", "tx_confirmedx:err", "tx_confirmed"}},
		directed{"out_sender", "btc", []string{"start", "out_agreement", "otb", "tx_confirmedx:invalid", "tx_confirmed"}},
		directed{"out_sender", "btc", []string{"start", "out_agreement", "otb", "tx_confirmedx:fail=1"}},
		// crashes around the payment: before RebalancePayment returns / after the paying state was stored
		directed{"in_receiver", "btc", []string{"request", "otb", "crash_tx_confirmed:3", "restart", "tx_confirmed"}},
		directed{"in_receiver", "btc", []string{"request", "otb", "crash_tx_confirmed:4", "restart", "tx_confirmed"}},
		directed{"out_sender", "lbtc", []string{"start", "out_agreement", "otb", "crash_tx_confirmed:5", "restart"}},
		directed{"out_sender", "btc", []string{"start", "out_agreement", "otb", "crash_tx_confirmed:5", "restart", "restart"}},
	)
}
