package main

// C10, channel-id spellings: the Lightning adapters resolve a channel through lightning.Scid (ClnStyle / LndStyle),
// lockSwap compares the spellings of active swaps after replacing ':' by 'x' (sameChannel). The two agree only as
// long as Scid changes NOTHING but the separator: psh scid compares the real ClnStyle / LndStyle with the model's
// separator normalisation on canonical ids, ids with leading zeros, other separators and junk.

import (
	"flag"
	"fmt"
	"os"

	"github.com/elementsproject/peerswap/lightning"
)

func init() {
	register("scid", "lightning.Scid.ClnStyle / LndStyle against the separator normalisation lockSwap uses", runScid)
}

func runScid(args []string) error {
	fs := flag.NewFlagSet("scid", flag.ExitOnError)
	out := fs.String("out", "/verif/work/C10/scid", "output dir")
	seed := fs.Uint64("seed", 1, "seed")
	n := fs.Int("n", 150, "random ids")
	fs.Parse(args)
	r := NewRng(*seed)
	if err := os.MkdirAll(*out, 0o755); err != nil {
		return err
	}
	cf := NewCaseFile("From PS Require Import Model.C10Scid.", "scid_case", "scid_check", "scid_monitor")
	ids := []string{"100x1x0", "100:1:0", "0100x1x0", "100:01:0", "100x1x00", "00x0x0", "539268x845x1", "539268:845:1", "1x2", "1:2:3:4", "x", ":", "",
		"1x2:3", "100 x1x0", "+100x1x0", "100X1X0", "١٠٠x1x0", "4294967296x1x0", "18446744073709551616:1:1"}
	for i := 0; i < *n; i++ {
		sep := PickS(r, []string{"x", ":"})
		part := func() string {
			s := fmt.Sprint(r.Range(0, 900000))
			switch r.Intn(8) {
			case 0:
				s = "0" + s
			case 1:
				s = "00" + s
			}
			return s
		}
		ids = append(ids, part()+sep+part()+sep+part())
	}
	for _, id := range ids {
		s := lightning.Scid(id)
		term := fmt.Sprintf("mkScid %s %s %s", CoqStr(id), CoqStr(s.ClnStyle()), CoqStr(s.LndStyle()))
		cf.Add(term, "scid|"+id, true, "scid", map[string]interface{}{"family": "scid", "id": id, "cln_style": s.ClnStyle(), "lnd_style": s.LndStyle()})
	}
	return cf.Write(*out, 400, map[string]interface{}{"seed": *seed})
}
