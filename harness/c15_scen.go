package main

// C15: directed scenarios (registered only for `-focus C15`): the core flow of each of the four roles with the
// process dying at EVERY effect (store write / mutating service call) of EVERY step, followed by recovery through
// the restart path and the continuation of the flow; plus crashes during recovery itself.

import "fmt"

func init() {
	if focusArg() != "C15" {
		return
	}
	thorough := slowScenarios()
	type flow struct {
		role  string
		steps []string
		from  int // enumerate crash points from this step on (earlier steps are covered by another flow)
	}
	flows := []flow{
		{"out_sender", []string{"start", "out_agreement", "otb", "tx_confirmed"}, 0},
		{"in_receiver", []string{"request", "otb", "tx_confirmed"}, 0},
		{"out_receiver", []string{"request", "paid_fee", "paid_claim"}, 0},
		{"in_sender", []string{"start", "in_agreement", "paid_claim"}, 0},
		{"out_receiver", []string{"request", "paid_fee", "cancel", "csv"}, 2},
		{"in_sender", []string{"start", "in_agreement", "coop"}, 2},
	}
	var ds []directed
	for fi, f := range flows {
		chains := []string{[]string{"lbtc", "btc"}[fi%2]}
		if thorough {
			chains = []string{"lbtc", "btc"}
		}
		for _, chain := range chains {
			for i := range f.steps {
				if i < f.from {
					continue
				}
				maxK := 10
				if i == 0 {
					maxK = 7
				}
				for k := 1; k <= maxK; k++ {
					steps := append([]string{}, f.steps[:i]...)
					steps = append(steps, fmt.Sprintf("crash@%d:%s", k, f.steps[i]), "restart")
					if i > 0 {
						steps = append(steps, f.steps[i]) // the input is delivered again after the restart
					}
					steps = append(steps, f.steps[i+1:]...)
					steps = append(steps, "restart")
					ds = append(ds, directed{f.role, chain, steps})
				}
			}
			// the process dies again during recovery
			last := len(f.steps) - 1
			ks := []int{3}
			if thorough {
				ks = []int{2, 3, 5, 7}
			}
			for _, k := range ks {
				for j := 1; j <= 4; j++ {
					steps := append([]string{}, f.steps[:last]...)
					steps = append(steps, fmt.Sprintf("crash@%d:%s", k, f.steps[last]), fmt.Sprintf("crash@%d:restart", j), "restart", f.steps[last], "restart")
					ds = append(ds, directed{f.role, chain, steps})
				}
			}
		}
	}
	// D7 (known): the wallet broadcasts the opening transaction, the process dies before the record is stored
	// (crash@4 of paid_fee: persist, invoice, broadcast happened): the restart broadcasts a second one
	ds = append(ds, directed{"out_receiver", "btc", []string{"request", "crash@4:paid_fee", "restart", "paid_claim"}})
	ds = append(ds, directed{"in_sender", "lbtc", []string{"start", "crash@4:in_agreement", "restart", "paid_claim"}})
	// cancelled swaps: later inputs and restarts never pay
	ds = append(ds, directed{"out_sender", "btc", []string{"start", "cancel", "out_agreement", "restart", "otb", "tx_confirmed"}})
	ds = append(ds, directed{"out_sender", "lbtc", []string{"start", "out_agreement", "cancel", "restart", "otb", "tx_confirmed"}})
	ds = append(ds, directed{"in_receiver", "btc", []string{"request", "cancel", "restart", "otb", "tx_confirmed"}})
	// the cancel message cannot be delivered (SendCancel --ActionFailed--> SwapCanceled): still nothing is paid later
	ds = append(ds, directed{"out_sender", "btc", []string{"start", "send=fail:timeout", "out_agreement", "otb", "tx_confirmed", "restart"}})
	ds = append(ds, directed{"out_sender", "lbtc", []string{"start", "out_agreement", "otb", "send=fail:cancel", "tx_confirmed", "restart", "tx_confirmed"}})
	ds = append(ds, directed{"in_receiver", "lbtc", []string{"request", "send=fail:timeout", "otb", "tx_confirmed", "restart"}})
	registerDirected(ds...)
}
